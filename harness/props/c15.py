"""C15 — property-descriptor inference reaches the full closure in any assertion order.

Implementation side: histories of single-valued assignment, container assignment and append/add executed on the
REAL descriptors (`PropertyDescriptor.__set__`, `MonitoredList.append`, `MonitoredSet.add`, and through them
`PropertyDescriptorRelation.add_to_graph`) over (U) the repository's university-like classes and (D) a harness
schema with a diamond of sub-properties, an inverse pair, two transitive properties (one with a sub-property and an
inverse) and a role taker, and (H) a schema whose domain classes form a subclass hierarchy with one transitive
descriptor class attached to two unrelated classes. Every history is also run in permuted orders; a further family
interleaves the assertions with instance churn (short-lived instances die, new ones take over their addresses, dead
nodes are swept from the symbol graph) and checks the closure over the live instances. Observation: the set of relation triples
`SymbolGraph().relations()` and the contents of every managed field, both as sets over harness labels — exactly
what the property talks about; a single-valued field is compared as "one of the derivable targets" (the graph
never retracts, DESIGN section 5/C15)."""
from __future__ import annotations

import re
from typing import Dict, List

from core import Case

PID = "C15"
LEAN_MODULES = ["KrroodVerif.Props.C15", "KrroodVerif.Props.C15Rules", "KrroodVerif.Props.C16HalfBuilt"]
THEOREMS = [
    "KrroodVerif.PD.C15_sound",
    "KrroodVerif.PD.C15_closed",
    "KrroodVerif.PD.C15_order_independent",
    "KrroodVerif.PD.C15_order_independent_perm",
    "KrroodVerif.PD.C15_spec_exec",
    "KrroodVerif.PD.C15_spec_total",
    "KrroodVerif.PD.C15_fields_agree",
    "KrroodVerif.PD.C15_fields_closure",
    "KrroodVerif.PD.C15_assign_keeps_inferred",
    "KrroodVerif.PD.C15_cex_reassign_asserted",
    "KrroodVerif.PD.C15_cex_falsy_not_recorded",
    "KrroodVerif.PD.run_eq_closure",
    "KrroodVerif.PD.schema_UClosed",
    # second tie: the inference rules as a table regenerated from the Python AST (Props/C15Rules.lean)
    "KrroodVerif.PD.addFact_eq_interp",
    "KrroodVerif.PD.schemaSem_toRules",
    "KrroodVerif.PD.runGen_eq_closure",
    "KrroodVerif.PD.C15_rules_closure",
    "KrroodVerif.PD.C15_rules_order_independent",
    "KrroodVerif.PD.C15_rules_agree_with_model",
    "KrroodVerif.PD.C15_rules_cex_skip_inferred",
    # instances under construction, F-C15-4 = F-C16-10 (Model/DescriptorHalfBuilt.lean, Props/C16HalfBuilt.lean)
    "KrroodVerif.PD.C16_half_state",
    "KrroodVerif.PD.C16_half_repaired",
    "KrroodVerif.PD.C16_half_partial",
    "KrroodVerif.PD.C16_half_cex",
]
MODEL_FUNCTION = ("PD.addFact / PD.addCore / PD.uRule / PD.updateValue / PD.step / PD.runModel "
                  "(Model/Descriptor.lean); specification PD.closure = PD.Derivable (C15_spec_exec)")
TRUSTED = [
    "Lean 4.33 kernel; axioms of each theorem listed under coverage.theorems",
    "hand-written model Model/Descriptor.lean of PropertyDescriptorRelation.add_to_graph (super / role-taker / "
    "inverse / transitive inference), PropertyDescriptor.__set__ / update_value and MonitoredList.append / "
    "MonitoredSet.add / _add_item",
    "the numeric encoding of the declared semantics, computed from the real descriptor classes on every run "
    "(issubclass, get_inverse(), TransitiveProperty, Role) by harness/props/_pd.py",
    "second tie: harness/translate/c15_translate.py (Python AST -> rule table; strict, normalising) - trusted to read the "
    "statement shapes it accepts correctly; the contents of super_relations / inverse_domain_and_field stay hand-modelled",
    "this correspondence harness (random histories + permutations through the real API in isolated worker "
    "processes) and the S-expression driver",
]
ASSUMPTIONS = [
    "a relation is identified by (descriptor class, source, target): the implementation also tells apart the owner "
    "class recorded in the wrapped field (Place.located_in / City.located_in on a City(Place) instance; one descriptor "
    "class attached to two classes) - the model and the observation work on that quotient; collection assignment "
    "is not generated in schema H, where such variants become visible in the fields inside the F-C15-3 trigger",
    "schema F: classes with their own truthiness (__len__ backed by a mutable attribute, __bool__); instances are "
    "falsy at some points of a history, as owners and as elements. Truthiness is irrelevant to the closure (an "
    "instance is just an object), so the specification ignores it; the code's truthiness test is the quirk of F-C15-2",
    "a collection is assigned as an ORDERED iterable (a tuple for a set-valued field): the order in which the setter "
    "walks the value decides which elements arrive by assertion and which by inference, and the iteration order of a "
    "Python set of the repository's classes (hashed by name) is not reproducible",
    "instances that die during a history take part in no relation and play no role (nothing else can die: fields hold "
    "strong references)",
    "inverses always find their field (no ValueError), objects are truthy and compare by "
    "identity (harness classes) or by distinct names (repository classes)",
    "rustworkx out_edges()/in_edges() return a snapshot list (the transitive loops iterate over edges present "
    "when the loop starts)",
    "re-assigning a single-valued field asserts a second fact (the graph never retracts): its value is compared "
    "as a member of the derivable targets, not as the unique target",
    "list-valued fields are compared as sets in C15 (their order legitimately depends on the assertion order; "
    "order and repetitions are C16's subject)",
]
RULE = ("random well-typed histories (1..8 assertions quick, ..12 thorough) of single-valued assignment, append/add,"
        " container assignment (collection or bare element) over schemas U and D with 5..11 objects incl. role "
        "takers, self loops, cycles and diamonds in transitive relations; each history also in reversed and random "
        "permuted order; instances created by ONE constructor call that assigns several managed fields (also stated "
        "by plain writes afterwards, and with the calls first); non-trivial = at least two relations were inferred beyond the asserted ones; distinct by "
        "case text")


def extra_obligations():
    """Second tie, by translation: regenerate the rule table (`Translated.rules`, `Translated.proc`) from the CURRENT
    source of property_descriptor_relation.py / property_descriptor.py and have the kernel re-check (1) that it is the
    table the hand-written model transcribes (`addFact_eq_interp` then says the interpreter on it IS `addFact`),
    (2) that it satisfies `RulesOk`, hence (3) — generic theorem `C15_rules_order_independent`, proved once — that
    the procedure the source describes is order independent. A rejected or changed translation is not by itself a
    violation: core.py then searches for a concrete failing input."""
    import os
    import subprocess
    import core
    from translate.c15_translate import OBLIGATIONS as names, TranslationError, generate as gen
    try:
        text = gen(core.REPO)
    except (TranslationError, SyntaxError, OSError) as e:
        return [{"name": n, "ok": False, "detail": f"translator rejected the source: {e}"} for n in names]
    tmp = core.LEAN_DIR / ".lake" / "audit"
    tmp.mkdir(parents=True, exist_ok=True)
    f = tmp / f"C15Translated_{os.getpid()}.lean"
    f.write_text(text + "".join(f"#print axioms {n}\n" for n in names))
    try:
        p = subprocess.run(["lake", "env", "lean", str(f)], cwd=str(core.LEAN_DIR), capture_output=True, text=True,
                           timeout=600)
    finally:
        try:
            f.unlink()
        except OSError:
            pass
    out = " ".join(((p.stdout or "") + (p.stderr or "")).split())
    table = text.split("def proc")[0].split("def rules", 1)[-1]
    res = []
    for n in names:
        m = re.search(r"'" + re.escape(n) + r"' depends on axioms: \[([^\]]*)\]", out)
        none = re.search(r"'" + re.escape(n) + r"' does not depend on any axioms", out)
        ax = [a.strip() for a in m.group(1).split(",")] if m else ([] if none else None)
        # a theorem whose proof failed is recorded by Lean with `sorryAx`: judged per theorem
        ok = ax is not None and set(ax) <= core.ALLOWED_AXIOMS
        res.append({"name": n, "ok": ok, "axioms": ax,
                    "detail": "translated table:" + table[:1800] + "\n" + (p.stdout or "")[-1500:] + (p.stderr or "")[-500:]})
    return res


def budget(tier: str) -> int:
    return 330 if tier == "quick" else 4000


_DESC: Dict[str, dict] = {}


def _desc(tag: str) -> dict:
    if tag not in _DESC:
        from props import _pd
        _DESC[tag] = _pd.describe(tag)
    return _DESC[tag]


def _world(rng, tag: str):
    """[(class id, role taker index or '-')]; role takers precede the roles that use them"""
    if tag == "F":
        # bags (own __len__) and flags (own __bool__)
        return [(0, "-")] * rng.randint(2, 4) + [(1, "-")] * rng.randint(1, 3)
    if tag == "H":
        # Place, City(Place), Metropolis(City), Region: at least one instance of a subclass and one plain Place
        counts = [rng.randint(1, 2), rng.randint(1, 2), rng.randint(0, 2), rng.randint(0, 2)]
        return [(c, "-") for c, k in enumerate(counts) for _ in range(k)]
    if tag == "U":
        n0, n1, n2 = rng.randint(1, 3), rng.randint(2, 4), rng.randint(0, 2)
    else:
        n0, n1, n2 = rng.randint(2, 4), rng.randint(1, 3), rng.randint(0, 2)
    objs = [(0, "-")] * n0 + [(1, "-")] * n1
    if tag == "U":
        # the repository's CEO compares by value (person, head_of): two CEOs of one person would be equal objects,
        # which a set-valued field cannot tell apart — outside the property (objects are assumed distinct)
        takers = rng.sample(range(n0), min(n2, n0))
    else:
        takers = [rng.randrange(n0) for _ in range(n2)]
    for t in takers:
        objs.append((2, t))
    return objs


def _ops(rng, d: dict, objs, n: int, weights=None, usable=None, single_done=None, no_assign=False):
    """`usable`: indices of the instances that exist (and stay alive) while these assertions are made"""
    by_cls: Dict[int, List[int]] = {}
    for i, (c, _) in enumerate(objs):
        if usable is None or i in usable:
            by_cls.setdefault(c, []).append(i)
    ops = []
    single_done = set() if single_done is None else single_done
    nf = len(d["fields"])
    trans_like = [f for f in range(nf) if d["kinds"][f] != "single"]
    guard = 0
    while len(ops) < n and guard < 200:
        guard += 1
        f = rng.randrange(nf)
        if weights and rng.random() < 0.5:
            f = rng.choice(weights)
        srcs = [o for c in d["applies"][f] for o in by_cls.get(c, [])]
        tgts = [o for tc in d["targets"][f] for o in by_cls.get(tc, [])]
        if not srcs or not tgts:
            continue
        s = rng.choice(srcs)
        if d["kinds"][f] == "single":
            if (f, s) in single_done and rng.random() < 0.8:
                continue
            single_done.add((f, s))
            ops.append(f"(set {f} {s} {rng.choice(tgts)})")
        else:
            r = 0.0 if no_assign else rng.random()
            if r < 0.86:
                ops.append(f"(add {f} {s} {rng.choice(tgts)})")
            elif r < 0.94:
                k = rng.randint(1, 3)
                xs = [rng.choice(tgts) for _ in range(k)]
                ops.append(f"(assign {f} {s} {' '.join(map(str, xs))})")
            else:
                ops.append(f"(assign1 {f} {s} {rng.choice(tgts)})")
    return ops


def _with_truthiness_events(rng, objs, ops):
    """instances of classes with their own __len__ / __bool__ become falsy (and truthy again) at random points of the
    history: as owners and as elements"""
    ops = list(ops)
    for _ in range(rng.randint(1, 3)):
        o = rng.randrange(len(objs))
        i = rng.randint(0, len(ops))
        ops.insert(i, f"(falsy {o})")
        if rng.random() < 0.6:
            ops.insert(rng.randint(i + 1, len(ops)), f"(truthy {o})")
    return ops


def _line(d: dict, objs, ops) -> str:
    o = " ".join(f"({c} {r})" for c, r in objs)
    return f"(h {d['sexp']} (objs {o}) (ops {' '.join(ops)}))"


# fixed histories run in ALL 24 orders: a 4-cycle of sub-organisations; role + single-valued + set + list over one
# company; a diamond in a transitive relation; a sub-property chain closed into a cycle through the inverse; role
# taker, diamond of sub-properties, inverse through a role, inverse that is a sub-property
_HOBJ = [(0, "-"), (0, "-"), (1, "-"), (2, "-"), (3, "-"), (3, "-")]
_FIXED = [
    # subclass hierarchy: a sub-property asserted on a City / Metropolis instance, chained with relations asserted on
    # the declaring class and on an unrelated class carrying the same transitive descriptor
    ("H", _HOBJ, ["(add 2 2 0)", "(add 0 0 1)", "(add 0 1 4)", "(add 0 4 5)"]),
    ("H", _HOBJ, ["(set 3 3 2)", "(add 0 2 4)", "(add 1 5 4)", "(add 2 2 0)"]),
    ("U", [(0, "-"), (0, "-"), (1, "-"), (1, "-"), (1, "-"), (1, "-"), (2, 0)],
     ["(add 3 5 4)", "(add 3 4 3)", "(add 3 3 2)", "(add 3 2 5)"]),
    ("U", [(0, "-"), (0, "-"), (1, "-"), (1, "-"), (1, "-"), (1, "-"), (2, 0)],
     ["(set 4 6 2)", "(set 0 1 2)", "(add 2 3 6)", "(add 1 0 3)"]),
    ("D", [(0, "-"), (0, "-"), (0, "-"), (0, "-"), (1, "-"), (1, "-"), (2, 0), (2, 1)],
     ["(add 4 0 1)", "(add 4 0 2)", "(add 4 1 3)", "(add 4 2 3)"]),
    ("D", [(0, "-"), (0, "-"), (0, "-"), (0, "-"), (1, "-"), (1, "-"), (2, 0), (2, 1)],
     ["(add 6 0 1)", "(add 6 1 2)", "(add 7 3 2)", "(add 5 3 0)"]),
    ("D", [(0, "-"), (0, "-"), (0, "-"), (0, "-"), (1, "-"), (1, "-"), (2, 0), (2, 1)],
     ["(set 9 6 4)", "(set 3 1 4)", "(add 8 4 7)", "(add 10 2 5)"]),
    # a role with a super-property field of its own (rright) next to the super-properties on its role taker
    ("D", [(0, "-"), (0, "-"), (0, "-"), (0, "-"), (1, "-"), (1, "-"), (2, 0), (2, 1)],
     ["(set 9 6 4)", "(add 13 7 5)", "(add 2 0 4)", "(add 8 5 6)"]),
    # inverse fields next to fields of a super-property of the inverse (both name orders), incl. a role target whose
    # inverse field lives on the role taker
    ("D", [(0, "-"), (0, "-"), (0, "-"), (0, "-"), (1, "-"), (1, "-"), (2, 0), (2, 1)],
     ["(add 14 0 4)", "(add 16 5 1)", "(add 16 4 6)", "(add 18 7 5)"]),
]


def _reassign_history(rng, d: dict, tag: str):
    """a collection field is assigned twice (or more): the later value drops elements asserted earlier — repetitions
    in the assigned list, the owner itself as an element, transitive fields with relations asserted around it"""
    objs = _world(rng, tag)
    by_cls: Dict[int, List[int]] = {}
    for i, (c, _) in enumerate(objs):
        by_cls.setdefault(c, []).append(i)
    cont = [f for f in range(len(d["fields"])) if d["kinds"][f] != "single"]
    trans = [f for f in cont if d["fields"][f][1] in ("sub_organization_of", "near", "anc", "parent", "desc",
                                                       "within")]
    for _ in range(20):
        f = rng.choice(trans) if trans and rng.random() < 0.6 else rng.choice(cont)
        srcs = [o for c in d["applies"][f] for o in by_cls.get(c, [])]
        tgts = [o for tc in d["targets"][f] for o in by_cls.get(tc, [])]
        if srcs and tgts:
            break
    else:
        return None
    s_ = rng.choice(srcs)
    pool = tgts + ([s_] if s_ in tgts else [])

    def value(k):
        return [rng.choice(pool) for _ in range(k)]

    done = set()
    ops = _ops(rng, d, objs, rng.randint(0, 2), [f], None, done)
    if f in trans and s_ in tgts and rng.random() < 0.7:
        # cycles through the owner: back edges x -> s asserted first, then s is assigned a value that holds s itself
        # and the x's in an order of its own (which of them arrive by assertion and which by inference depends on it)
        xs = rng.sample([o for o in srcs if o != s_ and o in tgts], min(rng.randint(1, 2), len([o for o in srcs if o != s_ and o in tgts]))) \
            if any(o != s_ and o in tgts for o in srcs) else []
        for x in xs:
            ops.append(f"(add {f} {x} {s_})")
        first = [s_] + xs + ([rng.choice(xs)] if xs and rng.random() < 0.5 else [])
        rng.shuffle(first)
    else:
        first = value(rng.randint(1, 3))
    ops.append(f"(assign {f} {s_} {' '.join(map(str, first))})")
    ops += _ops(rng, d, objs, rng.randint(0, 1), [f], None, done)
    second = [x for x in first if rng.random() < 0.5] + value(rng.randint(0, 1))
    if not second:
        second = value(1)
    ops.append(f"(assign {f} {s_} {' '.join(map(str, second))})")
    ops += _ops(rng, d, objs, rng.randint(0, 1), [f], None, done)
    return objs, ops


def _churn_history(rng, d: dict, tag: str, maxlen: int):
    """assertions, then short-lived instances WITHOUT relations are created and discarded, each followed by a new
    instance (CPython hands it the freed address), the new ones take part in assertions, the dead nodes are swept from the symbol graph (what
    every query evaluation does), and more assertions follow. Returns (objs, segments); the order inside a
    segment is free."""
    objs = _world(rng, tag)
    base = set(range(len(objs)))
    ncls = [c for c, r in objs if r == "-"]
    k = rng.randint(1, 3)
    cls = [rng.choice(ncls) for _ in range(k)]
    temps = list(range(len(objs), len(objs) + k))
    objs = objs + [(c, "-") for c in cls]
    lates = list(range(len(objs), len(objs) + k))
    objs = objs + [(c, "-") for c in cls]
    done = set()
    w = [f for f, (c, name) in enumerate(d["fields"]) if d["kinds"][f] != "single"]
    na = tag == "H"
    seg1 = _ops(rng, d, objs, rng.randint(0, 3), w, base, done, na)
    churn = [x for t, l in zip(temps, lates) for x in (f"(kill {t})", f"(new {l})")]
    live = base | set(lates)
    seg2 = _ops(rng, d, objs, rng.randint(1, max(2, maxlen // 2)), w, live, done, na)
    # make sure a new instance is mentioned before the sweep
    seg3 = _ops(rng, d, objs, rng.randint(1, max(2, maxlen // 2)), w, live, done, na)
    return objs, [seg1, churn, seg2, ["(sweep)"], seg3]


def _ctor_history(rng, d: dict, tag: str, maxlen: int):
    """instances created by ONE constructor call that assigns several managed fields at once
    (`Person("p", works_for=acme, member_of=[club])`): `__init__` assigns the fields in declaration order, so the
    inference triggered by an earlier field reaches later fields of the same instance before `__init__` has assigned
    them. Returns (objs, before, [(late index, [(field, [values])…])…], after): assertions among the instances that
    exist from the start, the constructor calls, assertions that may mention the new instances."""
    objs = _world(rng, tag)
    base = set(range(len(objs)))
    ctorf = d["ctor_fields"]
    by_cls: Dict[int, List[int]] = {}
    for i, (c, _) in enumerate(objs):
        by_cls.setdefault(c, []).append(i)
    taken = {r for _, r in objs if r != "-"}
    calls = []
    usable = set(base)
    for _ in range(rng.randint(1, 2)):
        cands = []
        for c in range(d["nclasses"]):
            if not ctorf.get(c):
                continue
            if c in d["role_cls"]:
                free = [o for o in by_cls.get(0, []) if o in base and (tag != "U" or o not in taken)]
                if not free:
                    continue
            cands += [c] * (3 if len(ctorf[c]) >= 2 else 1)
        if not cands:
            break
        c = rng.choice(cands)
        rt = "-"
        if c in d["role_cls"]:
            rt = rng.choice([o for o in by_cls.get(0, []) if o in base and (tag != "U" or o not in taken)])
            taken.add(rt)
        o = len(objs)
        objs = objs + [(c, rt)]
        give_all = rng.random() < 0.5
        vals = []
        for f in ctorf[c]:
            tgts = [t for tc in d["targets"][f] for t in by_cls.get(tc, []) if t in usable]
            xs: List[int] = []
            if tgts and (give_all or rng.random() < 0.6):
                k = d["kinds"][f]
                # a set-valued field gets one element: the iteration order of a larger Python set is not reproducible
                m = 1 if k in ("single", "set") else rng.randint(1, 3)
                xs = [rng.choice(tgts) for _ in range(m)]
            vals.append((f, xs))
        if sum(1 for _, xs in vals if xs) < min(2, len(vals)):
            # at least two fields in one call wherever the class has them
            for j, (f, xs) in enumerate(vals):
                tgts = [t for tc in d["targets"][f] for t in by_cls.get(tc, []) if t in usable]
                if not xs and tgts:
                    vals[j] = (f, [rng.choice(tgts)])
        calls.append((o, vals))
        usable.add(o)
        by_cls.setdefault(c, []).append(o)
    if not calls:
        return None
    w = [f for f in range(len(d["fields"])) if d["kinds"][f] != "single"]
    done = set()
    na = tag == "H"
    before = _ops(rng, d, objs, rng.randint(0, max(1, maxlen // 3)), w, base, done, na)
    after = _ops(rng, d, objs, rng.randint(0, max(1, maxlen // 2)), w, usable, done, na)
    return objs, before, calls, after


def _ctor_op(o, vals) -> str:
    return f"(ctor {o} " + " ".join("(" + " ".join(map(str, [f] + xs)) + ")" for f, xs in vals) + ")"


def _plain_ops(d, o, vals) -> List[str]:
    """the same relations stated by plain writes on an instance built without them"""
    out = []
    for f, xs in vals:
        for x in xs:
            out.append(f"(set {f} {o} {x})" if d["kinds"][f] == "single" else f"(add {f} {o} {x})")
    return out


def generate(rng, tier, n):
    import itertools
    cases: List[Case] = []
    maxlen = 8 if tier == "quick" else 12
    for i in range(max(48, n // 5)):
        tag = ("U", "D", "H", "U", "D", "F")[i % 6]
        d = _desc(tag)
        r = _ctor_history(rng, d, tag, maxlen)
        if r is None:
            continue
        objs, before, calls, after = r
        ops = before + [_ctor_op(o, vals) for o, vals in calls] + after
        cases.append(Case(_line(d, objs, ops), ("schema-" + tag, "constructor-call"), "random"))
        # the same relations, instances built bare and the relations stated afterwards in a random order
        plain = [x for o, vals in calls for x in _plain_ops(d, o, vals)]
        rng.shuffle(plain)
        ops2 = before + [f"(new {o})" for o, _ in calls] + plain + after
        cases.append(Case(_line(d, objs, ops2), ("schema-" + tag, "constructor-call", "stated-afterwards"), "random"))
        # the constructor calls first, everything else after them in a random order
        if all(r_ == "-" or r_ < min(o for o, _ in calls) for _, r_ in objs):
            rest = before + after
            rng.shuffle(rest)
            ok_first = all(x < min(o for o, _ in calls) or any(x == o2 for o2, _ in calls[:k])
                           for k, (o, vals) in enumerate(calls) for _, xs in vals for x in xs)
            if ok_first:
                ops3 = [_ctor_op(o, vals) for o, vals in calls] + rest
                cases.append(Case(_line(d, objs, ops3), ("schema-" + tag, "constructor-call", "order-permuted"), "random"))
    for tag, objs, ops in _FIXED:
        for perm in itertools.permutations(ops):
            cases.append(Case(_line(_desc(tag), objs, list(perm)), ("schema-" + tag, "all-orders"), "exhaustive"))
    for i in range(max(30, n // 4)):
        tag = ("H", "U", "D", "H")[i % 4]
        d = _desc(tag)
        objs, segs = _churn_history(rng, d, tag, maxlen)
        if not (segs[2] and segs[4]):
            continue
        for v in range(2):
            ops = []
            for seg in segs:
                seg = seg[:]
                if v and seg and not seg[0].startswith(("(kill", "(new", "(sweep")):
                    rng.shuffle(seg)
                ops += seg
            cases.append(Case(_line(d, objs, ops), ("schema-" + tag, "instance-churn"), "random"))
    for i in range(max(45, n // 6)):
        tag = ("U", "D", "F")[i % 3]
        d = _desc(tag)
        r = _reassign_history(rng, d, tag)
        if r is None:
            continue
        objs, ops = r
        cases.append(Case(_line(d, objs, ops), ("schema-" + tag, "reassignment"), "random"))
        p = ops[:]
        rng.shuffle(p)
        cases.append(Case(_line(d, objs, p), ("schema-" + tag, "reassignment", "order-permuted"), "random"))
    for i in range(n):
        tag = ("U", "U", "D", "D", "H", "D", "H", "F", "F")[i % 9]
        d = _desc(tag)
        objs = _world(rng, tag)
        # favour the transitive fields and the role: that is where order could matter
        trans_fields = [f for f, (c, name) in enumerate(d["fields"])
                        if name in ("sub_organization_of", "near", "anc", "parent", "desc", "head_of", "rbottom", "owns", "rright", "holds", "held_by",
                                    "located_in", "capital_of", "contains", "seat_of", "within", "next", "flags")]
        # schema H: no collection assignment — in the trigger region of F-C15-3 the wrapped-field variants the model
        # abstracts from become visible in the fields (a second variant of a known relation is written back)
        ops = _ops(rng, d, objs, rng.randint(1, maxlen), trans_fields, no_assign=(tag == "H"))
        if not ops:
            continue
        if tag == "F" and i % 18 != 7:   # one in two F histories keeps every instance truthy
            ops = _with_truthiness_events(rng, objs, ops)
        kinds = tuple(sorted({o.split()[0][1:] for o in ops}))
        cases.append(Case(_line(d, objs, ops), ("schema-" + tag, "order-base") + kinds, "random"))
        if len(ops) > 1:
            cases.append(Case(_line(d, objs, list(reversed(ops))), ("schema-" + tag, "order-reversed"), "random"))
            for _ in range(2 if tier == "quick" else 4):
                p = ops[:]
                rng.shuffle(p)
                cases.append(Case(_line(d, objs, p), ("schema-" + tag, "order-permuted"), "random"))
    return cases


def nontrivial(case: Case, spec: str) -> bool:
    m = re.match(r"R\[([^\]]*)\]", spec)
    if not m:
        return False
    nrel = len([x for x in m.group(1).split(",") if x])
    ops = case.line[case.line.rfind("(ops "):]
    asserted = 0
    for k, args in re.findall(r"\((set|add|assign1|assign) ([^)]*)\)", ops):
        asserted += len(args.split()) - 2 if k == "assign" else 1
    return nrel >= asserted + 2


def _split(obs: str):
    m = re.match(r"^(R\[[^\]]*\])\|F\[([^\]]*)\]$", obs)
    if not m:
        return None
    return m.group(1), m.group(2).split(";") if m.group(2) else []


def compare(impl: str, other: str) -> bool:
    """equal through the observation function: relation triples and container contents as sets (already sorted by
    both sides); a single-valued field (`f.o~t|t` on the Lean side) must hold one of the derivable targets, and
    must hold a value iff there is one"""
    if impl == other:
        return True
    a, b = _split(impl), _split(other)
    if a is None or b is None or a[0] != b[0] or len(a[1]) != len(b[1]):
        return False
    for x, y in zip(a[1], b[1]):
        if x == y:
            continue
        if "~" in y and "=" in x:
            kx, vx = x.split("=", 1)
            ky, vy = y.split("~", 1)
            allowed = [t for t in vy.split("|") if t]
            if kx == ky and ((vx == "" and not allowed) or vx in allowed):
                continue
        return False
    return True


def _top_items(body: str) -> List[str]:
    """the top-level parenthesised items of a history"""
    out, depth, start = [], 0, 0
    for i, ch in enumerate(body):
        if ch == "(":
            if depth == 0:
                start = i
            depth += 1
        elif ch == ")":
            depth -= 1
            if depth == 0:
                out.append(body[start:i + 1])
    return out


def shrink(case: Case):
    """drop one assertion at a time (never the creation of an instance); empty one field of a constructor call"""
    m = re.search(r"\(ops (.*)\)\)$", case.line)
    if not m:
        return
    ops = _top_items(m.group(1))
    head = case.line[: m.start()]
    for i in range(len(ops)):
        if ops[i].startswith(("(ctor", "(new", "(kill")):
            continue
        rest = ops[:i] + ops[i + 1:]
        if rest:
            yield Case(f"{head}(ops {' '.join(rest)}))", case.tags, "shrink")
    for i, op in enumerate(ops):
        if not op.startswith("(ctor"):
            continue
        mm = re.match(r"\(ctor (\d+) (.*)\)$", op)
        fs = _top_items(mm.group(2))
        for j, fx in enumerate(fs):
            toks = fx[1:-1].split()
            if len(toks) > 1:
                fs2 = fs[:j] + [f"({toks[0]})"] + fs[j + 1:]
                op2 = f"(ctor {mm.group(1)} {' '.join(fs2)})"
                yield Case(f"{head}(ops {' '.join(ops[:i] + [op2] + ops[i + 1:])}))", case.tags, "shrink")


def revive(case: Case) -> Case:
    """stored lines (corpus, finding witnesses, replays) carry the numeric encoding of the declared semantics as it
    was when they were written; re-read it from the real classes so that only the history is replayed"""
    m = re.match(r"^\((h|w) \(schema (\w)\) .*? \(objs ", case.line)
    if not m:
        return case
    try:
        sexp = _desc(m.group(2))["sexp"]
    except Exception:
        return case
    return Case(f"({m.group(1)} {sexp} (objs " + case.line[m.end():], case.tags, case.origin, case.payload)


def run_impl(cases):
    from props import _pd
    return _pd.run_isolated("C15", [c.line for c in cases])
