"""C12 — predicates and symbolic functions agree between concrete and symbolic calls.

Implementation side: for every case a fresh callable is built with `exec` (a plain `@symbolic_function` function, a
`@symbolic_function` method of a fresh class, or a fresh `Predicate` dataclass) whose body records the parameter
values it receives and returns a value computed from them.  The call is written exactly as the case says
(positional / keyword split, variables / ordinary objects); if a condition comes back it is put into
`an(set_of(vars, and_(HasType(pre, T)…, [not_] call)))` and evaluated by the real engine.

Observation (what the property talks about, nothing else):
  concrete:  `C (<parameter values the body saw>) T|F`      (executed at call time, plain result returned)
  symbolic:  `S log=[sorted parameter tuples, one per invocation] rows=[sorted set of selected bindings]`
             (`S atctor=n …` if the body ran n times at construction), `S exc:<Class>` if evaluation raised.
Call order and result order are not part of the property: both sides are sorted.

A second, independent oracle (`inspect.Signature.bind` + `itertools.product` + the body as a Python lambda) is
compared with the Lean `spec=` of every case; a disagreement means the check itself is broken (exit 2)."""
from __future__ import annotations

import inspect
import itertools
from typing import Any, Dict, List, Optional, Tuple

import core
from core import Case

PID = "C12"
LEAN_MODULES = ["KrroodVerif.Props.C12"]
THEOREMS = [
    "KrroodVerif.Pred.C12_merge_eq_bind",
    "KrroodVerif.Pred.C12_merge_eq_bind_partial",
    "KrroodVerif.Pred.C12_dispatch",
    "KrroodVerif.Pred.C12_calls_once",
    "KrroodVerif.Pred.C12_calls_once_log",
    "KrroodVerif.Pred.C12_calls_once_quirks",
    "KrroodVerif.Pred.C12_calls_once_partial",
    "KrroodVerif.Pred.C12_calls_once_fixed_partial",
    "KrroodVerif.Pred.C12_knobs_history_irrelevant",
    "KrroodVerif.Pred.C12_truth_is_current_call",
    "KrroodVerif.Pred.C12_history",
    "KrroodVerif.Pred.C12_framed_history",
    "KrroodVerif.Pred.Obs.framed_spec",
    "KrroodVerif.Pred.C12_cex_positional",
    "KrroodVerif.Pred.C12_cex_shared",
    "KrroodVerif.Pred.C12_rejected",
    "KrroodVerif.Pred.C12_rejected_partial",
    "KrroodVerif.Pred.C12_cex_rejected",
    "KrroodVerif.Pred.isInstance_eq_isVar",
    "KrroodVerif.Pred.any_isInstance_eq_isSymbolic",
]
TRANSLATED = ["KrroodVerif.Pred.Translated.C12_merge_translated_eq_model",
              "KrroodVerif.Pred.Translated.C12_decision_translated_eq_model",
              "KrroodVerif.Pred.Translated.C12_dispatch_translated_eq_model",
              "KrroodVerif.Pred.Translated.C12_translated_merge_eq_bind",
              "KrroodVerif.Pred.Translated.C12_translated_meets_property"]


def extra_obligations():
    """Second tie: regenerate from /repo's CURRENT source (Python ast of predicate.py and symbolic.py) the merge, the
    symbolic/concrete decision (incl. the class statements it depends on) and the two dispatchers, and have the Lean
    kernel re-check that they ARE the model's `mergeArgs` / `isSymbolic` / `dispatch codeQuirks` for every signature and
    call split, and that the property theorems hold of the translated functions."""
    import os
    import re
    import subprocess
    from translate.c12_translate import generate as gen, TranslationError
    try:
        text = gen(core.REPO)
    except (TranslationError, SyntaxError, OSError, RecursionError) as e:
        return [{"name": n, "ok": False, "detail": f"translator rejected the source: {e}"} for n in TRANSLATED]
    tmp = core.LEAN_DIR / ".lake" / "audit"
    tmp.mkdir(parents=True, exist_ok=True)
    f = tmp / f"C12Translated_{os.getpid()}.lean"
    f.write_text(text + "".join(f"#print axioms {n}\n" for n in TRANSLATED))
    try:
        p = subprocess.run(["lake", "env", "lean", str(f)], cwd=str(core.LEAN_DIR), capture_output=True, text=True,
                           timeout=600)
    finally:
        try:
            f.unlink()
        except OSError:
            pass
    out = " ".join(((p.stdout or "") + (p.stderr or "")).split())
    res = []
    for n in TRANSLATED:
        m = re.search(r"'" + re.escape(n) + r"' depends on axioms: \[([^\]]*)\]", out)
        none = re.search(r"'" + re.escape(n) + r"' does not depend on any axioms", out)
        ax = [a.strip() for a in m.group(1).split(",")] if m else ([] if none else None)
        ok = ax is not None and set(ax) <= core.ALLOWED_AXIOMS and "sorryAx" not in (ax or [])
        res.append({"name": n, "ok": ok, "axioms": ax,
                    "detail": "regenerated definitions:\n" + text[text.find("def classTable"):text.find("/-- the merge of the current")]
                              + (p.stdout or "")[-1500:] + (p.stderr or "")[-800:]})
    return res


MODEL_FUNCTION = ("Pred.mergeArgs / Pred.dispatch / Pred.evalSym / Pred.run / Pred.runHistory with Drive.C12.codeQuirks "
                  "(Model/Predicate.lean); specification Pred.bind / Pred.spec")
TRUSTED = [
    "Lean 4.33 kernel; axioms of each theorem listed under coverage.theorems",
    "hand-written model Model/Predicate.lean of merge_args_and_kwargs, symbolic_function, Predicate.__new__, "
    "Variable._instantiate_using_child_vars_and_yield_results_, generate_combinations",
    "Pred.bind as the statement of CPython's binding of positional-or-keyword parameters (cross-checked on every "
    "case against inspect.Signature.bind by the harness)",
    "this correspondence harness (dynamically built callables recording their calls) and the S-expression driver",
]
ASSUMPTIONS = [
    "CPython binds f(*args, **kwargs) to positional-or-keyword parameters as inspect.Signature.bind does",
    "and_(HasType(v, T), c) evaluates c once per value of v with v bound; not_(c) complements c; set_of returns the "
    "bindings of the selected variables (C01/C02's subject, used here only as the frame around the call); "
    "or_ over operands with equal variable sets is an ElseIf that evaluates its right operand from the bindings of a false "
    "left result (frame `(frame A B)`; the harness checks that an ElseIf was built)",
    "only positional-or-keyword parameters (no *args/**kwargs/keyword-only/positional-only); arguments are query "
    "variables with explicit domains, attribute / method-call / index expressions over ONE such variable, or ordinary "
    "objects (no nested predicate calls, no expressions over two variables); a variable is only ever read as an "
    "argument of the call or of HasType, never as a comparator operand (a falsy bound value read by a comparator was "
    "finding F-C01-3, repaired by fix 78cb732; the restriction of the generator is kept)",
]
RULE = ("exhaustive small scope: every signature of arity 1..4 (quick) / 1..5 (thorough) with every trailing set of "
        "defaults, every set of supplied parameters Python accepts, every positional/keyword split, every "
        "variable/object pattern, for plain functions, methods and Predicate subclasses, with seeded domains, "
        "variable sharing, pre-bound variables, negation and keyword order; plus random cases of arity up to 5; plus a "
        "falsy-value stream (0, False, a falsy object, '', [] as domain values, literals and pre-bound arguments, "
        "positively and under not_, deterministic small family + random shapes); plus a stateful stream: every "
        "class-level knob of Predicate found by introspection (is_expensive, ...) drawn in every case, arguments "
        "written as x.att / x.get() / x.items[0] / x.box.inner / x.plus(1, by=99) that hand fresh temporaries to the "
        "callable, long domains after a binding conjunct, and histories: ONE query object evaluated, the candidate "
        "objects mutated, evaluated again (up to 3 evaluations), every evaluation compared with the concrete calls in "
        "its own world; plus a constants stream: >= 2 ordinary-object arguments per symbolic call drawn from a pool of "
        "==-equal values of different types (1 / 1.0 / True / Fraction(1) / 1+0j, 0 / 0.0 / False, two equal tuples, "
        "two equal frozensets), value-equal user objects and equal lists, every pair of variants of one number for "
        "every kind, the call log identifying each constant by identity; "
        "plus a signature stream: keyword-only parameters (def f(a, *, b, c=7), dataclass fields with kw_only=True) in every "
        "accepted call shape of arity 1..3, and every such call spoiled by one defect Python rejects (surplus positional, "
        "keyword-only passed positionally, parameter passed positionally and by keyword, unknown keyword, missing "
        "argument), where the property demands that TypeError at the call or from the evaluation; over EVERY stream two "
        "environment variations the model ignores: Predicate subclasses whose constructor DERIVES the state __call__ reads "
        "(__post_init__ of a dataclass / hand-written __init__ keeping nothing under the parameter names), and calls BUILT "
        "(and in half of the cases evaluated) while another query's lazily consumed evaluate() generator over a predicate "
        "/ symbolic function is suspended between two next() calls and finished afterwards; and one variation the model "
        "DOES read: the if/else query frame or_(and_(c, A), and_(not_(c), B)) writing the SAME condition object c = [not_] call "
        "twice (an ElseIf; A / B one shared guard object or its negation, every pattern), over every stream with p = 0.2 where a "
        "variable is written, none is shared and Python accepts the call, plus a deterministic family; "
        "non-trivial = the call is symbolic and the result set is neither empty nor every candidate binding, or the "
        "call is concrete with at least two parameters; distinct by case text")
EXHAUSTIVE = True

NAMES = ["a", "b", "c", "d", "e"]


# ------------------------------------------------------------------------------------------- case structure

class Spec:
    """Structured form of a case (payload)."""

    def __init__(self, kind, params, pos, kw, doms, pre, neg, salt, mod, vals, knobs=None, hist=None, kwonly=None):
        self.kind = kind  # fn | method | pred
        self.params = params  # [(name, default or None)]
        self.kwonly = set(kwonly or ())  # names of the keyword-only parameters (a suffix of params): `def f(a, *, b)`
        # shape of the Predicate subclass (kind pred only): "" = plain dataclass that holds its parameters; "post" = the
        # dataclass derives its state in __post_init__ and __call__ reads ONLY the derived state; "init" = hand-written
        # __init__ that stores only derived state (no attribute named like a parameter)
        self.ctor = ""
        # the call is BUILT while another query's evaluate() generator (over a predicate "pred" / a symbolic function
        # "fn") is suspended between two next() calls; susp_eval: it is also evaluated inside that window
        self.susp = ""
        self.susp_eval = False
        # the query frame around the condition c: "" = `and_(pre…, [not_] c)`; "TT"/"TF"/"FT"/"FF" = an if/else that
        # writes the SAME condition object twice: `or_(and_(c', A), and_(not_(c'), B))` with c' = [not_] c and A / B a
        # guard over the same variables that holds (T) or does not hold (F) for every candidate - the or_ is an ElseIf,
        # the second occurrence of c is met with the bindings of the first
        self.frame = ""
        self.pos = pos  # [("l", n) | ("l", n, t) | ("v", i) | ("a", i, k)]   ("a": variable i through accessor k, see
        # ACCESSORS; ("l", n, t): constant number n in variant t - an ==-equal but different object, see CONST_VARIANTS)
        self.knobs = dict(knobs or {})  # class-level knob name -> True if the non-default alternative is set
        self.hist = list(hist or [])  # [{oid: state}]: worlds in which the SAME query object is evaluated again
        self.kw = kw  # [(name, arg)]
        self.doms = doms  # {i: [values]}
        self.pre = pre  # [i]
        self.neg = neg
        self.salt = salt
        self.mod = mod
        self.vals = vals  # obj | int | intF | fobj | str | list  (how a number becomes a Python value)

    def line(self) -> str:
        def a(x):
            if x[0] == "a":
                return f"(a {x[2]} {x[1]})"
            if x[0] == "l" and len(x) > 2 and x[2]:
                return f"(l {x[1]} {x[2]})"
            return f"({x[0]} {x[1]})"
        ps = " ".join((f"({n}" if d is None else f"({n} {d}") + (" kw)" if n in self.kwonly else ")")
                      for n, d in self.params)
        pos = " ".join(a(x) for x in self.pos)
        kw = " ".join(f"({n} {a(x)})" for n, x in self.kw)
        doms = " ".join("(" + " ".join(map(str, [i] + list(vs))) + ")" for i, vs in sorted(self.doms.items()))
        pre = " ".join(map(str, self.pre))
        extra = ""
        if self.knobs:
            extra += " (knobs " + " ".join(f"({n} {'T' if v else 'F'})" for n, v in sorted(self.knobs.items())) + ")"
        if self.ctor:
            extra += f" (ctor {self.ctor})"
        if self.susp:
            extra += f" (susp {self.susp} {'T' if self.susp_eval else 'F'})"
        if self.frame:
            extra += f" (frame {self.frame[0]} {self.frame[1]})"
        if self.hist:
            extra += " (hist " + " ".join(
                "(" + " ".join(f"({o} {st})" for o, st in sorted(wd.items())) + ")" for wd in self.hist) + ")"
        return (f"(call {self.kind} (params {ps}) (pos {pos}) (kw {kw}) (doms {doms}) (pre {pre}) "
                f"(neg {'T' if self.neg else 'F'}) (body {self.salt} {self.mod}){extra} (vals {self.vals}))"
                ).replace("( ", "(").replace(" )", ")")

    def written(self):
        return list(self.pos) + [x for _, x in self.kw]

    def rejected_why(self) -> Optional[str]:
        """why Python itself rejects the call as written (None: accepted)"""
        names = [n for n, _ in self.params]
        npos = len([n for n in names if n not in self.kwonly])
        kwn = [n for n, _ in self.kw]
        if len(self.pos) > len(names):
            return "too-many-positional"
        if len(self.pos) > npos:
            return "kwonly-positional"
        if any(n in names[:len(self.pos)] for n in kwn):
            return "multiple-values"
        if any(n not in names for n in kwn):
            return "unexpected-keyword"
        given = set(names[:len(self.pos)]) | set(kwn)
        if any(d is None and n not in given for n, d in self.params):
            return "missing-argument"
        return None

    def var_order(self) -> List[int]:
        out = []
        for x in self.written():
            if x[0] in ("v", "a") and x[1] not in out:
                out.append(x[1])
        return out

    def tags(self) -> Tuple[str, ...]:
        w = self.written()
        nv = sum(1 for x in w if x[0] in ("v", "a"))
        vs = [x[1] for x in w if x[0] in ("v", "a")]
        t = [self.kind, f"arity{len(self.params)}", f"dflt{sum(1 for _, d in self.params if d is not None)}",
             f"pos{len(self.pos)}", f"kw{len(self.kw)}",
             "concrete" if nv == 0 else ("mixed" if nv < len(w) else "allvar")]
        if len(set(vs)) < len(vs):
            t.append("sharedvar")
        if self.pre:
            t.append("prebound")
        if self.neg:
            t.append("neg")
        if len(w) < len(self.params):
            t.append("default-used")
        if self.kwonly:
            t.append("kwonly")
            if any(d is not None and n in self.kwonly and n not in dict(self.kw) for n, d in self.params):
                t.append("kwonly-default-used")
        why = self.rejected_why()
        if why:
            t.append("rejected")
            t.append("rejected-" + why)
            if nv:
                t.append("rejected-with-variable")
        if self.vals in FALSY_FLAVOURS and self.vals != "int" or any(0 in d for d in self.doms.values()):
            t.append("vals-" + self.vals)
        zero_vars = {i for i, d in self.doms.items() if 0 in d}
        if zero_vars:
            t.append("falsy-domain")
        if zero_vars & set(self.pre):
            t.append("falsy-prebound")
        if any(a[0] == "l" and a[1] == 0 for a in w):
            t.append("falsy-literal")
        lits = [(a[1], a[2] if len(a) > 2 else 0) for a in w if a[0] == "l"]
        if len(lits) >= 2:
            t.append("constants>=2")
        if any(v for _, v in lits):
            t.append("const-variant")
        if any(n1 == n2 and v1 != v2 for j, (n1, v1) in enumerate(lits) for (n2, v2) in lits[j + 1:]):
            t.append("const-equal-but-different")
        for x in w:
            if x[0] == "a":
                t.append("accessor-" + ACCESSORS.get(x[2], ("?",))[0])
        if any(x[0] == "a" for x in w):
            t.append("accessor")
        if self.ctor:
            t.append("ctor-" + self.ctor)
        if self.susp:
            t.append("suspended-" + self.susp)
            t.append("suspended-eval-inside" if self.susp_eval else "suspended-build-only")
        if self.frame:
            t.append("frame-ifelse")
            t.append("frame-" + self.frame)
        if self.hist:
            t.append(f"history{len(self.hist)}")
        for n, v in sorted(self.knobs.items()):
            t.append(f"knob-{n}={'alt' if v else 'default'}")
        return tuple(t)


def _parse(line: str):
    toks = line.replace("(", " ( ").replace(")", " ) ").split()

    def rd(i):
        if toks[i] == "(":
            out = []
            i += 1
            while toks[i] != ")":
                x, i = rd(i)
                out.append(x)
            return out, i + 1
        return toks[i], i + 1

    return rd(0)[0]


def parse_line(line: str) -> Spec:
    s = _parse(line)
    assert s[0] == "call"
    kind = s[1]
    f = {x[0]: x[1:] for x in s[2:]}

    def arg(x):
        if x[0] == "a":
            return ("a", int(x[2]), int(x[1]))
        if x[0] == "l" and len(x) > 2 and int(x[2]):
            return ("l", int(x[1]), int(x[2]))
        return (x[0], int(x[1]))

    kwonly = {p[0] for p in f["params"] if p[-1] == "kw"}
    params = [(p[0], int(p[1]) if len(p) > 1 and p[1] != "kw" else None) for p in f["params"]]
    pos = [arg(x) for x in f["pos"]]
    kw = [(x[0], arg(x[1])) for x in f["kw"]]
    doms = {int(d[0]): [int(v) for v in d[1:]] for d in f["doms"]}
    pre = [int(x) for x in f["pre"]]
    knobs = {k[0]: k[1] == "T" for k in f.get("knobs", [])}
    hist = [{int(o): int(st) for o, st in wd} for wd in f.get("hist", [])]
    sp = Spec(kind, params, pos, kw, doms, pre, f["neg"][0] == "T", int(f["body"][0]), int(f["body"][1]),
              f.get("vals", ["obj"])[0], knobs, hist, kwonly)
    sp.ctor = f.get("ctor", [""])[0]
    if "susp" in f:
        sp.susp, sp.susp_eval = f["susp"][0], f["susp"][1] == "T"
    if "frame" in f:
        sp.frame = f["frame"][0] + f["frame"][1]
    return sp


def mk_case(sp: Spec, origin: str) -> Case:
    return Case(sp.line(), sp.tags(), origin, sp)


def revive(case: Case) -> Case:
    if case.payload is None:
        sp = parse_line(case.line)
        case.payload = sp
        if not case.tags or case.tags == ("corpus",) or case.tags == ("finding",):
            case.tags = tuple(case.tags) + sp.tags()
    return case


# ------------------------------------------------------------------------------------------- accessors, knobs

ACCESSORS = {
    # k: (name, how the expression is written on the query variable); the value passed is a FRESH temporary object
    # whose number is state + 100*k (Lean: Pred.view)
    1: ("attribute", lambda x: x.att),
    2: ("method-call", lambda x: x.get()),
    3: ("index", lambda x: x.items[0]),
    4: ("attribute-chain", lambda x: x.box.inner),
    5: ("method-call-args", lambda x: x.plus(1, by=99)),
}
CONST_VARIANTS = {
    # flavour -> variants t >= 1 of the constant with number n: values that compare == (and hash alike) to each other
    # or to the plain constant but are different objects / types.  Lean: Arg.lit (n + 1000*t), printed n~t.
    "int": [1, 2, 3, 4, 5, 6, 7, 8],  # float, bool/Fraction, Fraction, complex, two equal tuples, two equal frozensets
    "obj": [1, 2, 3],  # value-equal user objects (__eq__/__hash__ by number), distinct instances
    "fobj": [1, 2, 3],
    "list": [1, 2],  # equal lists, distinct objects (unhashable)
}
OBJECT_FLAVOURS = ("obj", "fobj")  # candidates are objects with identity, mutable state and accessors


def callable_knobs() -> Dict[str, Tuple[Any, Any]]:
    """Every class-level knob a Predicate subclass can set, found by introspection of the CURRENT krrood tree:
    ClassVar annotations and defaulted dataclass fields of Predicate and its bases -> (default, one alternative)."""
    import dataclasses
    import typing
    from krrood.entity_query_language.predicate import Predicate
    found: Dict[str, Any] = {}
    for klass in reversed(Predicate.__mro__):
        if klass is object:
            continue
        try:
            hints = typing.get_type_hints(klass)
        except Exception:  # noqa: BLE001
            hints = dict(getattr(klass, "__annotations__", {}))
        for name, h in hints.items():
            is_classvar = typing.get_origin(h) is typing.ClassVar or str(h).startswith(("ClassVar", "typing.ClassVar"))
            if is_classvar and name in klass.__dict__ and not name.startswith("__"):
                found[name] = klass.__dict__[name]
        if dataclasses.is_dataclass(klass):
            for f in dataclasses.fields(klass):
                if f.default is not dataclasses.MISSING:
                    found[f.name] = f.default
    out = {}
    for name, d in found.items():
        if isinstance(d, bool):
            out[name] = (d, not d)
        elif isinstance(d, int):
            out[name] = (d, d + 1)
        elif isinstance(d, float):
            out[name] = (d, d + 1.0)
        elif isinstance(d, str):
            out[name] = (d, d + "x")
        elif d is None:
            out[name] = (d, True)
    return out


_KNOBS_CACHE: Optional[Dict[str, Tuple[Any, Any]]] = None


def knobs_table() -> Dict[str, Tuple[Any, Any]]:
    global _KNOBS_CACHE
    if _KNOBS_CACHE is None:
        try:
            core.use_repo_sources()
            _KNOBS_CACHE = callable_knobs()
        except Exception:  # noqa: BLE001
            _KNOBS_CACHE = {}
    return _KNOBS_CACHE


# ------------------------------------------------------------------------------------------- generation

def budget(tier: str) -> int:
    return 1500 if tier == "quick" else 12000


def _signatures(max_arity: int):
    for n in range(1, max_arity + 1):
        for nd in range(0, n + 1):
            yield n, nd


def _call_shapes(n: int, nd: int):
    """every (supplied set, number of positionals) Python accepts for n parameters, the last nd with defaults"""
    req = n - nd
    for mask in range(1 << nd):
        supplied = list(range(req)) + [req + j for j in range(nd) if mask >> j & 1]
        # positionals must be a prefix 0..k-1 of the parameters, all supplied
        kmax = 0
        while kmax < n and kmax in supplied:
            kmax += 1
        for k in range(0, kmax + 1):
            yield supplied, k


def _fill(rng, kind, n, nd, supplied, k, pattern, *, share=None, pre=None, neg=None, max_dom=3,
          falsy=False, vals=None, p_acc=0.12, p_hist=0.1, dom_range=None, p_variant=0.15, p_equal=0.2) -> Spec:
    names = NAMES[:n]
    if rng.random() < 0.3:
        names = rng.sample(["a", "b", "c", "d", "obj", "other", "x_", "value", "name", "type_"], n)
    defaults = [None] * (n - nd) + [rng.randrange(5, 10) for _ in range(nd)]
    params = list(zip(names, defaults))
    nvars = sum(pattern)
    if share is None:
        share = rng.random() < 0.25
    ids: List[int] = []
    for _ in range(nvars):
        if share and ids and rng.random() < 0.5:
            ids.append(rng.choice(ids))
        else:
            ids.append(max(ids, default=-1) + 1)
    args = []
    it = iter(ids)
    for is_var in pattern:
        args.append(("v", next(it)) if is_var else ("l", rng.randrange(0 if falsy else 1, 5)))
    pos = args[:k]
    kw = [(names[supplied[j]], args[j]) for j in range(k, len(supplied))]
    rng.shuffle(kw)
    distinct = sorted(set(ids))
    budget_ = 30
    doms = {}
    for i in distinct:
        size = rng.randrange(1, max_dom + 1)
        doms[i] = rng.sample(range(1, 6), size)
        if falsy and rng.random() < 0.8:
            # number 0 = the falsy value of the flavour, at a random place of the domain
            doms[i][rng.randrange(size)] = 0
    while _ncombos(doms, ids) > budget_:
        j = max(doms, key=lambda i: len(doms[i]))
        doms[j] = doms[j][:-1]
    if pre is None:
        pre = [i for i in distinct if rng.random() < (0.7 if falsy else 0.2)]
        rng.shuffle(pre)
    if neg is None:
        neg = rng.random() < 0.25
    mod = rng.choice([2, 2, 3])
    if vals is None:
        vals = rng.choice(FALSY_FLAVOURS) if falsy else rng.choice(["obj", "obj", "int"])
    if dom_range is not None and distinct:
        # one long domain (temporaries are reused by CPython only after many candidates)
        lo, hi = dom_range
        doms[distinct[0]] = rng.sample(range(1, 40), rng.randrange(lo, hi + 1))
        for i in distinct[1:]:
            doms[i] = doms[i][:1]
    knobs = {name: rng.random() < 0.5 for name in knobs_table()}
    if vals in CONST_VARIANTS:
        # constants: ==-equal values of different types / equal-but-distinct objects, also for several parameters
        lit_slots = [("p", j) for j, x in enumerate(pos) if x[0] == "l"] + \
                    [("k", j) for j, (_, x) in enumerate(kw) if x[0] == "l"]
        same = len(lit_slots) >= 2 and rng.random() < p_equal
        number = None
        for where, j in lit_slots:
            x = pos[j] if where == "p" else kw[j][1]
            n_ = x[1]
            if same:
                number = n_ if number is None else number
                n_ = number
            t_ = rng.choice(CONST_VARIANTS[vals]) if rng.random() < (0.7 if same else p_variant) else 0
            x = ("l", n_, t_) if t_ else ("l", n_)
            if where == "p":
                pos[j] = x
            else:
                kw[j] = (kw[j][0], x)
    hist = []
    if vals in OBJECT_FLAVOURS and distinct:
        def acc(x):
            return ("a", x[1], rng.randrange(1, len(ACCESSORS) + 1)) if x[0] == "v" and rng.random() < p_acc else x
        pos = [acc(x) for x in pos]
        kw = [(nm, acc(x)) for nm, x in kw]
        if rng.random() < p_hist:
            oids = sorted({o for i in distinct for o in doms[i]})
            for _ in range(rng.choice([1, 1, 2])):
                chosen = [o for o in oids if rng.random() < 0.7] or oids[:1]
                hist.append({o: rng.randrange(0 if falsy else 1, 7) for o in chosen})
    return Spec(kind, params, pos, kw, doms, pre, neg, rng.randrange(0, mod), mod, vals, knobs, hist)


def _ncombos(doms, ids) -> int:
    n = 1
    for i in ids:
        n *= len(doms[i])
    return n


def generate(rng, tier, n):
    cases: List[Case] = []
    # (max arity, replications with fresh fills) of the exhaustive families
    plan = [(4, 1)] if tier == "quick" else [(4, 4), (5, 1)]
    done = 0
    for max_arity, reps in plan:
        for rep in range(reps):
            for kind in ("fn", "method", "pred"):
                for (ar, nd) in _signatures(max_arity):
                    if ar <= done:
                        continue
                    for supplied, k in _call_shapes(ar, nd):
                        m = len(supplied)
                        for bits in range(1 << m):
                            pattern = [bool(bits >> j & 1) for j in range(m)]
                            cases.append(mk_case(_fill(rng, kind, ar, nd, supplied, k, pattern), "exhaustive"))
        done = max_arity
    # random: more sharing / pre-binding / negation, arity up to 5
    for _ in range(n):
        kind = rng.choice(["fn", "method", "pred", "pred"])
        ar = rng.randrange(1, 6)
        nd = rng.randrange(0, ar + 1)
        supplied, k = rng.choice(list(_call_shapes(ar, nd)))
        pattern = [rng.random() < 0.6 for _ in supplied]
        cases.append(mk_case(_fill(rng, kind, ar, nd, supplied, k, pattern, share=rng.random() < 0.5), "random"))
    cases.extend(_falsy_cases(rng, tier))
    cases.extend(_stateful_cases(rng, tier))
    cases.extend(_constant_cases(rng, tier))
    cases.extend(_signature_cases(rng, tier))
    return _environment_variants(rng, cases)


def _environment_variants(rng, cases: List[Case]) -> List[Case]:
    """Two variations the property is indifferent to, drawn over EVERY stream (the Lean model ignores both fields):
    (a) the shape of the Predicate subclass: its constructor derives the state `__call__` reads from the parameters
        (`__post_init__` of a dataclass, or a hand-written normalising `__init__`) - the concrete call constructs the
        predicate from the values, so every invocation for a candidate must see the state derived from THAT candidate;
    (b) the moment of construction: the call is built (and in half of the cases evaluated) while another query's lazily
        consumed `evaluate()` generator - over a predicate or a symbolic function - is suspended between two `next()`
        calls, and that query is finished afterwards.
    Plus a small deterministic family of both."""
    out: List[Case] = []
    for c in cases:
        sp: Spec = c.payload
        changed = False
        if sp.kind == "pred" and rng.random() < 0.35:
            sp.ctor = rng.choice(["post", "init"])
            changed = True
        if rng.random() < 0.12:
            sp.susp = rng.choice(["pred", "fn"])
            sp.susp_eval = rng.random() < 0.5
            changed = True
        if (rng.random() < 0.2 and sp.var_order() and "sharedvar" not in c.tags and "rejected" not in c.tags
                and not sp.frame):
            sp.frame = rng.choice(["TT", "TT", "TF", "FT", "FF"])
            changed = True
        out.append(mk_case(sp, c.origin) if changed else c)
    for ctor in ("post", "init"):
        for neg in (False, True):
            for pre in ([], [0]):
                for shape in range(4):
                    sp = Spec("pred", [("a", None), ("b", 8)], [], [], {0: [1, 2, 3, 4]}, list(pre), neg, 0, 2,
                              rng.choice(["obj", "int"]), {name: rng.random() < 0.5 for name in knobs_table()})
                    if shape == 0:
                        sp.pos = [("v", 0)]
                    elif shape == 1:
                        sp.kw = [("a", ("v", 0))]
                    elif shape == 2:
                        sp.pos, sp.kw = [("l", 2)], [("b", ("v", 0))]
                    else:
                        sp.params, sp.kwonly = [("a", None), ("b", None)], {"b"}
                        sp.pos, sp.kw = [("v", 0)], [("b", ("l", 3))]
                    sp.ctor = ctor
                    out.append(mk_case(sp, "exhaustive"))
    # the if/else frame: the same condition object in both branches, every guard pattern, plain and negated, with and
    # without a binding conjunct in front, one and two variables, every kind of callable
    for kind in ("fn", "method", "pred"):
        for frame in ("TT", "TF", "FT", "FF"):
            for neg in (False, True):
                for pre in ([], [0]):
                    for shape in range(3):
                        sp = Spec(kind, [("a", None), ("b", 8)], [], [], {0: [1, 2, 3, 4], 1: [1, 2]}, list(pre), neg,
                                  rng.randrange(0, 3), 2, rng.choice(["obj", "int"]),
                                  {name: rng.random() < 0.5 for name in knobs_table()})
                        if shape == 0:
                            sp.pos = [("v", 0)]
                        elif shape == 1:
                            sp.pos, sp.kw = [("v", 0)], [("b", ("v", 1))]
                        else:
                            sp.pos, sp.kw = [("l", 2)], [("b", ("v", 0))]
                        sp.frame = frame
                        out.append(mk_case(sp, "exhaustive"))
    for kind in ("fn", "method", "pred"):
        for susp in ("pred", "fn"):
            for inside in (False, True):
                for pre in ([], [0]):
                    for shape in range(2):
                        sp = Spec(kind, [("a", None), ("b", 8)], [], [], {0: [1, 2, 3]}, list(pre), False, 0, 2,
                                  rng.choice(["obj", "int"]), {name: rng.random() < 0.5 for name in knobs_table()})
                        if shape == 0:
                            sp.pos = [("v", 0)]
                        else:
                            sp.pos, sp.kw = [("l", 2)], [("b", ("v", 0))]
                        sp.susp, sp.susp_eval = susp, inside
                        out.append(mk_case(sp, "exhaustive"))
    return out


def _signature_cases(rng, tier) -> List[Case]:
    """Wider signatures and calls Python itself rejects.
    (a) keyword-only parameters (`def f(a, *, b, c=7)`, dataclass fields with `kw_only=True`), with and without
        defaults, passed or left to their default: every accepted call shape of arity 1..3 (quick) / 1..4 (thorough)
        for the three kinds, plus random ones;
    (b) calls Python rejects, derived from an accepted call by ONE defect: a surplus positional argument, a
        keyword-only parameter passed positionally, a parameter passed positionally and by keyword, an unknown
        keyword, a required argument left out - with every variable/object pattern of the written arguments. The
        property then demands the TypeError of the concrete call, at the call or from the evaluation."""
    out: List[Case] = []

    def mk(kind, npos, ndp, kwo, supplied_opt, k, pattern_bits, defect=None, share=False):
        # npos positional-or-keyword parameters, the last ndp with defaults; kwo = [has_default] per keyword-only one
        n = npos + len(kwo)
        names = NAMES[:n] if rng.random() < 0.7 else rng.sample(
            ["a", "b", "c", "d", "obj", "other", "x_", "value", "name", "type_"], n)
        dfl = [None] * (npos - ndp) + [rng.randrange(5, 10) for _ in range(ndp)] + \
              [rng.randrange(5, 10) if has else None for has in kwo]
        params = list(zip(names, dfl))
        kwonly = set(names[npos:])
        supplied = [j for j in range(n) if dfl[j] is None or j in supplied_opt]
        k = min(k, npos)
        while k > 0 and any(j not in supplied for j in range(k)):
            k -= 1
        written = [("p", j) for j in supplied if j < k] + [("k", j) for j in supplied if j >= k]
        extra_kw = None
        if defect == "too-many-positional":
            if k != npos or any(j < npos and j not in supplied for j in range(npos)):
                return None
            # every positional slot is taken: one more positional (it lands on a keyword-only name or beyond)
            written = [w for w in written if w[0] == "p"] + [("p", "surplus")] + [w for w in written if w[0] == "k"]
        elif defect == "kwonly-positional":
            firstk = [j for j in supplied if j >= npos]
            if k != npos or not firstk or firstk[0] != npos:
                return None
            written = [("p", j) if j == npos else w for w, j in [(w, w[1]) for w in written]]
            written.sort(key=lambda w: (w[0] != "p", w[1] if isinstance(w[1], int) else 99))
        elif defect == "multiple-values":
            if k == 0:
                return None
            written = written + [("k", rng.randrange(0, k))]
        elif defect == "unexpected-keyword":
            extra_kw = "zz"
            written = written + [("k", "zz")]
        elif defect == "missing-argument":
            req = [w for w in written if isinstance(w[1], int) and dfl[w[1]] is None and w[0] == "k"]
            if not req:
                return None
            written.remove(rng.choice(req))
        m = len(written)
        pattern = [bool(pattern_bits >> j & 1) for j in range(m)]
        ids: List[int] = []
        for is_var in pattern:
            if is_var:
                ids.append(rng.choice(ids) if share and ids and rng.random() < 0.5 else max(ids, default=-1) + 1)
        it = iter(ids)
        args = [("v", next(it)) if is_var else ("l", rng.randrange(1, 5)) for is_var in pattern]
        pos = [a for (w, _), a in zip(written, args) if w == "p"]
        kw = [(names[j] if isinstance(j, int) else extra_kw, a) for (w, j), a in zip(written, args) if w == "k"]
        if len({nm for nm, _ in kw}) < len(kw):
            return None
        rng.shuffle(kw)
        doms = {i: rng.sample(range(1, 6), rng.randrange(1, 4)) for i in sorted(set(ids))}
        while _ncombos(doms, ids) > 30:
            j = max(doms, key=lambda i: len(doms[i]))
            doms[j] = doms[j][:-1]
        pre = [i for i in sorted(set(ids)) if rng.random() < 0.2]
        mod = rng.choice([2, 2, 3])
        knobs = {name: rng.random() < 0.5 for name in knobs_table()}
        return Spec(kind, params, pos, kw, doms, pre, rng.random() < 0.2, rng.randrange(0, mod), mod,
                    rng.choice(["obj", "int"]), knobs, [], kwonly)

    def shapes(max_arity):
        for n in range(1, max_arity + 1):
            for nk in range(0, n + 1):
                npos = n - nk
                for ndp in range(0, npos + 1):
                    for kmask in range(1 << nk):
                        yield npos, ndp, [bool(kmask >> j & 1) for j in range(nk)]

    max_arity = 3 if tier == "quick" else 4
    DEFECTS = ["too-many-positional", "kwonly-positional", "multiple-values", "unexpected-keyword", "missing-argument"]
    for kind in ("fn", "method", "pred"):
        for npos, ndp, kwo in shapes(max_arity):
            n = npos + len(kwo)
            opt = [j for j in range(n) if (npos - ndp <= j < npos) or (j >= npos and kwo[j - npos])]
            for omask in range(1 << len(opt)):
                supplied_opt = {opt[j] for j in range(len(opt)) if omask >> j & 1}
                for k in range(0, npos + 1):
                    # (a) accepted calls with keyword-only parameters: every variable/object pattern
                    if kwo:
                        sp0 = mk(kind, npos, ndp, kwo, supplied_opt, k, 0)
                        m = len(sp0.written()) if sp0 else 0
                        for bits in (range(1 << m) if m <= 3 else [rng.randrange(1 << m) for _ in range(4)]):
                            sp = mk(kind, npos, ndp, kwo, supplied_opt, k, bits, share=rng.random() < 0.2)
                            if sp is not None:
                                out.append(mk_case(sp, "exhaustive"))
                    # (b) one defect; patterns: all variables, one variable, a random one, none
                    for defect in DEFECTS:
                        sp0 = mk(kind, npos, ndp, kwo, supplied_opt, k, 0, defect)
                        if sp0 is None:
                            continue
                        m = len(sp0.written())
                        pats = {(1 << m) - 1, 1 << rng.randrange(m) if m else 0, rng.randrange(1 << m) if m else 0}
                        if rng.random() < 0.15:
                            pats.add(0)
                        for bits in sorted(pats):
                            sp = mk(kind, npos, ndp, kwo, supplied_opt, k, bits, defect, share=rng.random() < 0.2)
                            if sp is not None:
                                out.append(mk_case(sp, "exhaustive"))
    for _ in range(400 if tier == "quick" else 4000):
        kind = rng.choice(["fn", "method", "pred", "pred"])
        n = rng.randrange(1, 6)
        nk = rng.randrange(0, n + 1)
        npos = n - nk
        ndp = rng.randrange(0, npos + 1)
        kwo = [rng.random() < 0.5 for _ in range(nk)]
        supplied_opt = {j for j in range(n) if rng.random() < 0.5}
        defect = rng.choice(DEFECTS + [None, None]) if nk else rng.choice(DEFECTS)
        sp = mk(kind, npos, ndp, kwo, supplied_opt, rng.randrange(0, npos + 1), rng.randrange(1 << 6), defect,
                share=rng.random() < 0.3)
        if sp is not None:
            out.append(mk_case(sp, "random"))
    return out


def _constant_cases(rng, tier) -> List[Case]:
    """Every parameter receives exactly the constant written for it: symbolic calls with >= 2 ordinary-object arguments
    drawn from a pool of ==-equal values of different types (1 / 1.0 / True / Fraction(1) / 1+0j, 0 / 0.0 / False, two
    equal tuples, two equal frozensets), value-equal user objects and equal lists - the call log tells them apart by
    identity."""
    out: List[Case] = []
    # deterministic: f(x, c1, c2) / f(c1, x, c2=...) for every pair of variants of one number
    for kind in ("fn", "method", "pred"):
        for fl, variants in CONST_VARIANTS.items():
            vs = [0] + variants
            for t1 in vs:
                for t2 in vs:
                    if t1 == t2 and fl != "list":
                        continue
                    n_ = rng.choice([0, 1, 1, 2]) if fl != "obj" else rng.choice([1, 2])
                    k = rng.randrange(0, 4)
                    sp = _fill(rng, kind, 3, rng.randrange(0, 2), [0, 1, 2], k, [True, False, False], share=False,
                               vals=fl, p_acc=0.0, p_hist=0.0, p_variant=0.0, p_equal=0.0,
                               falsy=(fl != "obj" and n_ == 0))
                    c1 = ("l", n_, t1) if t1 else ("l", n_)
                    c2 = ("l", n_, t2) if t2 else ("l", n_)
                    names = [nm for nm, _ in sp.params]
                    args = {names[0]: ("v", 0), names[1]: c1, names[2]: c2}
                    if rng.random() < 0.5:
                        args[names[0]], args[names[1]] = args[names[1]], args[names[0]]
                    sp.pos = [args[nm] for nm in names[:k]]
                    kwn = names[k:]
                    rng.shuffle(kwn)
                    sp.kw = [(nm, args[nm]) for nm in kwn]
                    out.append(mk_case(sp, "exhaustive"))
    for _ in range(500 if tier == "quick" else 4000):
        kind = rng.choice(["fn", "method", "pred", "pred"])
        ar = rng.randrange(3, 6)
        nd = rng.randrange(0, ar + 1)
        shapes = [sh for sh in _call_shapes(ar, nd) if len(sh[0]) >= 3]
        supplied, k = rng.choice(shapes)
        m = len(supplied)
        nvar = rng.randint(0 if rng.random() < 0.1 else 1, m - 2)  # at least two constants
        pattern = [True] * nvar + [False] * (m - nvar)
        rng.shuffle(pattern)
        fl = rng.choice(["int", "int", "obj", "fobj", "list"])
        out.append(mk_case(_fill(rng, kind, ar, nd, supplied, k, pattern, share=rng.random() < 0.2,
                                 neg=rng.random() < 0.4, vals=fl, falsy=fl != "obj" and rng.random() < 0.4,
                                 p_variant=0.6, p_equal=0.75), "random"))
    return out


def _stateful_cases(rng, tier) -> List[Case]:
    """The truth value contributed is the concrete call on the CURRENT argument values, whatever knobs the callable
    sets and whatever happened before: (a) one query object evaluated, candidates mutated, evaluated again (and again);
    (b) arguments that are attribute / method-call / index expressions over the candidate, which hand FRESH temporaries
    to the callable (CPython reuses their ids), with long domains and the call after a binding conjunct; every knob
    setting found by introspection of Predicate."""
    out: List[Case] = []
    table = knobs_table()
    settings: List[Dict[str, bool]] = [dict.fromkeys(table, False)]
    for name in table:
        settings.append({n: n == name for n in table})
    if len(table) > 1:
        settings.append(dict.fromkeys(table, True))
    # (a) deterministic: kind x knob setting x negation x bound-before x accessor, two and three evaluations
    for kind in ("fn", "method", "pred"):
        for knobs in settings:
            for neg in (False, True):
                for pre in ([0], []):
                    for k in range(0, len(ACCESSORS) + 1):
                        fl = rng.choice(OBJECT_FLAVOURS)
                        sp = _fill(rng, kind, 1, 0, [0], rng.randrange(0, 2), [True], share=False, pre=list(pre),
                                   neg=neg, vals=fl, p_acc=0.0, p_hist=0.0)
                        sp.doms = {0: [1, 2, 3]}
                        if k:
                            if sp.pos:
                                sp.pos = [("a", 0, k)]
                            else:
                                sp.kw = [(sp.kw[0][0], ("a", 0, k))]
                        sp.knobs = dict(knobs)
                        sp.hist = [{1: 2, 2: 3, 3: 4}] + ([{1: 1, 2: 1}] if rng.random() < 0.5 else [])
                        out.append(mk_case(sp, "exhaustive"))
    n_rand = 500 if tier == "quick" else 4000
    for j in range(n_rand):
        kind = rng.choice(["fn", "method", "pred", "pred"])
        ar = rng.randrange(1, 4)
        nd = rng.randrange(0, ar + 1)
        supplied, k = rng.choice([sh for sh in _call_shapes(ar, nd) if sh[0]])
        pattern = [rng.random() < 0.7 for _ in supplied]
        if not any(pattern):
            pattern[0] = True
        if j % 2 == 0:
            # (a') random shapes with histories
            sp = _fill(rng, kind, ar, nd, supplied, k, pattern, share=rng.random() < 0.3, neg=rng.random() < 0.4,
                       vals=rng.choice(OBJECT_FLAVOURS), falsy=rng.random() < 0.3, p_acc=0.4, p_hist=1.0)
            if sp.vals == "obj":
                sp.doms = {i: [o or 6 for o in d] for i, d in sp.doms.items()}
        else:
            # (b) temporaries: long domain, accessor arguments, call after a binding conjunct
            sp = _fill(rng, kind, ar, nd, supplied, k, pattern, share=False, neg=rng.random() < 0.3,
                       vals=rng.choice(OBJECT_FLAVOURS), p_acc=0.9, p_hist=0.2, dom_range=(8, 20))
            first = sp.var_order()[0]
            if rng.random() < 0.85 and first not in sp.pre:
                sp.pre = [first] + sp.pre
        out.append(mk_case(sp, "random"))
    return out


def _falsy_cases(rng, tier) -> List[Case]:
    """Arguments whose candidate values include FALSY ordinary objects (0, False, a falsy object, "", []): the
    callable must be invoked for them like for any other value, in particular when the variable was already bound by
    a conjunct to the left (a bound variable reports `is_false = not bool(value)`, which argument evaluation must
    ignore), positively and under `not_`."""
    out: List[Case] = []
    # (a) small deterministic family: every kind x flavour x negation x bound-before / not, arity 1 and 2
    for kind in ("fn", "method", "pred"):
        for fl in FALSY_FLAVOURS:
            for neg in (False, True):
                for pre in ([0], []):
                    for k in (0, 1):
                        sp = _fill(rng, kind, 1, 0, [0], k, [True], share=False, pre=list(pre), neg=neg, falsy=True,
                                   vals=fl)
                        sp.doms = {0: [0, 1, 2]}
                        out.append(mk_case(sp, "exhaustive"))
                    # two parameters: the falsy variable next to a literal, to another variable, twice, to a default
                    for pattern, nd, share in (([True, False], 0, False), ([True, True], 0, False),
                                               ([True, True], 0, True), ([True], 1, False)):
                        supplied = list(range(len(pattern)))
                        sp = _fill(rng, kind, 2, nd, supplied, rng.randrange(0, len(pattern) + 1), pattern, share=share,
                                   pre=None if pre else [], neg=neg, falsy=True, vals=fl)
                        if pre and not sp.pre:
                            sp.pre = [0]
                        if 0 not in sp.doms[0]:
                            sp.doms[0][0] = 0
                        out.append(mk_case(sp, "exhaustive"))
    # (b) random shapes
    for _ in range(600 if tier == "quick" else 5000):
        kind = rng.choice(["fn", "method", "pred", "pred"])
        ar = rng.randrange(1, 5)
        nd = rng.randrange(0, ar + 1)
        supplied, k = rng.choice(list(_call_shapes(ar, nd)))
        pattern = [rng.random() < 0.7 for _ in supplied]
        out.append(mk_case(_fill(rng, kind, ar, nd, supplied, k, pattern, share=rng.random() < 0.3,
                                 neg=rng.random() < 0.5, falsy=True), "random"))
    return out


def compare(impl: str, expected: str) -> bool:
    """`invalid` (specification only): Python itself rejects the call as written - the property demands that
    TypeError, at the call or from every evaluation of the condition; everything else is compared literally"""
    if expected == "invalid":
        return impl == "exc:TypeError" or (impl.startswith("S ") and all(
            part in ("S exc:TypeError", "exc:TypeError") for part in impl.split(" ;; ")))
    return impl == expected


def nontrivial(case: Case, spec: str) -> bool:
    if spec.startswith("C "):
        return spec.count(",") >= 1
    spec = spec.split(" ;; ")[-1]  # the last evaluation of the query object
    if spec.startswith("S log=["):
        log, rows = spec[len("S log=["):].split("] rows=[")
        nl = log.count("(")
        nr = rows.count("(")
        return 0 < nr < nl
    return False


def shrink(case: Case):
    sp: Spec = revive(case).payload
    import copy

    def variant(f):
        c = copy.deepcopy(sp)
        try:
            if f(c) is False:
                return None
        except Exception:
            return None
        return mk_case(c, "shrink")

    out = []

    def add(f):
        v = variant(f)
        if v is not None and v.line != case.line:
            out.append(v)

    add(lambda c: setattr(c, "neg", False))
    if sp.ctor:
        add(lambda c: setattr(c, "ctor", ""))
    if sp.frame:
        add(lambda c: setattr(c, "frame", ""))
        add(lambda c: setattr(c, "frame", "TT"))
    if sp.susp:
        add(lambda c: setattr(c, "susp", ""))
        add(lambda c: setattr(c, "susp_eval", False))
    add(lambda c: setattr(c, "pre", []))
    add(lambda c: setattr(c, "hist", []))
    if len(sp.hist) > 1:
        add(lambda c: setattr(c, "hist", c.hist[:-1]))
        add(lambda c: setattr(c, "hist", c.hist[1:]))
    for name in sorted(sp.knobs):
        if sp.knobs[name]:
            add(lambda c, name=name: c.knobs.__setitem__(name, False))
    if sp.knobs:
        add(lambda c: setattr(c, "knobs", {}))
    for j, x in enumerate(sp.pos):
        if x[0] == "l" and len(x) > 2:
            add(lambda c, j=j: c.pos.__setitem__(j, ("l", c.pos[j][1])))
    for j, (nm, x) in enumerate(sp.kw):
        if x[0] == "l" and len(x) > 2:
            add(lambda c, j=j: c.kw.__setitem__(j, (c.kw[j][0], ("l", c.kw[j][1][1]))))
    for j, x in enumerate(sp.pos):
        if x[0] == "a":
            add(lambda c, j=j: c.pos.__setitem__(j, ("v", c.pos[j][1])))
    for j, (nm, x) in enumerate(sp.kw):
        if x[0] == "a":
            add(lambda c, j=j: c.kw.__setitem__(j, (c.kw[j][0], ("v", c.kw[j][1][1]))))
    for h in range(len(sp.hist)):
        for o in sorted(sp.hist[h]):
            if len(sp.hist[h]) > 1:
                add(lambda c, h=h, o=o: c.hist[h].pop(o))
    if not sp.hist and not any(x[0] == "a" or len(x) > 2 for x in sp.written()):
        add(lambda c: setattr(c, "vals", "obj"))
    add(lambda c: (setattr(c, "salt", 0), setattr(c, "mod", 2)))
    # drop the last parameter if it is not supplied, or supplied by keyword / last positional
    def drop_last(c):
        if len(c.params) <= 1:
            return False
        name = c.params[-1][0]
        if len(c.pos) == len(c.params):
            c.pos.pop()
        c.kw = [(n, a) for n, a in c.kw if n != name]
        c.params.pop()
        c.kwonly.discard(name)
        used = {x[1] for x in c.written() if x[0] in ("v", "a")}
        c.doms = {i: d for i, d in c.doms.items() if i in used}
        c.pre = [i for i in c.pre if i in used]
    add(drop_last)
    # drop an optional keyword argument
    for j in range(len(sp.kw)):
        def drop_kw(c, j=j):
            name = c.kw[j][0]
            if dict(c.params)[name] is None:
                return False
            del c.kw[j]
            used = {x[1] for x in c.written() if x[0] in ("v", "a")}
            c.doms = {i: d for i, d in c.doms.items() if i in used}
            c.pre = [i for i in c.pre if i in used]
        add(drop_kw)
    # variable -> literal
    for j in range(len(sp.pos)):
        def lit_pos(c, j=j):
            if c.pos[j][0] not in ("v", "a"):
                return False
            c.pos[j] = ("l", 1)
            used = {x[1] for x in c.written() if x[0] in ("v", "a")}
            c.doms = {i: d for i, d in c.doms.items() if i in used}
            c.pre = [i for i in c.pre if i in used]
        add(lit_pos)
    for j in range(len(sp.kw)):
        def lit_kw(c, j=j):
            if c.kw[j][1][0] not in ("v", "a"):
                return False
            c.kw[j] = (c.kw[j][0], ("l", 1))
            used = {x[1] for x in c.written() if x[0] in ("v", "a")}
            c.doms = {i: d for i, d in c.doms.items() if i in used}
            c.pre = [i for i in c.pre if i in used]
        add(lit_kw)
    # smaller domains
    for i in sorted(sp.doms):
        if len(sp.doms[i]) > 1:
            add(lambda c, i=i: c.doms.__setitem__(i, c.doms[i][:-1]))
            add(lambda c, i=i: c.doms.__setitem__(i, c.doms[i][1:]))
    # keyword -> positional for the next parameter
    def kw_to_pos(c):
        k = len(c.pos)
        if k >= len(c.params):
            return False
        name = c.params[k][0]
        d = dict(c.kw)
        if name not in d:
            return False
        c.pos.append(d[name])
        c.kw = [(n, a) for n, a in c.kw if n != name]
    add(kw_to_pos)
    return out


# ------------------------------------------------------------------------------------------- real code

class _V:
    """an ordinary, truthy object carrying its number"""
    __slots__ = ("code",)

    def __init__(self, code):
        self.code = code

    def __repr__(self):
        return f"V{self.code}"


class _F(_V):
    """an ordinary object that is falsy when its number is 0 (like an empty container)"""
    __slots__ = ()

    def __bool__(self):
        return self.code != 0


class _E(_V):
    """a value-equal user object: == and hash by number, distinct instances"""
    __slots__ = ("variant",)

    def __init__(self, code, variant):
        self.code = code
        self.variant = variant

    def __eq__(self, other):
        return isinstance(other, _E) and other.code == self.code

    def __hash__(self):
        return hash(("E", self.code))

    def __repr__(self):
        return f"E{self.code}~{self.variant}"


class _EF(_E):
    __slots__ = ()

    def __bool__(self):
        return self.code != 0


class _Holder:
    __slots__ = ("inner",)

    def __init__(self, inner):
        self.inner = inner


def _candidate_class(base):
    """Candidate objects of the object flavours: a fixed identity `oid`, a mutable state `code` (what the body and the
    accessors read) and accessors that hand out FRESH temporaries numbered state + 100*k."""

    class _Cand(base):
        __slots__ = ("oid",)

        def __init__(self, oid):
            base.__init__(self, oid)
            self.oid = oid

        @property
        def att(self):
            return base(self.code + 100)

        def get(self):
            return base(self.code + 200)

        @property
        def items(self):
            return [base(self.code + 300)]

        @property
        def box(self):
            return _Holder(base(self.code + 400))

        def plus(self, n, by=0):
            return base(self.code + 500 + (n - 1) + (by - 99))

        def __repr__(self):
            return f"Cand{self.oid}:{self.code}"

    return _Cand


_CAND = {"obj": _candidate_class(_V), "fobj": _candidate_class(_F)}

FALSY_FLAVOURS = ["int", "intF", "fobj", "str", "list"]
"""value flavours in which number 0 is a falsy Python value: 0, False, a falsy object, "", []"""


class _World:
    """per-case values, log and the dynamically built callable"""

    def __init__(self, sp: Spec):
        from krrood.entity_query_language.symbolic import SymbolicExpression
        self.sp = sp
        self.SE = SymbolicExpression
        self.log: List[Tuple[str, ...]] = []  # rendered AT CALL TIME (candidates are mutated later)
        self.returned: List[Any] = []
        self.pool: Dict[int, Any] = {}
        self.cands: Dict[int, Any] = {}
        self.consts: Dict[Tuple[int, int], Any] = {}
        self.reg: Dict[int, Tuple[Any, int, int]] = {}  # id(constant) -> (constant, number, variant)
        self.var_of: Dict[int, int] = {}  # id(variable object) -> variable number
        self.T = {"obj": _CAND["obj"], "int": int, "intF": int, "fobj": _CAND["fobj"], "str": str,
                  "list": list}[sp.vals]

    def const(self, n: int, t: int):
        """the written constant number n in variant t (t = 0: the plain value): one object per (n, t) and case;
        constants with equal n compare == but are different objects / of different types"""
        if not t:
            return self.val(n)
        if (n, t) not in self.consts:
            fl = self.sp.vals
            if fl == "int":
                import fractions
                v: Any = {1: lambda: float(n), 2: lambda: bool(n) if n in (0, 1) else fractions.Fraction(n),
                          3: lambda: fractions.Fraction(n), 4: lambda: complex(n), 5: lambda: tuple([n]),
                          6: lambda: tuple([n]), 7: lambda: frozenset([n]), 8: lambda: frozenset([n])}[t]()
            elif fl == "obj":
                v = _E(n, t)
            elif fl == "fobj":
                v = _EF(n, t)
            elif fl == "list":
                v = [None] * n
            else:
                raise ValueError(f"no constant variants in flavour {fl}")
            self.consts[(n, t)] = v
            self.reg[id(v)] = (v, n, t)
        return self.consts[(n, t)]

    def _registered(self, v):
        r = self.reg.get(id(v))
        return r if r is not None and r[0] is v else None

    def cand(self, oid: int):
        """the candidate (domain element) with this identity; in the object flavours a mutable object distinct from
        every literal / default, otherwise the plain value"""
        if self.sp.vals not in OBJECT_FLAVOURS:
            return self.val(oid)
        if oid not in self.cands:
            self.cands[oid] = _CAND[self.sp.vals](oid)
        return self.cands[oid]

    def set_world(self, world: Dict[int, int]) -> None:
        for oid, c in self.cands.items():
            c.code = world.get(oid, oid)

    def show_id(self, v) -> str:
        """a selected candidate, by identity"""
        if self.sp.vals in OBJECT_FLAVOURS:
            return str(v.oid) if type(v) is _CAND[self.sp.vals] else "other:" + type(v).__name__
        return self.show(v)

    def val(self, code: int):
        """the Python value with this number (one object per number and case)"""
        fl = self.sp.vals
        if fl == "int":
            return code
        if code not in self.pool:
            if fl == "obj":
                v: Any = _V(code)
            elif fl == "fobj":
                v = _F(code)
            elif fl == "intF":
                v = False if code == 0 else code
            elif fl == "str":
                v = "s" * code
            elif fl == "list":
                v = [None] * code
            else:
                raise ValueError(fl)
            self.pool[code] = v
        return self.pool[code]

    def show(self, v) -> str:
        if isinstance(v, self.SE):
            return f"?{self.var_of.get(id(v), '?')}"
        r = self._registered(v)
        if r is not None:
            return f"{r[1]}~{r[2]}"
        if isinstance(v, _V):
            return str(v.code)
        if isinstance(v, _Recv):
            return "0"
        fl = self.sp.vals
        if fl == "int" and isinstance(v, int) and not isinstance(v, bool):
            return str(v)
        if fl == "intF" and (v is False or (isinstance(v, int) and not isinstance(v, bool) and v != 0)):
            return str(int(v))
        if fl == "str" and isinstance(v, str) and v == "s" * len(v):
            return str(len(v))
        if fl == "list" and isinstance(v, list) and self.pool.get(len(v)) is v:
            return str(len(v))
        return "other:" + type(v).__name__

    def code(self, v) -> int:
        r = self._registered(v)
        if r is not None:
            return r[1] + r[2]  # the body tells the variants apart
        if isinstance(v, _V):
            return v.code
        if isinstance(v, bool):
            return int(v) if self.sp.vals == "intF" else 0
        if isinstance(v, int):
            return v
        if isinstance(v, (str, list)) and self.sp.vals in ("str", "list"):
            return len(v)
        return 0

    def body(self, values: Tuple[Any, ...]):
        """the function body: record, compute, return"""
        self.log.append(tuple(self.show(v) for v in values))
        r = (self.sp.salt + sum((j + 1) * self.code(v) for j, v in enumerate(values))) % self.sp.mod
        style = (self.sp.salt + len(values)) % 3
        out: Any = r if style == 0 else (r != 0 if style == 1 else (None if r == 0 else self.val(r)))
        self.returned.append(out)
        return out


class _Recv:
    """base of the receiver class of a method case"""


def _build(w: _World):
    """the callable of the case, built from source text so that it is a genuine Python function"""
    from krrood.entity_query_language.predicate import symbolic_function, Predicate
    sp = w.sp
    names = [n for n, _ in sp.params]
    ns: Dict[str, Any] = {"_body": w.body}
    sig = []
    star = False
    for j, (n, d) in enumerate(sp.params):
        if n in sp.kwonly and not star:
            sig.append("*")
            star = True
        if d is None:
            sig.append(n)
        else:
            ns[f"_d{j}"] = w.val(d)
            sig.append(f"{n}=_d{j}")
    table = knobs_table()
    knob_values = {n: (table[n][1] if on else table[n][0]) if n in table else on for n, on in sp.knobs.items()}
    if sp.kind == "fn":
        src = f"def target({', '.join(sig)}):\n    return _body(({', '.join(names)},))\n"
        exec(src, ns)
        for n, v in knob_values.items():
            setattr(ns["target"], n, v)
        f = symbolic_function(ns["target"])
        return f, None
    if sp.kind == "method":
        src = f"def target({', '.join(['self'] + sig)}):\n    return _body((self, {', '.join(names)},))\n"
        exec(src, ns)
        for n, v in knob_values.items():
            setattr(ns["target"], n, v)
        K = type("K", (_Recv,), {"target": symbolic_function(ns["target"])})
        k = K()
        return k.target, k
    if sp.kind == "pred":
        import dataclasses
        fields = []
        for j, (n, d) in enumerate(sp.params):
            ko = {"kw_only": True} if n in sp.kwonly else {}
            if d is None:
                fields.append((n, object, dataclasses.field(**ko)) if ko else (n, object))
            else:
                dv = ns[f"_d{j}"]
                if isinstance(dv, list):  # dataclasses refuse mutable defaults; the factory returns the same object
                    fields.append((n, object, dataclasses.field(default_factory=lambda dv=dv: dv, **ko)))
                else:
                    fields.append((n, object, dataclasses.field(default=dv, **ko)))

        def __call__(self):
            return w.body(tuple(getattr(self, n) for n in names))

        def __call_derived__(self):
            # reads ONLY what the constructor derived from the parameters
            return w.body(self._seen_by_ctor)

        if sp.ctor == "init":
            # hand-written constructor that keeps nothing under the parameter names
            src = (f"def __init__({', '.join(['self'] + sig)}):\n"
                   f"    self._seen_by_ctor = ({', '.join(names)},)\n")
            exec(src, ns)
            P = type("P", (Predicate,), {"__init__": ns["__init__"], "__call__": __call_derived__, **knob_values})
            return P, None
        if sp.ctor == "post":
            def __post_init__(self):
                self._seen_by_ctor = tuple(getattr(self, n) for n in names)

            P = dataclasses.make_dataclass("P", fields, bases=(Predicate,), eq=False,
                                           namespace={"__call__": __call_derived__, "__post_init__": __post_init__,
                                                      **knob_values})
            return P, None
        P = dataclasses.make_dataclass("P", fields, bases=(Predicate,), eq=False,
                                       namespace={"__call__": __call__, **knob_values})
        return P, None
    raise ValueError(sp.kind)


class _Suspended:
    """another query, over a predicate / a symbolic function, whose `evaluate()` generator is advanced by ONE result and
    then left suspended; `finish()` consumes the rest and checks that query's own results"""

    def __init__(self, kind: str):
        import dataclasses
        from krrood.entity_query_language.entity import let, set_of
        from krrood.entity_query_language.quantify_entity import an
        from krrood.entity_query_language.predicate import symbolic_function, Predicate
        self.problem = ""
        self.calls: List[int] = []
        calls = self.calls
        z = let(int, [1, 2, 3])
        if kind == "pred":
            def __call__(self_):
                calls.append(self_.v)
                return self_.v != 2

            Aux = dataclasses.make_dataclass("Aux", [("v", object)], bases=(Predicate,), eq=False,
                                             namespace={"__call__": __call__})
            cond = Aux(z)
        else:
            def aux(v):
                calls.append(v)
                return v != 2

            cond = symbolic_function(aux)(z)
        self.z = z
        self.it = iter(an(set_of([z], cond)).evaluate())
        self.got = [next(self.it)[z]]
        self.done = False

    def finish(self) -> bool:
        """True iff something is wrong with the other query"""
        if not self.done:
            self.done = True
            try:
                self.got += [r[self.z] for r in self.it]
            except Exception as e:  # noqa: BLE001
                self.problem = "exc:" + type(e).__name__
                return True
            if self.got != [1, 3] or sorted(self.calls) != [1, 2, 3]:
                self.problem = f"rows={self.got} calls={sorted(self.calls)}"
        return bool(self.problem)


def _one(sp: Spec) -> str:
    from krrood.entity_query_language.entity import let, set_of, and_, not_
    from krrood.entity_query_language.quantify_entity import an
    from krrood.entity_query_language.predicate import HasType
    w = _World(sp)
    try:
        target, recv = _build(w)
        order = sp.var_order()
        variables = {}
        for i in order:
            v = let(w.T, [w.cand(c) for c in sp.doms[i]])
            variables[i] = v
            w.var_of[id(v)] = i

        def arg(x):
            if x[0] == "v":
                return variables[x[1]]
            if x[0] == "a":
                return ACCESSORS[x[2]][1](variables[x[1]])
            return w.const(x[1], x[2] if len(x) > 2 else 0)

        pos = [arg(x) for x in sp.pos]
        kw = {n: arg(x) for n, x in sp.kw}
        aux = _Suspended(sp.susp) if sp.susp else None
        try:
            c = target(*pos, **kw)
        except Exception as e:  # noqa: BLE001
            if aux is not None:
                aux.finish()
            return "exc:" + type(e).__name__
        if not isinstance(c, w.SE):
            # executed immediately
            if sp.kind == "pred":
                if type(c) is not target or w.log:
                    return "C notplain"
                c = c()  # the user asks the concrete predicate
            if aux is not None and aux.finish():
                return "C other-query-wrong:" + aux.problem
            if len(w.log) != 1:
                return f"C calls={len(w.log)}"
            if c is not w.returned[0]:
                return "C notplain"
            return "C (" + ",".join(w.log[0]) + ") " + ("T" if c else "F")
        atctor = len(w.log)
        w.log.clear()
        cond = not_(c) if sp.neg else c
        if sp.frame:
            from krrood.entity_query_language.entity import or_
            guards = [HasType(variables[i], w.T) for i in order]
            guard = and_(*guards) if len(guards) > 1 else guards[0]  # ONE object, written in both branches
            then_, else_ = (guard if t == "T" else not_(guard) for t in sp.frame)
            cond = or_(and_(cond, then_), and_(not_(cond), else_))
            if type(cond).__name__ != "ElseIf":
                return "harness-exc:frame-is-not-an-ElseIf:" + type(cond).__name__
        conds = [HasType(variables[p], w.T) for p in sp.pre] + [cond]
        cond = and_(*conds) if len(conds) > 1 else cond
        sel = [variables[i] for i in order]
        query = an(set_of(sel, cond))  # ONE query object, evaluated once per world
        if aux is not None and not sp.susp_eval:
            aux.finish()
        outs = []
        for n_eval, world in enumerate([{}] + list(sp.hist)):
            head = "S " + (f"atctor={atctor} " if atctor and n_eval == 0 else "")
            w.set_world(world)
            w.log.clear()
            try:
                rows = []
                for r in query.evaluate():
                    rows.append("(" + ",".join(w.show_id(r[s]) for s in sel) + ")")
            except Exception as e:  # noqa: BLE001
                outs.append(head + "exc:" + type(e).__name__)
                continue
            log = sorted("(" + ",".join(t) + ")" for t in w.log)
            outs.append(head + "log=[" + ",".join(log) + "] rows=[" + ",".join(sorted(set(rows))) + "]")
            if aux is not None and n_eval == 0:
                aux.finish()
        if aux is not None and aux.problem:
            return "S other-query-wrong:" + aux.problem
        return " ;; ".join(outs)
    except Exception as e:  # noqa: BLE001
        return "harness-exc:" + type(e).__name__ + ":" + str(e)[:80]


# ------------------------------------------------------------------------------------------- independent oracle

def oracle(sp: Spec) -> str:
    """the property, as plain Python: inspect.Signature.bind + itertools.product + the body as a lambda"""
    P = inspect.Parameter
    params = [P(n, P.KEYWORD_ONLY if n in sp.kwonly else P.POSITIONAL_OR_KEYWORD, default=P.empty if d is None else d)
              for n, d in sp.params]
    recv = []
    if sp.kind == "method":
        params = [P("self", P.POSITIONAL_OR_KEYWORD)] + params
        recv = [0]
    sig = inspect.Signature(params)

    def body(t):
        return (sp.salt + sum((j + 1) * (v % 1000 + v // 1000) for j, v in enumerate(t))) % sp.mod

    def sv(v):
        return str(v) if v < 1000 else f"{v % 1000}~{v // 1000}"

    def call(env, world=None):
        world = world or {}

        def a(x):
            if x[0] == "v":
                return world.get(env[x[1]], env[x[1]])
            if x[0] == "a":
                return world.get(env[x[1]], env[x[1]]) + 100 * x[2]
            return x[1] + 1000 * (x[2] if len(x) > 2 else 0)
        ba = sig.bind(*(recv + [a(x) for x in sp.pos]), **{n: a(x) for n, x in sp.kw})
        ba.apply_defaults()
        return tuple(ba.arguments[p.name] for p in params)

    try:
        sig.bind(*(recv + [0 for _ in sp.pos]), **{n: 0 for n, _ in sp.kw})
    except TypeError:
        return "invalid"
    order = sp.var_order()
    if not order:
        t = call({})
        return "C (" + ",".join(map(sv, t)) + ") " + ("T" if body(t) else "F")
    outs = []
    for world in [{}] + list(sp.hist):
        log, rows = [], set()
        for combo in itertools.product(*[sp.doms[i] for i in order]):
            env = dict(zip(order, combo))
            t = call(env, world)
            log.append("(" + ",".join(map(sv, t)) + ")")
            truth = bool(body(t)) != sp.neg
            if (truth and sp.frame[0] == "T" or not truth and sp.frame[1] == "T") if sp.frame else truth:
                rows.add("(" + ",".join(str(env[i]) for i in order) + ")")
        outs.append("S log=[" + ",".join(sorted(log)) + "] rows=[" + ",".join(sorted(rows)) + "]")
    return " ;; ".join(outs)


_ORACLE_CHECKED = 0


def run_impl(cases):
    global _ORACLE_CHECKED
    cases = [revive(c) for c in cases]
    # second oracle for the Lean specification itself
    outs = core.Driver(PID).run([c.line for c in cases])
    for c, d in zip(cases, outs):
        o = oracle(c.payload)
        if d.get("spec") != o:
            raise core.CheckBroken(f"Lean spec disagrees with the independent Python oracle on {c.line}: "
                                   f"lean={d.get('spec')} python={o}")
        _ORACLE_CHECKED += 1
    return [_one(c.payload) for c in cases]


def extra_coverage():
    return {"spec_cross_checked_against_python_oracle": _ORACLE_CHECKED}
