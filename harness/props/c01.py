"""C01 — EQL answers are exactly the satisfying assignments (sound and complete).

Observation: the SET of result rows (each row = tuple of selected values; objects by identity), or the class of
the escaping exception."""
from __future__ import annotations

import eqlgen as G
from core import Case, CheckBroken

PID = "C01"
LEAN_MODULES = ["KrroodVerif.Props.C01", "KrroodVerif.Props.C01Union", "KrroodVerif.Props.C01Typed"]
THEOREMS = [
    "KrroodVerif.Eql.C01_cover",
    "KrroodVerif.Eql.C01_sound_complete_partial",
    "KrroodVerif.Eql.C01_sound_complete_F1_partial",
    "KrroodVerif.Eql.satE_build",
    "KrroodVerif.Eql.C01_sound_complete_union_partial",
    "KrroodVerif.Eql.union_true_sound",
    "KrroodVerif.Eql.union_true_complete",
    "KrroodVerif.Eql.union_cell_complete",
    "KrroodVerif.Eql.eval_no_error",
    "KrroodVerif.Eql.spec_no_error",
    "KrroodVerif.Eql.C01_sound_complete_typed",
    "KrroodVerif.Eql.C01_cover_typed",
    "KrroodVerif.Eql.union_cells_typed",
    "KrroodVerif.Eql.C01_cex_negUnion",
    "KrroodVerif.Eql.C01_cex_selectIndependent",
    "KrroodVerif.Eql.C01_cex_falsyBound",  # witness of the REPAIRED F-C01-3: evaluation now equals the specification
    "KrroodVerif.Eql.C01_boundVar_flag",
    "KrroodVerif.Eql.C01_boundVar_asCondition",
    "KrroodVerif.Eql.C01_cex_existsDedup",
    "KrroodVerif.Eql.C01_cex_forAllEmpty",
    "KrroodVerif.Eql.C01_cex_existsKeyError",
    "KrroodVerif.Eql.C01_cex_orOfExists",
    "KrroodVerif.Eql.C01_cex_emptyDomain",
    "KrroodVerif.Eql.C01_cex_flattenNot",
]
# second tie (translator): the table of construction-time rewrites regenerated from the current source equals the one
# `build` transcribes and is admissible — the same two obligations as C02 (harness/translate/c02_translate.py)
from props.c02 import extra_obligations  # noqa: E402,F401

MODEL_FUNCTION = "Eql.evalQuery / Eql.eval / Eql.build (Model/Eql.lean)"
TRUSTED = [
    "Lean 4.33 kernel; axioms of each theorem listed under coverage.theorems",
    "hand-written model Model/Eql.lean of symbolic.py/entity.py evaluation (tree-shaped queries)",
    "this correspondence harness, the S-expression driver and an independent Python oracle for the Lean spec",
]
ASSUMPTIONS = [
    "queries are tree-shaped: every attribute/comparator node occurs once (x.a written at each use)",
    "quantified variables are not used outside their quantifier (no shadowing), quantifiers are not nested",
    "user attribute access has no side effects; object truthiness is the default (always true)",
]
RULE = ("corpus, then random condition trees (depth<=3, 1-3 variables + dedicated quantifier variables, int and "
        "object domains of 0-4 elements incl. falsy values (no longer excused: F-C01-3 is repaired, a falsy bound value "
        "must behave like any other operand), empty domains and value-equal distinct objects; or_ with "
        "all variable-set relations; 1-4 selected expressions); non-trivial = the specified answer set is neither "
        "empty nor the full product; distinct by case text")


def budget(tier: str) -> int:
    return 8000 if tier == "quick" else 120000


def generate(rng, tier, n):
    out = []
    for _ in range(max(50, n // 10)):
        q = G.gen_subquery_query(rng)
        out.append(Case(G.sx_query(q), ("subquery-operand", "nsel%d" % len(q["sel"])) + tuple(sorted(set(G.cond_ops(q["cond"])))),
                        "random", q))
    for _ in range(n):
        q = G.gen_query(rng)
        ops = G.cond_ops(q["cond"])
        tags = ["depth%d" % G.cond_depth(q["cond"]), "nsel%d" % len(q["sel"])] + sorted(set(ops))
        if any(len(d) == 0 for d in q["doms"].values()):
            tags.append("empty-domain")
        out.append(Case(G.sx_query(q), tuple(tags), "random", q))
    return out


def revive(case: Case) -> Case:
    if case.line == "(sharednode)":
        return case
    if case.payload is None:
        case.payload = G.parse_query(case.line)
    return case


def shrink(case: Case):
    if case.payload is None:
        return
    for q in G.shrink_query(case.payload):
        yield Case(G.sx_query(q), case.tags, "shrink", q)


def nontrivial(case: Case, spec: str) -> bool:
    if spec.startswith("exc:") or not spec or case.payload is None:
        return False
    q = case.payload
    total = 1
    for v in G.query_vars(q):
        total *= len(q["doms"][v])
    return len(spec.split(") (")) < total


def canon_set(rows):
    return " ".join(sorted(set(rows)))


def exc_name(e: BaseException, has_quantifier: bool = True) -> str:
    """KeyError (Exists) and TypeError (ForAll over an empty domain) are the two recorded quantifier failures; which of
    them surfaces first in a query containing both depends on generator scheduling, not on the property."""
    n = type(e).__name__
    return "exc:quantifier" if has_quantifier and n in ("KeyError", "TypeError") else "exc:" + n


def _shared_node() -> str:
    """F-C01-4: one attribute node used twice (stored in a Python variable)"""
    from krrood.entity_query_language.entity import let, entity, and_, not_
    from krrood.entity_query_language.quantify_entity import an
    objs = [G.P(i, 0, {"f": f}) for i, f in enumerate([True, False, False])]
    x = let(object, objs, name="x")
    xf = x.f
    try:
        return canon_set([G.show_row((r,)) for r in an(entity(x, and_(not_(xf), xf == False))).evaluate()])  # noqa: E712
    except Exception as e:  # noqa: BLE001
        return "exc:" + type(e).__name__


def _one(case: Case) -> str:
    if case.line == "(sharednode)":
        return _shared_node()
    q = case.payload
    try:
        query, sel, single, _objs = G.build_real(q)
        return canon_set(G.rows_of(query, sel, single))
    except Exception as e:  # noqa: BLE001
        ops = G.cond_ops(q["cond"])
        return exc_name(e, "exists" in ops or "forall" in ops)


_oracle_checked = 0


def run_impl(cases):
    global _oracle_checked
    out = []
    for c in cases:
        revive(c)
        out.append(_one(c))
    return out


def oracle_set(case: Case) -> str:
    return canon_set(G.oracle_rows(case.payload))
