"""C01 — EQL answers are exactly the satisfying assignments (sound and complete).

Observation: the SET of result rows (each row = tuple of selected values; objects by identity), or the class of
the escaping exception."""
from __future__ import annotations

import eqlgen as G
from core import Case, CheckBroken

PID = "C01"
LEAN_MODULES = ["KrroodVerif.Props.C01", "KrroodVerif.Props.C01Union", "KrroodVerif.Props.C01Typed",
                "KrroodVerif.Props.C01Quant", "KrroodVerif.Props.C01IR", "KrroodVerif.Props.C01IROr", "KrroodVerif.Props.C01IRVar"]
THEOREMS = [
    "KrroodVerif.Eql.C01_cover",
    "KrroodVerif.Eql.C01_sound_complete_partial",
    "KrroodVerif.Eql.C01_sound_complete_F1_partial",
    "KrroodVerif.Eql.satE_build",
    "KrroodVerif.Eql.C01_sound_complete_union_partial",
    "KrroodVerif.Eql.union_true_sound",
    "KrroodVerif.Eql.union_true_complete",
    "KrroodVerif.Eql.union_cell_complete",
    "KrroodVerif.Eql.eval_no_error",
    "KrroodVerif.Eql.spec_no_error",
    "KrroodVerif.Eql.C01_sound_complete_typed",
    "KrroodVerif.Eql.C01_cover_typed",
    "KrroodVerif.Eql.union_cells_typed",
    "KrroodVerif.Eql.C01_cex_negUnion",
    "KrroodVerif.Eql.C01_cex_selectIndependent",
    "KrroodVerif.Eql.C01_cex_falsyBound",  # witness of the REPAIRED F-C01-3: evaluation now equals the specification
    "KrroodVerif.Eql.C01_boundVar_flag",
    "KrroodVerif.Eql.C01_boundVar_asCondition",
    "KrroodVerif.Eql.C01_cex_existsDedup",
    "KrroodVerif.Eql.C01_cex_forAllEmpty",
    "KrroodVerif.Eql.C01_cex_existsKeyError",
    "KrroodVerif.Eql.C01_cex_orOfExists",
    "KrroodVerif.Eql.C01_cex_emptyDomain",
    "KrroodVerif.Eql.C01_cex_flattenNot",
    # quantified conditions (Props/C01Quant.lean; lemmas Lemmas/EqlQuant.lean)
    "KrroodVerif.Eql.C01_quant_sound_complete_partial",
    "KrroodVerif.Eql.C01_quant_tree_sound_complete_partial",
    "KrroodVerif.Eql.C01_exists_sound_complete_partial",
    "KrroodVerif.Eql.C01_forall_sound_complete_partial",
    "KrroodVerif.Eql.C01_not_exists_sound_complete_partial",
    "KrroodVerif.Eql.C01_not_forall_sound_complete_partial",
    "KrroodVerif.Eql.C01_forall_empty_error",
    "KrroodVerif.Eql.C01_exists_no_keyError",
    "KrroodVerif.Eql.C01_quantProved_sound_complete",  # the decidable predicate the DRIVER evaluates per case (frag=ql)
    "KrroodVerif.Eql.ql_qinv",
    "KrroodVerif.Eql.qt_qinv2",
    "KrroodVerif.Eql.ql_qt",
    "KrroodVerif.Eql.exists_qinv",
    "KrroodVerif.Eql.forAll_qinv",
    "KrroodVerif.Eql.closed_eval",
    "KrroodVerif.Eql.lclosed_eval",
    "KrroodVerif.Eql.eval_fext",
    "KrroodVerif.Eql.satE_congr",
    "KrroodVerif.Eql.C01_quant_need_E1",
    "KrroodVerif.Eql.C01_quant_need_E2",
    "KrroodVerif.Eql.C01_quant_need_A1",
    "KrroodVerif.Eql.C01_quant_need_A2",
    "KrroodVerif.Eql.C01_quant_need_shape",
    "KrroodVerif.Eql.C01_quant_need_scope",
    # c01b: the interpreter of the translated evaluation methods agrees with the hand-written `eval` (Props/C01IR.lean)
    "KrroodVerif.Eql.IR.runNode_not",
    "KrroodVerif.Eql.IR.C01_runIR_eq_eval_not_partial",
    "KrroodVerif.Eql.IR.loopSt_spec",
    "KrroodVerif.Eql.IR.runNode_and",
    "KrroodVerif.Eql.IR.C01_runIR_eq_eval_and_partial",
    "KrroodVerif.Eql.IR.C01_runIR_eq_eval_closed_partial",
    "KrroodVerif.Eql.IR.loopSt_specF",
    "KrroodVerif.Eql.IR.or_right_call",
    "KrroodVerif.Eql.IR.or_left_call",
    "KrroodVerif.Eql.IR.runNode_elseIf",
    "KrroodVerif.Eql.IR.C01_runIR_eq_eval_elseIf_partial",
    "KrroodVerif.Eql.IR.runNode_union",
    "KrroodVerif.Eql.IR.C01_runIR_eq_eval_union_partial",
    "KrroodVerif.Eql.IR.C01_runIR_eq_eval_connectives_partial",
    "KrroodVerif.Eql.IR.runNode_hasType",
    "KrroodVerif.Eql.IR.C01_runIR_eq_eval_hasType_partial",
    "KrroodVerif.Eql.IR.C01_runIR_eq_eval_truth_partial",
    "KrroodVerif.Eql.IR.runNode_key",
    "KrroodVerif.Eql.IR.C01_runIRTerm_var_operand",
    "KrroodVerif.Eql.IR.C01_runIRTerm_lit_operand",
    "KrroodVerif.Eql.IR.C01_runIR_eq_eval_frag_partial",
    "KrroodVerif.Eql.IR.runNode_keyC",
    "KrroodVerif.Eql.IR.C01_runIRTerm_var_cond",
    "KrroodVerif.Eql.IR.C01_runIRTerm_lit_cond",
    "KrroodVerif.Eql.IR.C01_runIR_eq_eval_frag2_partial",
]
# second tie (translator): the table of construction-time rewrites regenerated from the current source equals the one
# `build` transcribes and is admissible — the same two obligations as C02 (harness/translate/c02_translate.py)
from props.c02 import extra_obligations  # noqa: E402,F401

MODEL_FUNCTION = "Eql.evalQuery / Eql.eval / Eql.build (Model/Eql.lean)"
TRUSTED = [
    "Lean 4.33 kernel; axioms of each theorem listed under coverage.theorems",
    "hand-written model Model/Eql.lean of symbolic.py/entity.py evaluation (tree-shaped queries)",
    "this correspondence harness, the S-expression driver and an independent Python oracle for the Lean spec",
]
ASSUMPTIONS = [
    "queries are tree-shaped: every attribute/comparator node occurs once (x.a written at each use)",
    "quantified variables are not used outside their quantifier (no shadowing), quantifiers are not nested",
    "user attribute access has no side effects; object truthiness is the default (always true)",
]
RULE = ("corpus, then the quantifier family (and_(l1, .., Q), Q = exists / for_all / not_ of them over a quantifier-free "
        "body, aimed at and just outside the fragment of Props/C01Quant.lean; the Lean predicate Eql.quantProved decides "
        "membership in the driver, where F-C01-5/7/11 are then no excuse), then random condition trees (depth<=3, 1-3 variables + dedicated quantifier variables, int and "
        "object domains of 0-4 elements incl. falsy values (no longer excused: F-C01-3 is repaired, a falsy bound value "
        "must behave like any other operand), comparisons whose two operands are index / attribute / call terms over the same "
        "container or object (x.items[0] == x.items[1], self-joins), membership and comparison over computed collections "
        "(a fresh list per attribute access; 3-8 objects), empty domains and value-equal distinct objects; or_ with "
        "all variable-set relations; 1-4 selected expressions); non-trivial = the specified answer set is neither "
        "empty nor the full product; distinct by case text")


def budget(tier: str) -> int:
    return 8000 if tier == "quick" else 120000


def _conj(rng, parts):
    """and_(a, b, c) of the library is and_(and_(a, b), c); also the right-nested form"""
    if rng.random() < 0.6:
        c = parts[0]
        for p in parts[1:]:
            c = ("and", c, p)
        return c
    c = parts[-1]
    for p in reversed(parts[:-1]):
        c = ("and", p, c)
    return c


def gen_quant_family(rng):
    """`and_(l1, .., Q)` with quantifier-free `li` and ONE quantifier Q last: exists / for_all / not_(exists) /
    not_(for_all) over a quantifier-free condition — aimed at the fragment of Props/C01Quant.lean (every variable of an
    `exists` body bound by the conjuncts to the left, the quantified variable in every result cell; `for_all` bodies whose
    true cells bind every node), with a minority just outside it. The DRIVER decides membership (`frag=ql`,
    `Eql.quantProved`); `extra_coverage` counts it."""
    nv = rng.choice([1, 2, 2, 3])
    vs = ["x", "y", "z"][:nv]
    qn = "u"
    kinds, objs, doms = G.gen_world(rng, vs + [qn], int_p=0.35)
    G.EXT["index_ok"] = False
    if rng.random() < 0.85:  # the theorems need non-empty domains for the free variables (F-C01-9) and for `for_all` (F-C01-6)
        for n in vs + [qn]:
            if not doms[n]:
                if kinds[n] == "obj" and objs:
                    doms[n] = [("obj", rng.randrange(len(objs)))]
                elif kinds[n] == "int":
                    doms[n] = [rng.randrange(0, 3)]
    allv = vs + [qn]
    atom_q = lambda: G.gen_atom(rng, allv, kinds, 0, must=qn)
    def body_exists():
        k = rng.random()
        a = atom_q()
        if k < 0.45:
            return a
        if k < 0.7:
            return ("and", a, G.gen_cond(rng, allv, kinds, 1, [], 0, False, True, True))
        if k < 0.85:
            return ("not", a)
        if k < 0.93:
            return ("or", a, atom_q())
        return ("and", G.gen_atom(rng, vs, kinds, 0, must=rng.choice(vs)), a)  # F-C01-7 shape: just outside
    def body_forall():
        k = rng.random()
        a = atom_q()
        if k < 0.4:
            return a
        if k < 0.65:
            return ("and", a, G.gen_atom(rng, allv, kinds, 0, must=rng.choice(allv)))
        if k < 0.8:
            return ("not", a)
        if k < 0.86:
            return ("and", a, ("not", G.gen_atom(rng, allv, kinds, 0, must=rng.choice(allv))))
        if k < 0.93:
            # a negated conjunction whose second conjunct only holds `u` and a literal: a true cell leaves that literal
            # node unbound, no variable (inside the fragment)
            return ("not", ("and", G.gen_atom(rng, allv, kinds, 0, must=rng.choice(allv)), ("cmp", rng.choice(list(G.OPS)),
                    (("var", qn) if kinds[qn] == "int" else ("attr", ("var", qn), "a")), ("lit", rng.randrange(0, 3)))))
        return ("not", ("and", a, G.gen_atom(rng, allv, kinds, 0, must=rng.choice(vs))))  # F-C01-11 shape: just outside
    kind = rng.choice(["exists", "forall", "not-exists", "not-forall"])
    if kind == "exists":
        body = body_exists(); Q = ("exists", qn, body)
    elif kind == "forall":
        body = body_forall(); Q = ("forall", qn, body)
    elif kind == "not-exists":  # built as for_all(u, not body)
        body = rng.choice([atom_q, lambda: ("or", atom_q(), atom_q()), lambda: ("not", atom_q())])()
        Q = ("not", ("exists", qn, body))
    else:  # built as exists(u, not body)
        body = rng.choice([atom_q, lambda: ("not", atom_q()), lambda: ("and", atom_q(), G.gen_atom(rng, allv, kinds, 0, must=rng.choice(allv)))])()
        Q = ("not", ("forall", qn, body))
    free = [v for v in G.c_free(Q)]
    needs_bound = kind in ("exists", "not-forall")
    parts = []
    for v in free:
        if needs_bound and rng.random() < 0.92 or rng.random() < 0.4:
            parts.append(G.gen_atom(rng, vs, kinds, 0, must=v))
    if rng.random() < 0.3:
        parts.append(G.gen_cond(rng, vs, kinds, rng.randrange(1, 3), [], 0, False, rng.random() < 0.5, True))
    rng.shuffle(parts)
    k = rng.random()
    if k < 0.7:
        cond = _conj(rng, parts + [Q])                      # the quantifier LAST (chain fragment)
    elif k < 0.9:
        # and-TREE: a closed `exists` first, conjuncts and the quantifier after it (`v` is a second quantified variable
        # with the domain and kind of `u`)
        doms["v"], kinds["v"] = list(doms[qn]), kinds[qn]
        first = ("exists", "v", G.gen_atom(rng, ["v"], kinds, 0, must="v"))
        cond = _conj(rng, [first] + parts + [Q])
        kind = "tree-" + kind
    else:
        # the quantifier in the MIDDLE: conjuncts after it (outside the chain fragment, inside the tree fragment when they
        # do not use `u`)
        tail = [G.gen_atom(rng, vs, kinds, 0, must=rng.choice(vs))]
        cond = _conj(rng, parts + [Q] + tail)
        kind = "mid-" + kind
    sel = [("var", v) for v in rng.sample(vs, rng.randrange(1, nv + 1))]
    return {"sel": sel, "cond": cond, "objs": objs, "doms": doms, "kinds": kinds}, kind


_generated_lines = []


def extra_coverage():
    """how many of this run's generated cases the Lean predicate `Eql.quantProved` places inside the proved quantifier
    fragment (there the driver does not offer F-C01-5/7/11 as an excuse), by quantifier shape"""
    from core import Driver
    if not _generated_lines:
        return {}
    outs = Driver(PID).run([l for l, _ in _generated_lines])
    by = {}
    for (_, kind), d in zip(_generated_lines, outs):
        if d.get("frag") == "ql":
            by[kind] = by.get(kind, 0) + 1
    return {"quant_fragment_cases": sum(by.values()), "quant_fragment_by_shape": dict(sorted(by.items())),
            "quant_family_generated": sum(1 for _, k in _generated_lines if k != "random")}


def generate(rng, tier, n):
    out = []
    for _ in range(max(100, n // 8)):
        q, kind = gen_quant_family(rng)
        line = G.sx_query(q)
        _generated_lines.append((line, kind))
        out.append(Case(line, ("quant-family", "quant-" + kind, "nsel%d" % len(q["sel"])) + tuple(sorted(set(G.cond_ops(q["cond"])))),
                        "random", q))
    for _ in range(max(50, n // 10)):
        q = G.gen_subquery_query(rng)
        out.append(Case(G.sx_query(q), ("subquery-operand", "nsel%d" % len(q["sel"])) + tuple(sorted(set(G.cond_ops(q["cond"])))),
                        "random", q))
    # s6a: comparisons between two index/attribute/call terms of the SAME container or object; conditions over COMPUTED
    # collections (a fresh list per access, so that addresses are reused within one evaluation)
    for fam, tag, k in ((G.gen_same_container_query, "same-container-operands", max(60, n // 16)),
                        (G.gen_computed_collection_query, "computed-collection", max(60, n // 16))):
        for _ in range(k):
            q = fam(rng)
            out.append(Case(G.sx_query(q), (tag, "nsel%d" % len(q["sel"])) + tuple(sorted(set(G.cond_ops(q["cond"])))),
                            "random", q))
    for _ in range(n):
        q = G.gen_query(rng)
        ops = G.cond_ops(q["cond"])
        tags = ["depth%d" % G.cond_depth(q["cond"]), "nsel%d" % len(q["sel"])] + sorted(set(ops))
        if any(len(d) == 0 for d in q["doms"].values()):
            tags.append("empty-domain")
        line = G.sx_query(q)
        if "exists" in ops or "forall" in ops:
            _generated_lines.append((line, "random"))
        out.append(Case(line, tuple(tags), "random", q))
    return out


def revive(case: Case) -> Case:
    if case.line == "(sharednode)":
        return case
    if case.payload is None:
        case.payload = G.parse_query(case.line)
    return case


def shrink(case: Case):
    if case.payload is None:
        return
    for q in G.shrink_query(case.payload):
        yield Case(G.sx_query(q), case.tags, "shrink", q)


def nontrivial(case: Case, spec: str) -> bool:
    if spec.startswith("exc:") or not spec or case.payload is None:
        return False
    q = case.payload
    total = 1
    for v in G.query_vars(q):
        total *= len(q["doms"][v])
    return len(spec.split(") (")) < total


def canon_set(rows):
    return " ".join(sorted(set(rows)))


def exc_name(e: BaseException, has_quantifier: bool = True) -> str:
    """KeyError (Exists) and TypeError (ForAll over an empty domain) are the two recorded quantifier failures; which of
    them surfaces first in a query containing both depends on generator scheduling, not on the property."""
    n = type(e).__name__
    return "exc:quantifier" if has_quantifier and n in ("KeyError", "TypeError") else "exc:" + n


def _shared_node() -> str:
    """F-C01-4: one attribute node used twice (stored in a Python variable)"""
    from krrood.entity_query_language.entity import let, entity, and_, not_
    from krrood.entity_query_language.quantify_entity import an
    objs = [G.P(i, 0, {"f": f}) for i, f in enumerate([True, False, False])]
    x = let(object, objs, name="x")
    xf = x.f
    try:
        return canon_set([G.show_row((r,)) for r in an(entity(x, and_(not_(xf), xf == False))).evaluate()])  # noqa: E712
    except Exception as e:  # noqa: BLE001
        return "exc:" + type(e).__name__


def _one(case: Case) -> str:
    if case.line == "(sharednode)":
        return _shared_node()
    q = case.payload
    try:
        query, sel, single, _objs = G.build_real(q)
        return canon_set(G.rows_of(query, sel, single))
    except Exception as e:  # noqa: BLE001
        ops = G.cond_ops(q["cond"])
        return exc_name(e, "exists" in ops or "forall" in ops)


_oracle_checked = 0


def run_impl(cases):
    global _oracle_checked
    out = []
    for c in cases:
        revive(c)
        out.append(_one(c))
    return out


def oracle_set(case: Case) -> str:
    return canon_set(G.oracle_rows(case.payload))
