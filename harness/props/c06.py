"""C06 — ORMatic produces a valid, complete SQLAlchemy layer for every supported model; generation is deterministic.

A case is a small dataclass model (S-expression, see Drive/C06.lean).  Each case is rendered to a Python module in a
scratch directory outside /repo and /verif and processed by the REAL generator in fresh subprocesses:

  worker 1 (PYTHONHASHSEED=11):    ORMatic(ClassDiagram(classes in `ord`)) -> file -> import -> configure_mappers()
                                   -> create_all (in-memory SQLite) -> mapper / table inspection
  worker 2 (PYTHONHASHSEED=4242):  generate again with `ord` (bytes must be identical) and with `ord2` (same top-level
                                   blocks up to order)

The observation is the canonical text of exactly the schema facts the property talks about (DAO classes and their base
chain, column-name sets with a nullability marker for Optional fields, association tables and what they link,
relationships (source, field, target, one/many), foreign keys, polymorphic set-up, determinism) or `fail:<stage>:<kind>`.
It is compared with (i) `model=` — the observation of the Lean model's `generate` output and (ii) `spec=` — the Lean
specification's direct reading of the dataclasses; in addition this file computes its own ground truth from the
generating term and counts disagreements with `spec=` (reported in the evidence, 0 expected).
"""
from __future__ import annotations

import hashlib
import json
import os
import re
import shutil
import subprocess
import sys
import tempfile
from concurrent.futures import ThreadPoolExecutor
from pathlib import Path

try:  # the worker subprocess imports this file too
    from core import Case
except Exception:  # pragma: no cover
    Case = None  # type: ignore

PID = "C06"
LEAN_MODULES = ["KrroodVerif.Props.C06", "KrroodVerif.Props.C06T"]
THEOREMS = [
    "KrroodVerif.OrmGen.C06_valid_partial",
    "KrroodVerif.OrmGen.C06_full",
    "KrroodVerif.OrmGen.C06_names_injective",
    "KrroodVerif.OrmGen.C06_assoc_fk_distinct",
    "KrroodVerif.OrmGen.assocName_injective",
    "KrroodVerif.OrmGen.assocName_length",
    "KrroodVerif.OrmGen.generated_name_lengths",
    "KrroodVerif.OrmGen.C06_complete",
    "KrroodVerif.OrmGen.C06_model_meets_spec",
    "KrroodVerif.OrmGen.C06_perm_invariant",
    "KrroodVerif.OrmGen.C06_cex_self_list",
    "KrroodVerif.OrmGen.C06_cex_no_builtin",
    # second tie (Props/C06T.lean): the kind dispatch and the mapper-argument rules as tables
    "KrroodVerif.OrmGen.genField_eq_interp",
    "KrroodVerif.OrmGen.generate_eq_interp",
    "KrroodVerif.OrmGen.C06_generateT_eq_of_ok",
    "KrroodVerif.OrmGen.C06_generateT_ext",
    "KrroodVerif.OrmGen.C06_complete_of_tables",
    "KrroodVerif.OrmGen.C06_full_of_tables",
    "KrroodVerif.OrmGen.C06_spec_of_tables",
    "KrroodVerif.OrmGen.C06_perm_invariant_of_tables",
    "KrroodVerif.OrmGen.C06_inherit_condition_of_rules",
    "KrroodVerif.OrmGen.C06_of_translated_tables",
]
TRANSLATED = ["KrroodVerif.OrmGen.Translated.C06_dispatch_translated_eq_model",
              "KrroodVerif.OrmGen.Translated.C06_mapper_translated_eq_model",
              "KrroodVerif.OrmGen.Translated.C06_dispatch_translated_ok",
              "KrroodVerif.OrmGen.Translated.C06_mapper_translated_ok",
              "KrroodVerif.OrmGen.Translated.C06_translated_meets_property"]


def extra_obligations():
    """Second tie: regenerate the decision list of `WrappedTable.parse_field` and the rules of
    `WrappedTable.create_mapper_args` from /repo's CURRENT source (Python ast) and have the kernel re-check that they
    (i) are extensionally the pinned tables (`OrmGen.dispatch`, `OrmGen.mapperRules`, for which `generate_eq_interp`
    proves that the model IS the table-driven generator) and (ii) pass `DispatchOk` / `MapperOk`, from which
    `C06_of_translated_tables` derives the property theorems for the generator driven by the regenerated tables."""
    import core
    from translate.c06_translate import generate as gen, TranslationError
    try:
        text = gen(core.REPO)
    except (TranslationError, SyntaxError, OSError, RecursionError) as e:
        return [{"name": n, "ok": False, "detail": f"translator rejected the source: {e}"} for n in TRANSLATED]
    tmp = core.LEAN_DIR / ".lake" / "audit"
    tmp.mkdir(parents=True, exist_ok=True)
    f = tmp / f"C06Translated_{os.getpid()}.lean"
    f.write_text(text + "".join(f"#print axioms {n}\n" for n in TRANSLATED))
    try:
        p = subprocess.run(["lake", "env", "lean", str(f)], cwd=str(core.LEAN_DIR), capture_output=True, text=True,
                           timeout=600)
    finally:
        try:
            f.unlink()
        except OSError:
            pass
    out = " ".join(((p.stdout or "") + (p.stderr or "")).split())
    res = []
    for n in TRANSLATED:
        m = re.search(r"'" + re.escape(n) + r"' depends on axioms: \[([^\]]*)\]", out)
        none = re.search(r"'" + re.escape(n) + r"' does not depend on any axioms", out)
        ax = [a.strip() for a in m.group(1).split(",")] if m else ([] if none else None)
        # a theorem whose proof failed is either absent or carries `sorryAx`: both are "not ok"
        ok = ax is not None and set(ax) <= core.ALLOWED_AXIOMS
        res.append({"name": n, "ok": ok, "axioms": ax,
                    "detail": "regenerated tables:\n" + text[text.find("def dispatch"):text.find("/-- the current source decides")]
                              + (p.stdout or "")[-1500:] + (p.stderr or "")[-800:]})
    return res

MODEL_FUNCTION = "OrmGen.generate / OrmGen.observe / OrmGen.Spec.expected (Model/OrmGen.lean)"
TRUSTED = [
    "Lean 4.33 kernel; axioms of each theorem listed under coverage.theorems",
    "hand-written model Model/OrmGen.lean of ormatic.py / wrapped_table.py name derivation, parent resolution, "
    "inherited-field elimination, kind dispatch and imported modules",
    "this correspondence harness (model renderer, subprocess workers, mapper/table inspection, canonicaliser) and the "
    "S-expression driver",
    "SQLAlchemy 2 declarative scan / configure_mappers / create_all on SQLite, Jinja2 and black are external: 'imports, "
    "configures, creates' is their judgement, observed for real on every generated model, never proved",
    "second tie: the AST translator harness/translate/c06_translate.py (strict; rejects what it does not recognise) and "
    "OrmDispatch.factsOf, the hand-written table of the WrappedField predicates on the field shapes of the grammar",
]
ASSUMPTIONS = [
    "class and field names are ASCII identifiers (Lean `lower` is ASCII lower-casing)",
    "models follow the documented modelling rules: only Optional unions, non-optional non-nested collections, single "
    "inheritance with every base mapped, no defaults needed; field names are not generated column names (`*_id`, "
    "`polymorphic_type`) nor members of DataAccessObject / DeclarativeBase",
    "the classes of one model live in one module or in 2-3 modules of one directory (enums then in their own module); a "
    "subclass never lives in a lower-numbered module than its base",
]
RULE = ("random models over the grammar of the property text (1-6 dataclasses; scalars, Optional scalars, enums, "
        "datetimes, lists of builtins, (Optional) references, collections, single and multi-level inheritance, self and "
        "mutual references, several collections of one target, overridden fields, private fields, short names and long "
        "descriptive names (classes 30-45, fields 20-40 characters, long common prefixes), shuffled declaration "
        "and registration order, with/without `from __future__ import annotations`; references inside one inheritance chain "
        "(to a direct subclass without back reference, to a grandchild, parent <-> child; shape + fixed family), fields of "
        "classes that are keys of ORMatic's `type_mappings` argument and entries no field uses, references to classes "
        "outside the class diagram; every third model and a fixed family "
        "spread over 2-3 modules whose cross-module names are visible under TYPE_CHECKING only), each generated, imported, "
        "configured, created and inspected in a fresh subprocess and regenerated under another PYTHONHASHSEED and class "
        "order; non-trivial = at least two classes or at least three mapped fields; distinct by case text")

WORKERS = 16
SCALARS = ["int", "float", "str", "bool"]
CLASS_NAMES = ["Alpha", "Beta", "Gamma", "Delta", "Eps", "Zeta", "Eta", "Theta", "Node", "Tree", "Part", "Item", "Box",
               "Owner", "Leaf", "Robot", "Arm", "Wheel", "Pose", "Link", "World", "Body", "Shape", "Joint"]
FIELD_NAMES = ["a", "b", "c", "x", "y", "z", "size", "title", "count", "flag", "weight", "label", "parent", "child",
               "items", "parts", "left", "right", "owner", "tag", "kind", "level", "when", "color", "mass", "first",
               "second", "other", "peers", "nodes"]
PRIVATE_NAMES = ["_cache", "_tmp", "_hidden", "_x"]
# descriptive long names (class names of 30-45 characters, field names of 20-40 characters) that share long prefixes:
# generated identifiers must stay injective in (class, field) whatever the length of the names
LONG_CLASS_NAMES = [stem + tail
                    for stem in ["EnvironmentalMonitoringStation", "AutonomousWarehouseTransportVehicle",
                                 "HierarchicalTaskNetworkPlannerNode", "SemanticEnvironmentAnnotationRecord",
                                 "KinematicChainConfigurationSnapshot"]
                    for tail in ["", "Cluster", "Registry", "Archive"]]
LONG_FIELD_NAMES = [pre + mid + tail
                    for pre in ["temperature_sensors_", "registered_observation_channels_", "kinematic_chain_segments_"]
                    for mid in ["", "indoor_", "outdoor_"]
                    for tail in ["primary", "secondary", "backup", "north", "south"]
                    if 20 <= len(pre + mid + tail) <= 40]
ENUM_NAMES = ["Color", "Mode", "Grade"]
TM_NAMES = ["Money", "Quantity", "Span"]   # classes persisted through a TypeDecorator (`type_mappings` keys)


def budget(tier: str) -> int:
    return 44 if tier == "quick" else 1500


# ------------------------------------------------------------------------------------------------ case syntax

def _parse(line: str):
    toks = line.replace("(", " ( ").replace(")", " ) ").split()

    def rd(i):
        if toks[i] == "(":
            out = []
            i += 1
            while toks[i] != ")":
                x, i = rd(i)
                out.append(x)
            return out, i + 1
        return toks[i], i + 1

    return rd(0)[0]


def parse_case(line: str) -> dict:
    s = _parse(line)
    assert s[0] == "m"
    d = {"fut": True, "ord": [], "ord2": [], "enums": [], "ek": [], "tm": [], "classes": []}
    for it in s[1:]:
        if it[0] == "fut":
            d["fut"] = it[1] == "T"
        elif it[0] in ("ord", "ord2", "enums", "tm", "ek"):
            d[it[0]] = list(it[1:])
        elif it[0] == "split":
            d["split_real"] = it[1] == "R"
            d["split"] = [int(x) for x in it[2:]]
        elif it[0] == "c":
            fields = []
            for f in it[3:]:
                fields.append((f[0], f[1], f[2] if len(f) > 2 else None))
            d["classes"].append({"name": it[1], "base": None if it[2] == "-" else it[2], "fields": fields})
    names = [c["name"] for c in d["classes"]]
    parts = d.pop("split", None) or []
    for i, c in enumerate(d["classes"]):
        c["part"] = parts[i] if i < len(parts) else 0
    d.setdefault("split_real", False)
    d["ek"] = (d["ek"] + ["plain"] * len(d["enums"]))[:len(d["enums"])]
    if not d["ord"]:
        d["ord"] = list(names)
    if not d["ord2"]:
        d["ord2"] = list(reversed(d["ord"]))
    return d


def show_case(d: dict) -> str:
    parts = ["(fut %s)" % ("T" if d["fut"] else "F"), "(ord %s)" % " ".join(d["ord"]),
             "(ord2 %s)" % " ".join(d["ord2"]), "(enums%s)" % "".join(" " + e for e in d["enums"])]
    for c in d["classes"]:
        fs = "".join(" (%s %s%s)" % (n, k, "" if a is None else " " + a) for n, k, a in c["fields"])
        parts.append("(c %s %s%s)" % (c["name"], c["base"] or "-", fs))
    if any(k != "plain" for k in d.get("ek", [])):
        # flavour of every enum class of `enums` (source only; for the model and the spec an enum is an enum):
        # plain `Enum` | int `IntEnum` | str `(str, Enum)` | strenum `StrEnum`
        parts.append("(ek %s)" % " ".join(d["ek"]))
    if d.get("tm"):
        # keys of ORMatic's `type_mappings` argument (classes persisted through a TypeDecorator), used by a field or not
        parts.append("(tm %s)" % " ".join(d["tm"]))
    if any(c.get("part", 0) for c in d["classes"]):
        # source layout only (the Lean driver ignores it): module index of every class, `R` = references to classes of
        # lower-numbered modules are imported for real, `T` = every cross-module reference is TYPE_CHECKING-only
        parts.append("(split %s %s)" % ("R" if d.get("split_real") else "T",
                                        " ".join(str(c.get("part", 0)) for c in d["classes"])))
    return "(m " + " ".join(parts) + ")"


# ------------------------------------------------------------------------------------------------ module renderer

def _annotation(kind: str, arg, fut: bool, declared: set) -> str:
    def cls(n):  # forward references are strings unless annotations are lazy
        return n if (fut or n in declared) else '"%s"' % n

    if kind == "s":
        return arg
    if kind == "o":
        return "Optional[%s]" % arg
    if kind == "e":
        return arg
    if kind == "oe":
        return "Optional[%s]" % arg
    if kind == "d":
        return "datetime"
    if kind == "od":
        return "Optional[datetime]"
    if kind == "j":
        return "List[%s]" % arg
    if kind == "cu":
        return arg
    if kind == "ocu":
        return "Optional[%s]" % arg
    if kind == "r":
        return cls(arg)
    if kind == "or":
        return "Optional[%s]" % cls(arg)
    if kind == "l":
        return "List[%s]" % cls(arg)
    raise ValueError(kind)


ENUM_FLAVOURS = {"plain": ("Enum", "1", "2"), "int": ("IntEnum", "1", "2"),
                 "str": ("str, Enum", '"first"', '"second"'), "strenum": ("StrEnum", '"first"', '"second"')}


def _enum_source(d: dict) -> list:
    out = []
    for e, k in zip(d["enums"], d.get("ek") or ["plain"] * len(d["enums"])):
        bases, v1, v2 = ENUM_FLAVOURS[k]
        out += ["class %s(%s):" % (e, bases), "    FIRST = %s" % v1, "    SECOND = %s" % v2, "", ""]
    return out


def render_module(d: dict) -> str:
    out = []
    if d["fut"]:
        out.append("from __future__ import annotations")
    out += ["from dataclasses import dataclass", "from datetime import datetime",
            "from enum import Enum, IntEnum, StrEnum", "from typing_extensions import List, Optional"]
    if d.get("tm"):
        out.append("from %s import %s" % (TM_CLASSES, ", ".join(d["tm"])))
    out += ["", ""]
    out += _enum_source(d)
    for u in external_targets(d):
        # a class of the user's module that is not part of the class diagram: fields of this type are not mapped
        out += ["class %s:" % u, "    pass", "", ""]
    declared: set = set(external_targets(d))
    for c in d["classes"]:
        out.append("@dataclass")
        out.append("class %s%s:" % (c["name"], "(%s)" % c["base"] if c["base"] else ""))
        if not c["fields"]:
            out.append("    pass")
        for n, k, a in c["fields"]:
            # the class under definition is not bound yet: a self reference is a forward reference
            out.append("    %s: %s" % (n, _annotation(k, a, d["fut"], declared)))
        declared.add(c["name"])
        out += ["", ""]
    return "\n".join(out)


TM_CLASSES = "c06_value_classes"   # module of the classes that are keys of `type_mappings`
TM_TYPES = "c06_value_columns"     # module of the TypeDecorators they are mapped to


def render_type_mapping_modules(d: dict) -> dict:
    """two extra modules: plain value classes, and one SQLAlchemy TypeDecorator per class (the `type_mappings` values)"""
    a = ["", ""]
    for n in d.get("tm", []):
        a += ["class %s:" % n, "    def __init__(self, text=''):", "        self.text = text", "", ""]
    b = ["from sqlalchemy import String, TypeDecorator", "import %s" % TM_CLASSES, "", ""]
    for n in d.get("tm", []):
        b += ["class %sColumn(TypeDecorator):" % n, "    impl = String(64)", "    cache_ok = True", "",
              "    def process_bind_param(self, value, dialect):",
              "        return None if value is None else value.text", "",
              "    def process_result_value(self, value, dialect):",
              "        return None if value is None else %s.%s(value)" % (TM_CLASSES, n), "", ""]
    return {TM_CLASSES + ".py": "\n".join(a), TM_TYPES + ".py": "\n".join(b)}


def external_targets(d: dict) -> list:
    """reference targets that are not classes of the model (never handed to ORMatic)"""
    names = {c["name"] for c in d["classes"]}
    return sorted({a for c in d["classes"] for _, k, a in c["fields"] if k in ("r", "or") and a not in names})


def is_split(d: dict) -> bool:
    return any(c.get("part", 0) for c in d["classes"])


def render_sources(d: dict, mod: str):
    """(files, where): file name -> source text, class name -> module name.

    One module unless the case has a `split`: then the classes live in modules `<mod>_p<i>` (enums in `<mod>_en`), every
    module uses `from __future__ import annotations`, a base class of another module is imported for real (a subclass
    never lives in a lower-numbered module than its base, so real imports are acyclic) and every other cross-module
    name is imported under `if TYPE_CHECKING:` only — the usual way to write mutually referencing dataclasses in
    several modules."""
    if not is_split(d):
        return {mod + ".py": render_module(d)}, {c["name"]: mod for c in d["classes"]}
    where = {c["name"]: "%s_p%d" % (mod, c["part"]) for c in d["classes"]}
    part_of = {c["name"]: c["part"] for c in d["classes"]}
    files = {}
    if d["enums"]:
        out = ["from enum import Enum, IntEnum, StrEnum", "", ""] + _enum_source(d)
        files[mod + "_en.py"] = "\n".join(out)
    for part in sorted(set(part_of.values())):
        mine = [c for c in d["classes"] if c["part"] == part]
        real, lazy = set(), set()
        for c in mine:
            if c["base"] and part_of.get(c["base"], part) != part:
                real.add(c["base"])
        for c in mine:
            for _, k, a in c["fields"]:
                if k in ("r", "or", "l") and a in part_of and part_of[a] != part and a not in real:
                    if d.get("split_real") and part_of[a] < part:
                        real.add(a)
                    else:
                        lazy.add(a)
        lazy -= real
        out = ["from __future__ import annotations", "from dataclasses import dataclass", "from datetime import datetime",
               "from typing import TYPE_CHECKING", "from typing_extensions import List, Optional"]
        if d.get("tm"):
            out.append("from %s import %s" % (TM_CLASSES, ", ".join(d["tm"])))
        used_enums = sorted({a for c in mine for _, k, a in c["fields"] if k in ("e", "oe")})
        if used_enums:
            out.append("from %s_en import %s" % (mod, ", ".join(used_enums)))
        for n in sorted(real):
            out.append("from %s import %s" % (where[n], n))
        if lazy:
            out.append("")
            out.append("if TYPE_CHECKING:")
            for n in sorted(lazy):
                out.append("    from %s import %s" % (where[n], n))
        out += ["", ""]
        for c in mine:
            out.append("@dataclass")
            out.append("class %s%s:" % (c["name"], "(%s)" % c["base"] if c["base"] else ""))
            if not c["fields"]:
                out.append("    pass")
            for n, k, a in c["fields"]:
                out.append("    %s: %s" % (n, _annotation(k, a, True, set())))
            out += ["", ""]
        files["%s_p%d.py" % (mod, part)] = "\n".join(out)
    return files, where


# ------------------------------------------------------------------------------------------------ ground truth

def _all_fields(d: dict, name: str) -> dict:
    """dataclasses.fields of `name`: name -> (kind, arg), merged along the base chain"""
    by = {c["name"]: c for c in d["classes"]}
    chain = []
    cur = by.get(name)
    seen = set()
    while cur is not None and cur["name"] not in seen:
        seen.add(cur["name"])
        chain.append(cur)
        cur = by.get(cur["base"]) if cur["base"] else None
    res: dict = {}
    for c in reversed(chain):
        for n, k, a in c["fields"]:
            res[n] = (k, a)
    return res


# the class of the column type a field kind demands: b builtin scalar, e enum (every enum.Enum subclass), d datetime,
# j JSON, c custom TypeDecorator, k key
TYPE_CLASS = {"s": "b", "o": "b", "e": "e", "oe": "e", "d": "d", "od": "d", "j": "j", "cu": "c", "ocu": "c"}


def ground_truth(d: dict) -> str:
    """What the property demands, read directly off the generating term (independent of ORMatic and of Lean)."""
    by = {c["name"]: c for c in d["classes"]}
    T, A, R, F = [], [], [], []
    for c in d["classes"]:
        anc_names = set()
        cur = by.get(c["base"]) if c["base"] else None
        seen = set()
        while cur is not None and cur["name"] not in seen:
            seen.add(cur["name"])
            anc_names |= {n for n, _, _ in cur["fields"]}
            cur = by.get(cur["base"]) if cur["base"] else None
        dao = c["name"] + "DAO"
        base = c["base"] + "DAO" if c["base"] in by else "Base"
        cols = ["database_id:k"]
        if c["base"] is None and any(x["base"] == c["name"] for x in d["classes"]):
            cols.append("polymorphic_type:b")
        if base != "Base":
            F.append("%s.database_id>%s" % (dao, base))
        for n, k, a in c["fields"]:
            if n.startswith("_") or n in anc_names:
                continue
            if k in ("s", "e", "d", "j", "cu"):
                cols.append(n + ":" + TYPE_CLASS[k])
            elif k in ("o", "oe", "od", "ocu"):
                cols.append(n + "?:" + TYPE_CLASS[k])
            elif k in ("r", "or") and a in by:
                cols.append(n + "_id" + ("?" if k == "or" else "") + ":k")
                R.append("%s.%s>%sDAO:one" % (dao, n, a))
                F.append("%s.%s_id>%sDAO" % (dao, n, a))
            elif k == "l" and a in by:
                an = "%s_%s_association" % (dao.lower(), n)
                A.append("%s:%s+%sDAO" % (an, dao, a))
                R.append("%s.%s>%sDAO:many@%s" % (dao, n, a, an))
        T.append("%s(%s)<%s:%s" % (dao, c["name"], base, ",".join(sorted(cols))))
    return "ok|T[%s]|A[%s]|R[%s]|F[%s]|P[ok]|D[ok]" % (
        ";".join(sorted(T)), ";".join(sorted(A)), ";".join(sorted(R)), ";".join(sorted(F)))


# ------------------------------------------------------------------------------------------------ worker (subprocess)

_BLOCK = re.compile(r"^(class \w+|\w+ = Table\()")


def _blocks(text: str) -> str:
    """top-level blocks of a generated file, sorted: equality = same file up to the order of classes / tables"""
    blocks, cur = [], []
    for ln in text.splitlines():
        if _BLOCK.match(ln) and cur:
            blocks.append("\n".join(cur).rstrip())
            cur = []
        cur.append(ln)
    if cur:
        blocks.append("\n".join(cur).rstrip())
    return hashlib.sha1("\n\x00".join(sorted(blocks)).encode()).hexdigest()


def _exc_kind(e: BaseException) -> str:
    n = type(e).__name__
    return {"DuplicateColumnError": "dupcol", "MappedAnnotationError": "unresolved"}.get(n, n)


def _generate(where: dict, order, out_path: str, tm=(), again: int = 0):
    import importlib
    from krrood.class_diagrams.class_diagram import ClassDiagram
    from krrood.ormatic.ormatic import ORMatic

    kwargs = {}
    if tm:
        classes, columns = importlib.import_module(TM_CLASSES), importlib.import_module(TM_TYPES)
        kwargs["type_mappings"] = {getattr(classes, n): getattr(columns, n + "Column") for n in tm}
    o = ORMatic(ClassDiagram([getattr(importlib.import_module(where[c]), c) for c in order]), **kwargs)
    o.make_all_tables()
    with open(out_path, "w") as f:
        o.to_sqlalchemy_file(f)
    text = Path(out_path).read_text()
    if again:
        # a second generation from the SAME ORMatic instance (a build script refreshing the interface file, a defensive
        # second `make_all_tables()`): the same model must give the same file
        for i in range(again):
            o.make_all_tables()
            with open(out_path + ".again", "w") as f:
                o.to_sqlalchemy_file(f)
            second = Path(out_path + ".again").read_text()
            os.unlink(out_path + ".again")
            if second != text:
                return text, "second-generation-differs"
        return text, "ok"
    return text


def _type_class(col) -> str:
    """class of the SQL type of a column of the generated layer (read off the configured mapper's table)"""
    import sqlalchemy as sa
    t = col.type
    if col.primary_key or col.foreign_keys:
        return "k"
    if isinstance(t, sa.Enum):  # before String: sqlalchemy.Enum is a String subclass
        return "e"
    if isinstance(t, sa.TypeDecorator):
        return "j" if isinstance(t.impl_instance, sa.JSON) else "c"
    if isinstance(t, sa.JSON):
        return "j"
    if isinstance(t, (sa.DateTime, sa.Date, sa.Time)):
        return "d"
    if isinstance(t, (sa.String, sa.Integer, sa.Numeric, sa.Boolean)):
        return "b"
    return "other<%s>" % type(t).__name__


def _inspect(g, d: dict) -> dict:
    from sqlalchemy.orm import configure_mappers
    from sqlalchemy import create_engine

    res: dict = {}
    try:
        configure_mappers()
    except Exception as e:  # noqa: BLE001
        return {"fail": "configure:" + _exc_kind(e), "detail": str(e)[:300]}
    try:
        engine = create_engine("sqlite:///:memory:")
        g.Base.metadata.create_all(engine)
        from sqlalchemy import inspect as sa_inspect
        created = set(sa_inspect(engine).get_table_names())
        declared = set(g.Base.metadata.tables.keys())
        if created != declared:
            return {"fail": "create:tables-differ"}
    except Exception as e:  # noqa: BLE001
        return {"fail": "create:" + _exc_kind(e), "detail": str(e)[:300]}
    mappers = list(g.Base.registry.mappers)
    mapped_tables = {mp.local_table.name for mp in mappers}
    T, A, R, F = [], [], [], []
    poly_ok = True
    for mp in mappers:
        dao = mp.class_.__name__
        try:
            cls = mp.class_.original_class().__name__
        except Exception as e:  # noqa: BLE001
            cls = "?" + type(e).__name__
        base = mp.inherits.class_.__name__ if mp.inherits is not None else "Base"
        allf = _all_fields(d, cls)
        cols = []
        tbl = mp.local_table
        if tbl.name != dao:
            cols.append("<table:%s>" % tbl.name)
        if mp.inherits is not None and tbl is mp.inherits.local_table:
            cols.append("<single-table>")
        for col in tbl.columns:
            mark = ""
            k = allf.get(col.name, (None, None))[0]
            if k in ("o", "oe", "od", "ocu"):
                mark = "?" if col.nullable else "!"
            elif col.name.endswith("_id") and allf.get(col.name[:-3], (None, None))[0] == "or":
                mark = "?" if col.nullable else "!"
            cols.append(col.name + mark + ":" + _type_class(col))
            for fk in col.foreign_keys:
                F.append("%s.%s>%s" % (tbl.name, col.name, fk.column.table.name))
        T.append("%s(%s)<%s:%s" % (dao, cls, base, ",".join(sorted(cols))))
        for r in mp.relationships:
            if r.parent is not mp:
                continue
            sec = "@" + r.secondary.name if r.secondary is not None else ""
            R.append("%s.%s>%s:%s%s" % (dao, r.key, r.mapper.class_.__name__, "many" if r.uselist else "one", sec))
        in_hierarchy = mp.inherits is not None or len(list(mp.self_and_descendants)) > 1
        if in_hierarchy:
            bm = mp.base_mapper
            if (mp.polymorphic_identity is None or bm.polymorphic_on is None
                    or bm.polymorphic_map.get(mp.polymorphic_identity) is not mp):
                poly_ok = False
    for name, tbl in g.Base.metadata.tables.items():
        if name in mapped_tables:
            continue
        cs = list(tbl.columns)
        if len(cs) == 2 and all(len(c.foreign_keys) == 1 for c in cs):
            A.append("%s:%s+%s" % (name, list(cs[0].foreign_keys)[0].column.table.name,
                                   list(cs[1].foreign_keys)[0].column.table.name))
        else:
            A.append("%s:cols=%s" % (name, ",".join(sorted(c.name for c in cs))))
    return {"T": sorted(T), "A": sorted(A), "R": sorted(R), "F": sorted(F), "P": poly_ok}


def _worker_main(jobfile: str) -> None:
    """runs in a fresh interpreter"""
    import importlib
    import warnings
    warnings.filterwarnings("ignore")
    job = json.loads(Path(jobfile).read_text())
    sys.path.insert(0, job["dir"])
    sys.path.insert(0, job["src"])
    res: dict = {"mode": job["mode"]}
    try:
        import krrood
        kfile = os.path.realpath(krrood.__file__)
        if not kfile.startswith(os.path.realpath(job["src"])):
            res["fail"] = "harness:wrong-krrood:" + kfile
            print("C06RESULT " + json.dumps(res))
            return
        d = job["case"]
        mod = job["module"]
        where = job["where"]
        if job["mode"] == "full":
            try:
                text, res["again"] = _generate(where, d["ord"], os.path.join(job["dir"], mod + "_orm.py"),
                                               d.get("tm", ()), again=2)
            except Exception as e:  # noqa: BLE001
                res["fail"] = "gen:" + _exc_kind(e)
                res["detail"] = str(e)[:300]
                print("C06RESULT " + json.dumps(res))
                return
            res["sha"] = hashlib.sha1(text.encode()).hexdigest()
            res["blocks"] = _blocks(text)
            try:
                g = importlib.import_module(mod + "_orm")
            except Exception as e:  # noqa: BLE001
                res["fail"] = "import:" + _exc_kind(e)
                res["detail"] = str(e)[:300]
                print("C06RESULT " + json.dumps(res))
                return
            res.update(_inspect(g, d))
        else:
            try:
                t1 = _generate(where, d["ord"], os.path.join(job["dir"], mod + "_orm_b.py"), d.get("tm", ()))
                res["sha"] = hashlib.sha1(t1.encode()).hexdigest()
                t2 = _generate(where, d["ord2"], os.path.join(job["dir"], mod + "_orm_c.py"), d.get("tm", ()))
                res["blocks"] = _blocks(t2)
            except Exception as e:  # noqa: BLE001
                res["fail"] = "gen:" + _exc_kind(e)
                res["detail"] = str(e)[:300]
    except Exception as e:  # noqa: BLE001
        res["fail"] = "harness:" + type(e).__name__ + ":" + str(e)[:200]
    print("C06RESULT " + json.dumps(res))


# ------------------------------------------------------------------------------------------------ real code, per case

_HERE = os.path.dirname(os.path.abspath(__file__))
_DETAILS: dict = {}
_GT: dict = {}
_STATS = {"gt_vs_spec_compared": 0, "gt_vs_spec_mismatch": 0, "workers_run": 0}


def _spawn(jobfile: str, hashseed: str, timeout: int = 300) -> dict:
    env = dict(os.environ)
    env["PYTHONHASHSEED"] = hashseed
    env["PYTHONDONTWRITEBYTECODE"] = "1"
    env.setdefault("KRROOD_VERIF", "1")
    code = ("import sys; sys.path[:0]=[%r,%r]; import c06; c06._worker_main(sys.argv[1])"
            % (_HERE, os.path.dirname(_HERE)))
    p = subprocess.run([sys.executable, "-W", "ignore", "-c", code, jobfile], capture_output=True, text=True,
                       timeout=timeout, env=env, cwd=os.path.dirname(jobfile))
    _STATS["workers_run"] += 1
    for ln in reversed(p.stdout.splitlines()):
        if ln.startswith("C06RESULT "):
            return json.loads(ln[len("C06RESULT "):])
    return {"fail": "harness:no-result:rc=%s:%s" % (p.returncode, (p.stderr or "")[-300:].replace("\n", " "))}


def _observe(d: dict, line: str) -> str:
    from core import REPO
    tmp = tempfile.mkdtemp(prefix="krrood_c06_")
    try:
        mod = "c06m_" + hashlib.sha1(line.encode()).hexdigest()[:10]
        files, where = render_sources(d, mod)
        if d.get("tm"):
            files.update(render_type_mapping_modules(d))
        for fn, text in files.items():
            Path(tmp, fn).write_text(text)
        job = {"dir": tmp, "src": str(REPO / "src"), "module": mod, "where": where, "case": d, "mode": "full"}
        Path(tmp, "job1.json").write_text(json.dumps(job))
        r1 = _spawn(os.path.join(tmp, "job1.json"), "11")
        if str(r1.get("fail", "")).startswith("harness:"):  # the worker itself broke: once more, then give up
            r1 = _spawn(os.path.join(tmp, "job1.json"), "11")
        if "fail" in r1:
            _DETAILS[line] = r1.get("detail", "")
            return "fail:" + r1["fail"]
        job["mode"] = "regen"
        Path(tmp, "job2.json").write_text(json.dumps(job))
        r2 = _spawn(os.path.join(tmp, "job2.json"), "4242")
        if r1.get("again", "ok") != "ok":
            det = r1["again"]
        elif "fail" in r2:
            det = "regen-" + r2["fail"]
        elif r2.get("sha") != r1.get("sha"):
            det = "bytes-differ"
        elif r2.get("blocks") != r1.get("blocks"):
            det = "order-dependent"
        else:
            det = "ok"
        return "ok|T[%s]|A[%s]|R[%s]|F[%s]|P[%s]|D[%s]" % (
            ";".join(r1["T"]), ";".join(r1["A"]), ";".join(r1["R"]), ";".join(r1["F"]),
            "ok" if r1["P"] else "bad", det)
    finally:
        shutil.rmtree(tmp, ignore_errors=True)


def _one(case) -> str:
    try:
        d = parse_case(case.line)
        _GT[case.line] = ground_truth(d)
        return _observe(d, case.line)
    except subprocess.TimeoutExpired:
        return "exc:worker-timeout"
    except Exception as e:  # noqa: BLE001
        return "exc:" + type(e).__name__ + ":" + str(e)[:120].replace("\t", " ").replace("\n", " ")


def run_impl(cases):
    if not cases:
        return []
    with ThreadPoolExecutor(max_workers=min(WORKERS, len(cases))) as ex:
        obs = list(ex.map(_one, cases))
    broken = [o for o in obs if o.startswith("fail:harness:")]
    if broken:
        # the subprocess machinery failed (no result line, wrong krrood on sys.path): that says nothing about /repo
        from core import CheckBroken
        raise CheckBroken("C06 worker failed: " + broken[0][:300])
    return obs


def nontrivial(case, spec: str) -> bool:
    gt = _GT.get(case.line)
    if gt is not None:
        _STATS["gt_vs_spec_compared"] += 1
        if gt != spec:
            _STATS["gt_vs_spec_mismatch"] += 1
    d = parse_case(case.line)
    nfields = sum(1 for c in d["classes"] for n, _, _ in c["fields"] if not n.startswith("_"))
    return len(d["classes"]) >= 2 or nfields >= 3


def extra_coverage():
    return {"python_ground_truth_vs_lean_spec": dict(_STATS)}


# ------------------------------------------------------------------------------------------------ generator

def _topo_shuffle(rng, classes):
    """a random declaration order in which every base precedes its subclasses"""
    rest = list(classes)
    rng.shuffle(rest)
    out, placed = [], set()
    while rest:
        for c in rest:
            if c["base"] is None or c["base"] in placed:
                out.append(c)
                placed.add(c["name"])
                rest.remove(c)
                break
    return out


def _random_model(rng, shape: str) -> dict:
    n = rng.choice([1, 2, 2, 3, 3, 3, 4, 4, 5, 6])
    if shape in ("mutual", "multi-coll", "deep", "long-names", "hier-refs") and n < 2:
        n = 2
    if shape == "deep" and n < 3:
        n = 3
    if shape == "hier-refs" and n < 3 and rng.random() < 0.7:
        n = 3
    # descriptive long class / field names (always in the shape `long-names`, now and then in every other shape)
    long_names = shape == "long-names" or rng.random() < 0.12
    names = rng.sample(LONG_CLASS_NAMES if long_names else CLASS_NAMES, n)
    enums = rng.sample(ENUM_NAMES, rng.choice([0, 1, 1, 2]))
    if shape == "enum-flavours" and not enums:
        enums = rng.sample(ENUM_NAMES, rng.choice([1, 2, 3]))
    flavour = {e: rng.choice(["plain", "plain", "int", "str", "strenum"]) for e in enums}
    if shape == "enum-flavours":
        flavour = {e: rng.choice(["int", "str", "strenum"]) for e in enums}
    # the `type_mappings` argument: 0-3 keys; fields may use some of them, the others stay unused entries
    tm = rng.sample(TM_NAMES, rng.choice([1, 2, 3])) if (shape == "type-mappings" or rng.random() < 0.2) else []
    tm_used = tm[:rng.choice([0, 1, len(tm)])] if tm else []
    if shape == "type-mappings" and not tm_used and rng.random() < 0.6:
        tm_used = tm[:1]
    classes = []
    for i, nm in enumerate(names):
        base = None
        if i > 0:
            if shape in ("deep", "hier-refs"):
                base = names[i - 1] if i < 4 else rng.choice(names[:i])
            elif rng.random() < 0.4:
                base = rng.choice(names[:i])
        classes.append({"name": nm, "base": base, "fields": []})
    by = {c["name"]: c for c in classes}

    def inherited(c):
        res = {}
        cur = by.get(c["base"]) if c["base"] else None
        while cur is not None:
            for f in cur["fields"]:
                res.setdefault(f[0], f)
            cur = by.get(cur["base"]) if cur["base"] else None
        return res

    for c in classes:
        k = rng.choice([0, 1, 2, 2, 3, 3, 4, 5])
        pool = [f for f in (LONG_FIELD_NAMES if long_names else FIELD_NAMES)]
        rng.shuffle(pool)
        inh = inherited(c)
        used = set()
        for _ in range(k):
            r = rng.random()
            if r < 0.08:
                fname = rng.choice(PRIVATE_NAMES)
            elif r < 0.14 and inh:
                # redefine an inherited field (same annotation): it must stay on the ancestor's DAO
                g = inh[rng.choice(sorted(inh))]
                if g[0] not in used:
                    used.add(g[0])
                    c["fields"].append(g)
                continue
            else:
                fname = pool.pop()
            if fname in used:
                continue
            used.add(fname)
            kind = rng.choices(
                ["s", "o", "e", "oe", "d", "od", "j", "r", "or", "l", "cu", "ocu"],
                weights=[22, 12, (18 if shape == "enum-flavours" else 6) if enums else 0,
                         (12 if shape == "enum-flavours" else 3) if enums else 0, 5, 3, 8, 12, 12, 14,
                         10 if tm_used else 0, 8 if tm_used else 0])[0]
            arg = None
            if kind in ("cu", "ocu"):
                arg = rng.choice(tm_used)
            if kind in ("s", "o", "j"):
                arg = rng.choice(SCALARS)
            elif kind in ("e", "oe"):
                arg = rng.choice(enums)
            elif kind in ("r", "or", "l"):
                others = [x for x in names if x != c["name"]]
                if kind == "l":
                    # a collection of the class itself is F-C06-1: only the explicit shape `self-coll` makes one
                    if others:
                        arg = rng.choice(others)
                    else:
                        kind, arg = "j", rng.choice(SCALARS)
                else:
                    arg = rng.choice(names) if rng.random() < 0.25 or not others else rng.choice(others)
            c["fields"].append((fname, kind, arg))
    # forced shapes
    if shape == "mutual":
        a, b = classes[0], classes[1]
        a["fields"].append(("peer", rng.choice(["r", "or"]), b["name"]))
        b["fields"].append(("back", rng.choice(["r", "or"]), a["name"]))
    if shape == "multi-coll":
        a, b = classes[0], classes[1]
        for fn in rng.sample(["firsts", "seconds", "thirds"], rng.choice([2, 3])):
            a["fields"].append((fn, "l", b["name"]))
    if shape == "long-names":
        # several collections of one class whose names differ only near their end
        a = rng.choice(classes)
        pre = rng.choice(["temperature_sensors_", "registered_observation_channels_", "kinematic_chain_segments_"])
        group = [f for f in LONG_FIELD_NAMES if f.startswith(pre)]
        others = [x["name"] for x in classes if x is not a]
        tgt = rng.choice(others)
        for fn in rng.sample(group, rng.choice([2, 3, 4])):
            a["fields"].append((fn, "l", tgt if rng.random() < 0.7 else rng.choice(others)))
    if shape == "hier-refs":
        # references INSIDE one inheritance chain: from a class to its own direct subclass (with and without a reference
        # back), to a grandchild, from a subclass to an ancestor — every such reference is a second foreign-key path
        # between two tables that are already joined by the inheritance key
        def ancestors_of(c):
            res, cur = [], by.get(c["base"]) if c["base"] else None
            while cur is not None:
                res.append(cur)
                cur = by.get(cur["base"]) if cur["base"] else None
            return res
        pairs = [(a, c) for c in classes for a in ancestors_of(c)]  # (ancestor, descendant)
        rng.shuffle(pairs)
        down_names = ["kid", "heir", "lower", "deep"]
        up_names = ["up", "elder", "upper", "root"]
        for i, (a, c) in enumerate(pairs[:rng.choice([1, 2, 2, 3, 4])]):
            mode = rng.choice(["down", "down", "up", "both", "both"])
            if mode in ("down", "both"):
                a["fields"].append((down_names[i % 4] + ("s" if i > 3 else ""), rng.choice(["r", "or", "or", "l"]), c["name"]))
            if mode in ("up", "both"):
                c["fields"].append((up_names[i % 4] + ("s" if i > 3 else ""), rng.choice(["r", "or", "or", "l"]), a["name"]))
    if shape == "enum-flavours" and not any(f[1] in ("e", "oe") for c in classes for f in c["fields"]):
        rng.choice(classes)["fields"].append(("state", rng.choice(["e", "oe"]), rng.choice(enums)))
    if shape == "self-ref":
        c = rng.choice(classes)
        c["fields"].append(("previous", rng.choice(["r", "or"]), c["name"]))
    if shape == "self-coll":
        c = rng.choice(classes)
        if not any(k == "l" and a == c["name"] for _, k, a in c["fields"]):
            c["fields"].append(("children", "l", c["name"]))
    if shape == "no-builtin":
        for c in classes:
            c["fields"] = [f for f in c["fields"] if f[1] not in ("s", "o")]
    elif shape != "self-coll" or rng.random() < 0.7:
        # make sure some table gets a builtin column (otherwise the case is F-C06-2)
        if not any(f[1] in ("s", "o") and not f[0].startswith("_") for c in classes for f in c["fields"]):
            c = rng.choice(classes)
            c["fields"].insert(0, ("ident", "s", "int"))
    if shape != "no-builtin" and rng.random() < 0.12:
        # a field whose type is a class of the user's module that is not handed to ORMatic: nothing is mapped for it
        rng.choice(classes)["fields"].append(("ext", rng.choice(["r", "or"]), rng.choice(["Unmapped", "Foreign"])))
    # de-duplicate names inside each class (forced fields may collide)
    for c in classes:
        seen, fs = set(), []
        for f in c["fields"]:
            if f[0] not in seen:
                seen.add(f[0])
                fs.append(f)
        c["fields"] = fs
    decl = _topo_shuffle(rng, classes)
    order = [c["name"] for c in decl]
    rng.shuffle(order)
    order2 = list(order)
    rng.shuffle(order2)
    if order2 == order:
        order2 = list(reversed(order))
    if tm_used and not any(f[1] in ("cu", "ocu") for c in classes for f in c["fields"]):
        rng.choice(classes)["fields"].append(("worth", rng.choice(["cu", "ocu"]), tm_used[0]))
    return {"fut": rng.random() < 0.5, "ord": order, "ord2": order2, "enums": sorted(enums),
            "ek": [flavour[e] for e in sorted(enums)], "tm": sorted(tm), "classes": decl}


SHAPES = ["plain", "hier-refs", "long-names", "deep", "type-mappings", "mutual", "multi-coll", "self-ref", "plain",
          "hier-refs", "no-builtin", "type-mappings", "self-coll", "deep", "enum-flavours"]


def _assign_parts(rng, d: dict) -> None:
    """spread the classes of a model over 2-3 modules (a subclass never below its base) and make sure some class
    refers to classes of other modules"""
    classes = d["classes"]
    nparts = 2 if len(classes) < 4 or rng.random() < 0.6 else 3
    by = {c["name"]: c for c in classes}
    for c in classes:  # declaration order: bases first
        lo = by[c["base"]]["part"] if c["base"] in by else 0
        c["part"] = rng.randrange(lo, nparts)
    if not any(c["part"] for c in classes):
        leaves = [c for c in classes if not any(x["base"] == c["name"] for x in classes)]
        rng.choice(leaves)["part"] = 1
    if len({c["part"] for c in classes}) == 1:
        classes[0]["part"] = 0  # the first declared class is a root
    d["split_real"] = rng.random() < 0.4
    d["fut"] = True
    # half of the layouts get a class that names two classes of other modules (if it has none yet)
    def foreign(c):
        return {a for _, k, a in c["fields"] if k in ("r", "or", "l") and by[a]["part"] != c["part"]}
    if rng.random() < 0.5 and not any(len(foreign(c)) >= 2 for c in classes):
        cands = [c for c in classes if len([x for x in classes if x["part"] != c["part"]]) >= 2]
        if cands:
            c = rng.choice(cands)
            x, y = rng.sample([x for x in classes if x["part"] != c["part"]], 2)
            c["fields"].append(("remote", rng.choice(["r", "or"]), x["name"]))
            c["fields"].append(("remotes", "l", y["name"]))


# A small fixed family of multi-module layouts: mutually referencing dataclasses in two / three modules whose
# cross-module names are visible under TYPE_CHECKING only (one such name; two in one class; two, one of them inherited;
# three; a collection of and a reference to the same foreign class).
SPLIT_FAMILY = [
    # the two-module "garage": Car needs Engine and Wheel (both TYPE_CHECKING-only), the parts import Car for real
    "(m (fut T) (ord Car Engine Wheel) (ord2 Wheel Car Engine) (enums) (c Car - (title s str) (engine or Engine) "
    "(wheels l Wheel)) (c Engine - (power s int) (car or Car)) (c Wheel - (size s int) (car or Car)) (split R 0 1 1))",
    # every cross reference lazy, in both directions, registration order reversed
    "(m (fut T) (ord Wheel Engine Car) (ord2 Engine Car Wheel) (enums) (c Car - (title s str) (engine or Engine) "
    "(wheels l Wheel)) (c Engine - (power s int) (car or Car)) (c Wheel - (size s int) (car r Car)) (split T 0 1 1))",
    # one lazy name only
    "(m (fut T) (ord Owner Item) (ord2 Item Owner) (enums) (c Owner - (count s int) (items l Item)) "
    "(c Item - (size s float)) (split T 0 1))",
    # two lazy names, one of them on the inherited field of a base that lives in another module
    "(m (fut T) (ord Node Link Body World) (ord2 World Body Link Node) (enums) (c Node - (x s int) (link or Link)) "
    "(c Link - (weight s float) (left r Node)) (c Body Node (world or World) (peers l Link)) "
    "(c World - (title s str) (nodes l Node)) (split T 0 1 1 2))",
    # three modules, three lazy names in one class
    "(m (fut T) (ord Robot Arm Wheel Pose) (ord2 Pose Wheel Arm Robot) (enums Mode) (c Robot - (mode e Mode) "
    "(arm r Arm) (wheels l Wheel) (pose or Pose)) (c Arm - (size s int) (owner or Robot)) "
    "(c Wheel - (mass o float)) (c Pose - (when d) (robot or Robot)) (split T 0 1 2 2))",
]


# A fixed family about identifier length: long descriptive names whose `<daoname>_<field>` agree in their first 51 (and
# more) characters, several collections of one class, of one and of two targets, with inheritance.
NAME_FAMILY = [
    "(m (fut F) (ord EnvironmentalMonitoringStation Sensor) (ord2 Sensor EnvironmentalMonitoringStation) (enums) "
    "(c Sensor - (serial_number s str) (calibrated s bool)) (c EnvironmentalMonitoringStation - (title s str) "
    "(temperature_sensors_indoor l Sensor) (temperature_sensors_outdoor l Sensor) (backup or Sensor)))",
    "(m (fut T) (ord AutonomousWarehouseTransportVehicleRegistry AutonomousWarehouseTransportVehicle "
    "AutonomousWarehouseTransportVehicleCluster) (ord2 AutonomousWarehouseTransportVehicleCluster "
    "AutonomousWarehouseTransportVehicleRegistry AutonomousWarehouseTransportVehicle) (enums) "
    "(c AutonomousWarehouseTransportVehicle - (count s int) "
    "(registered_observation_channels_indoor_primary l AutonomousWarehouseTransportVehicleCluster)) "
    "(c AutonomousWarehouseTransportVehicleCluster AutonomousWarehouseTransportVehicle "
    "(registered_observation_channels_indoor_backup l AutonomousWarehouseTransportVehicle) "
    "(registered_observation_channels_outdoor_backup l AutonomousWarehouseTransportVehicleRegistry)) "
    "(c AutonomousWarehouseTransportVehicleRegistry - (kinematic_chain_segments_primary or "
    "AutonomousWarehouseTransportVehicle) (kinematic_chain_segments_secondary or AutonomousWarehouseTransportVehicle) "
    "(kinematic_chain_segments_north l AutonomousWarehouseTransportVehicle) "
    "(kinematic_chain_segments_south l AutonomousWarehouseTransportVehicle)))",
]


# A fixed family about references inside one inheritance chain (A <- B <- C): a class refers to its own direct subclass
# without a reference back; to a subclass that has subclasses itself, and to a grandchild; subclasses refer to their
# ancestors; parent and child refer to each other, by reference and by collection.
HIER_FAMILY = [
    "(m (fut T) (ord A B) (ord2 B A) (enums) (c A - (x s int) (kid or B)) (c B A (y s int)))",
    "(m (fut F) (ord C A B) (ord2 B C A) (enums) (c A - (x s int) (mid r B) (leaf or C)) (c B A (y s int)) "
    "(c C B (z s int)))",
    "(m (fut T) (ord B C A) (ord2 A B C) (enums) (c A - (x s int)) (c B A (y s int) (up or A)) "
    "(c C B (z s int) (top r A) (mid or B)))",
    "(m (fut T) (ord A B C) (ord2 C B A) (enums) (c A - (x s int) (kid or B) (kids l B) (deep l C)) "
    "(c B A (y s int) (up r A) (ups l A)) (c C B (z s int) (elder or B)))",
]


# A fixed family about the `type_mappings` argument: a used key, an Optional use, a key no field uses, only unused keys.
TM_FAMILY = [
    "(m (fut T) (ord Item Owner) (ord2 Owner Item) (enums) (c Item - (size s int) (price cu Money) (rebate ocu Money)) "
    "(c Owner - (title s str) (budget ocu Quantity) (items l Item)) (tm Money Quantity Span))",
    "(m (fut F) (ord Box) (ord2 Box) (enums) (c Box - (count s int) (label o str)) (tm Money))",
]


def _tags(d: dict, shape: str):
    tags = [shape, "classes=%d" % len(d["classes"]), "fut" if d["fut"] else "nofut"]
    longest = max([len("%sdao_%s_association" % (c["name"], n)) for c in d["classes"] for n, k, _ in c["fields"]
                   if k == "l"] or [0])
    if longest > 63:
        tags.append("assoc-name-longer-than-63")
    if max(len(c["name"]) for c in d["classes"]) >= 30:
        tags.append("long-class-names")
    kinds = {k for c in d["classes"] for _, k, _ in c["fields"]}
    tags += ["kind:" + k for k in sorted(kinds)]
    used_enums = {a for c in d["classes"] for _, k, a in c["fields"] if k in ("e", "oe")}
    tags += ["enum:" + k for e, k in sorted(zip(d["enums"], d.get("ek", []))) if e in used_enums]
    if any(c["base"] for c in d["classes"]):
        tags.append("inheritance")
    by0 = {c["name"]: c for c in d["classes"]}

    def _anc(n):
        res, cur = set(), by0[n]["base"]
        while cur in by0 and cur not in res:
            res.add(cur)
            cur = by0[cur]["base"]
        return res
    for c in d["classes"]:
        for _, k, a in c["fields"]:
            if k in ("r", "or", "l") and a in by0:
                if c["name"] in _anc(a):
                    tags.append("ref-to-descendant" + ("-grandchild" if by0[a]["base"] != c["name"] else ""))
                elif a in _anc(c["name"]):
                    tags.append("ref-to-ancestor")
    tags = list(dict.fromkeys(tags))
    if external_targets(d):
        tags.append("ref-to-unmapped-class")
    if d.get("tm"):
        used = {a for c in d["classes"] for _, k, a in c["fields"] if k in ("cu", "ocu")}
        tags.append("type-mappings=%d" % len(d["tm"]))
        if set(d["tm"]) - used:
            tags.append("type-mappings-unused-entry")
    if is_split(d):
        by = {c["name"]: c["part"] for c in d["classes"]}
        lazy = max((len({a for _, k, a in c["fields"] if k in ("r", "or", "l") and by.get(a, c["part"]) != c["part"]})
                    for c in d["classes"]), default=0)
        tags += ["modules=%d" % len(set(by.values())), "cross-module-names-in-one-class=%d" % min(lazy, 3)]
    return tuple(tags)


def generate(rng, tier, n):
    cases = [Case(show_case(parse_case(l)), _tags(parse_case(l), "split-family"), "exhaustive") for l in SPLIT_FAMILY]
    cases += [Case(show_case(parse_case(l)), _tags(parse_case(l), "name-family"), "exhaustive") for l in NAME_FAMILY]
    cases += [Case(show_case(parse_case(l)), _tags(parse_case(l), "hier-family"), "exhaustive") for l in HIER_FAMILY]
    cases += [Case(show_case(parse_case(l)), _tags(parse_case(l), "tm-family"), "exhaustive") for l in TM_FAMILY]
    for i in range(n):
        shape = SHAPES[i % len(SHAPES)] if i < 2 * len(SHAPES) else rng.choice(SHAPES)
        d = _random_model(rng, shape)
        # every third model (with at least two classes) is laid out over several modules
        if len(d["classes"]) >= 2 and i % 3 == 1 and not external_targets(d):
            _assign_parts(rng, d)
        cases.append(Case(show_case(d), _tags(d, shape), "random"))
    return cases


def shrink(case):
    d = parse_case(case.line)
    out = []
    names = [c["name"] for c in d["classes"]]

    def mk(dd):
        keep = [c["name"] for c in dd["classes"]]
        dd["ord"] = [x for x in dd["ord"] if x in keep]
        dd["ord2"] = [x for x in dd["ord2"] if x in keep]
        used = {a for c in dd["classes"] for _, k, a in c["fields"] if k in ("e", "oe")}
        ek = dict(zip(dd["enums"], dd.get("ek") or []))
        dd["enums"] = [e for e in dd["enums"] if e in used]
        dd["ek"] = [ek.get(e, "plain") for e in dd["enums"]]
        return Case(show_case(dd), case.tags, "shrink")

    if is_split(d):
        dd = json.loads(json.dumps(d))
        for c in dd["classes"]:
            c["part"] = 0
        out.append(mk(dd))
    for nme in names:
        # drop a class nobody needs
        needed = any(c["base"] == nme or any(a == nme and k in ("r", "or", "l") for _, k, a in c["fields"])
                     for c in d["classes"] if c["name"] != nme)
        if not needed and len(names) > 1:
            dd = json.loads(json.dumps(d))
            dd["classes"] = [c for c in dd["classes"] if c["name"] != nme]
            out.append(mk(dd))
    for ci, c in enumerate(d["classes"]):
        for fi in range(len(c["fields"])):
            dd = json.loads(json.dumps(d))
            del dd["classes"][ci]["fields"][fi]
            out.append(mk(dd))
        if c["base"] is not None:
            dd = json.loads(json.dumps(d))
            dd["classes"][ci]["base"] = None
            out.append(mk(dd))
    if d["fut"] and not is_split(d):
        dd = json.loads(json.dumps(d))
        dd["fut"] = False
        out.append(mk(dd))
    for i, k in enumerate(d.get("ek", [])):
        if k != "plain":
            dd = json.loads(json.dumps(d))
            dd["ek"][i] = "plain"
            out.append(mk(dd))
    return out
