"""C10 — queries are lazy: building evaluates nothing, consuming pulls only what it needs.

Every domain is a logging one-shot generator, every attribute/method of the user objects logs its access.
Per query and per k: (i) the log is empty after construction, (ii) the first k results are a prefix of the full
sequence, (iii) the number of elements pulled from each domain after k results — compared as a refinement
inequality (implementation <= demand-driven trace model), so pulling less or reading in another order never alarms."""
from __future__ import annotations

import re

import eqlgen as G
from core import Case

PID = "C10"
LEAN_MODULES = ["KrroodVerif.Props.C10", "KrroodVerif.Props.C10Q", "KrroodVerif.Props.C10N", "KrroodVerif.Props.C09Lazy"]
THEOREMS = [
    "KrroodVerif.Eql.C10_trace_vis",
    "KrroodVerif.Eql.C10_trace_rows",
    "KrroodVerif.Eql.C10_trace_hasErr",
    "KrroodVerif.Eql.C10_query_rows",
    "KrroodVerif.Eql.C10_query_noErr",
    "KrroodVerif.Eql.C10_prefix",
    "KrroodVerif.Eql.C10_prefix_succ",
    "KrroodVerif.Eql.C10_prefix_query",
    "KrroodVerif.Eql.C10_pulled_mono",
    "KrroodVerif.Eql.C10_pull_in_range",
    "KrroodVerif.Eql.C10_pulled_le_domain",
    "KrroodVerif.Eql.C10_pulled_upto_le_domain",
    "KrroodVerif.Eql.C10_continuity",
    "KrroodVerif.Eql.C10_continuity_prefix",
    "KrroodVerif.Eql.C10_continuity_rows",
    "KrroodVerif.Eql.C10_continuity_trace",
    "KrroodVerif.Quant.C09_consumed",
    "KrroodVerif.Quant.C09_consumed_upper",
    "KrroodVerif.Eql.C10Q_exists_vis",
    "KrroodVerif.Eql.C10Q_exists_rows",
    "KrroodVerif.Eql.C10Q_existsWalk_vis",
    "KrroodVerif.Eql.C10Q_forall_filter",
    "KrroodVerif.Eql.C10Q_forall_vis",
    "KrroodVerif.Eql.C10Q_forall_rows",
    "KrroodVerif.Eql.C10Q_query_vis",
    "KrroodVerif.Eql.C10Q_query_rows",
    "KrroodVerif.Eql.C10Q_prefix_query",
    "KrroodVerif.Eql.C10Q_body_never_pulls_bound",
    "KrroodVerif.Eql.C10Q_forAllLoop_pulls_le",
    "KrroodVerif.Eql.C10Q_forAllLoop_early_stop",
    "KrroodVerif.Eql.C10Q_forall_early_exit",
    "KrroodVerif.Eql.C10Q_forall_pulled_exact",
    "KrroodVerif.Eql.C10Q_forall_partial_pull_no_rows",
    "KrroodVerif.Eql.C10Q_sel_bound_vars",
    "KrroodVerif.Eql.C10Q_existsWalk_nonrow",
    "KrroodVerif.Eql.C10Q_exists_nonrow",
    "KrroodVerif.Eql.C10Q_exists_nonrow'",
    "KrroodVerif.Eql.C10Q_exists_streaming",
    "KrroodVerif.Eql.C10Q_exists_streaming_var",
    "KrroodVerif.Eql.C10Q_pull_in_range",
    "KrroodVerif.Eql.C10Q_pulled_le_domain",
    "KrroodVerif.Eql.C10N_extends",
    "KrroodVerif.Eql.C10N_extends_query",
    "KrroodVerif.Eql.C10N_trace_vis",
    "KrroodVerif.Eql.C10N_stream_cells",
    "KrroodVerif.Eql.C10N_trace_rows",
    "KrroodVerif.Eql.C10N_query_vis",
    "KrroodVerif.Eql.C10N_rows",
    "KrroodVerif.Eql.C10N_prefix",
    "KrroodVerif.Eql.C10N_pulled_mono",
    "KrroodVerif.Eql.C10N_streaming",
    "KrroodVerif.Eql.C10N_streaming_query",
    "KrroodVerif.Eql.C10N_streaming_var",
    "KrroodVerif.Eql.C10N_streaming_all",
    "KrroodVerif.Eql.C10N_exists_stream",
    "KrroodVerif.Eql.C10N_exists_prefix",
    "KrroodVerif.Eql.C10N_exists_adds_nothing",
    "KrroodVerif.Eql.C10N_forall_blocking",
    "KrroodVerif.Eql.C10N_forall_early_exit",
    "KrroodVerif.Eql.C10N_forall_stops",
    "KrroodVerif.Eql.C10N_forall_step",
    "KrroodVerif.Eql.C10N_never_pulls_bound",
    "KrroodVerif.Eql.C10N_body_never_pulls_quantified",
    "KrroodVerif.Eql.C10N_forall_early_exit_pulled",
    "KrroodVerif.Eql.C10N_pull_in_range",
    "KrroodVerif.Eql.C10N_pulled_le_domain",
]

def extra_obligations():
    """translator tie for the evaluation methods `Eql.eval` transcribes (shared with C01 / C02): the IR regenerated from the
    current `symbolic.py` is `Eql.IR.irTable` (harness/translate/c01_translate.py)"""
    from translate import c01_translate as T
    return T.obligations(PID)


MODEL_FUNCTION = ("Eql.traceQuery / Eql.traceE / Eql.uptoRow / Eql.pulled (Model/EqlTrace.lean); Eql.traceExistsRoot / "
                  "Eql.traceForAllRoot (Model/EqlTraceQ.lean); Eql.traceN / Eql.traceQueryN / Eql.existsWalkN / "
                  "Eql.traceForAllN (Model/EqlTraceN.lean: quantifiers in any position)")
TRUSTED = [
    "Lean 4.33 kernel; axioms of each theorem listed under coverage.theorems",
    "hand-written trace model Model/EqlTrace.lean (continuation-passing transcription of symbolic.py evaluation)",
    "hand-written Model/EqlTraceN.lean (Exists / ForAll in any position as walks over the child's event stream; "
    "validated per run: pull counts per domain and per k equal to the real engine's on every sampled query)",
    "this correspondence harness (logging generators / attribute access), the S-expression driver",
]
ASSUMPTIONS = [
    "CPython generator protocol: a suspended generator performs no work until next() is called",
    "queries are tree-shaped; quantifiers may occur anywhere below and_/or_/not_ and below each other (Model/EqlTraceN.lean)",
]
RULE = ("corpus, then quantifiers below and_/or_/not_ and inside other quantifiers (hand-shaped positions + the shared "
        "generator's quantified trees), random root-level exists/for_all over quantifier-free bodies and random quantifier-free condition trees (depth<=3, 1-3 variables, int/object domains as one-shot "
        "logging generators); each query is rebuilt and consumed for every k in 0..n+1, each time followed by a second evaluation of the same object of which one result is taken; non-trivial = the query has "
        ">=2 results and some domain is not fully pulled at k=1; distinct by case text")

LOG = []


class LP(G.P):
    def __getattribute__(self, name):
        if name in ("a", "f", "items", "dbl"):
            LOG.append(("read", name))
        return object.__getattribute__(self, name)


class LE(G.E):
    __hash__ = None

    def __getattribute__(self, name):
        if name in ("a", "f", "items", "dbl"):
            LOG.append(("read", name))
        return object.__getattribute__(self, name)


def budget(tier: str) -> int:
    return 800 if tier == "quick" else 12000


def generate(rng, tier, n):
    out = []
    import core
    core.use_repo_sources()
    import props.c10_build as B
    for k in range(B.count()):
        out.append(Case(f"(silent {k})", ("construction", B._S[k].__name__), "exhaustive"))
    # flatten over generator-valued attributes: inner elements must be consumed on demand too
    for _ in range(max(20, n // 20)):
        objs = [[rng.randrange(0, 4) for _ in range(rng.randrange(0, 5))] for _ in range(rng.randrange(1, 4))]
        lit = sorted(rng.sample(range(0, 4), rng.randrange(1, 3)))
        line = "(flat (objs " + " ".join("(" + " ".join(map(str, xs)) + ")" for xs in objs) + ") (lit " + " ".join(map(str, lit)) + "))"
        out.append(Case(line, ("flatten-generator",), "random"))
    # result-count constraints that ARE violated: the evaluation must stop pulling with the element that reveals it
    for kind in ("exactly", "atMost", "atLeast", "the"):
        for v in ((1,) if kind == "the" else range(0, 4)):
            for k in range(0, 7):
                out.append(Case(f"(qpulls {kind} {v} {k})", ("quantified-pulls", kind), "exhaustive"))
    # a quantifier at the root over a quantifier-free body: exists hands a witness on the moment it is found, for_all
    # stops pulling the universal variable once no candidate is left
    del ROOTQ[:]
    for _ in range(max(60, n // 5)):
        q = gen_root_quantifier(rng)
        tags = ["root-" + q["cond"][0], "nsel%d" % len(q["sel"]), "nvars%d" % len(q["doms"])] + sorted(set(G.cond_ops(q["cond"])))
        out.append(Case(G.sx_query(q), tuple(tags), "random", q))
        ROOTQ.append(out[-1])
    # quantifiers BELOW other operators and below each other (Model/EqlTraceN.lean, Props/C10N.lean): hand-shaped
    # positions (half) and the quantified trees of the shared generator that are not root-only (half)
    del NESTED[:]
    want = max(120, n // 4)
    while len(NESTED) < want:
        if len(NESTED) % 2 == 0:
            q = gen_nested_quantifier(rng)
        else:
            q = G.gen_query(rng, quantifiers=True)
            if not is_nested(q["cond"]):
                continue
        tags = (["nested", "nested-" + nested_position(q["cond"]), "nsel%d" % len(q["sel"]), "nvars%d" % len(q["doms"])]
                + sorted(set(G.cond_ops(q["cond"]))))
        case = Case(G.sx_query(q), tuple(tags), "random", q)
        NESTED.append(case)
        out.append(case)
    while len(out) < n:
        q = G.gen_query(rng, quantifiers=False)
        ops = G.cond_ops(q["cond"])
        tags = ["depth%d" % G.cond_depth(q["cond"]), "nsel%d" % len(q["sel"]), "nvars%d" % len(q["doms"])] + sorted(set(ops))
        out.append(Case(G.sx_query(q), tuple(tags), "random", q))
    return out


def gen_root_quantifier(rng):
    nv = rng.choice([1, 1, 2])
    vs = ["x", "y"][:nv]
    falsy = rng.random() < 0.4
    lo = 0 if falsy else 1
    while True:
        kinds, objs, doms = G.gen_world(rng, vs + ["u"], falsy=falsy, max_objs=5)
        if doms["u"]:
            break
    G.EXT["index_ok"] = False
    # the quantified variable is bound by the first conjunct in every result of the body
    head = G.gen_atom(rng, vs + ["u"], kinds, lo, must="u")
    depth = rng.randrange(0, 3)
    body = head if rng.random() < 0.25 else ("and", head, G.gen_cond(rng, vs + ["u"], kinds, depth, [], lo, allow_q=False))
    kind = rng.choice(["exists", "forall"])
    sel = [("var", v) for v in rng.sample(vs, rng.randrange(1, nv + 1))]
    return {"sel": sel, "cond": (kind, "u", body), "objs": objs, "doms": doms, "kinds": kinds}


ROOTQ = []    # the root-level quantifier cases of the last `generate`
NESTED = []   # the nested-quantifier cases of the last `generate` (re-used by `extra_coverage`)


def is_nested(c) -> bool:
    """a quantifier somewhere that is not the one and only quantifier at the root of the condition"""
    if c is None:
        return False
    ops = G.cond_ops(c)
    nq = sum(1 for o in ops if o in ("exists", "forall"))
    return nq >= 2 or (nq == 1 and c[0] not in ("exists", "forall"))


def nested_position(c) -> str:
    """operator directly above the first quantifier that has one ('root' if the only parentless ones)"""
    def walk(c, parent):
        if c[0] in ("exists", "forall"):
            if parent is not None:
                return parent
            return walk(c[2], "q")
        if c[0] in ("and", "or"):
            return walk(c[1], c[0]) or walk(c[2], c[0])
        if c[0] == "not":
            return walk(c[1], "not")
        return None
    return walk(c, None) or "root"


def gen_nested_quantifier(rng):
    """exists/for_all as the left or right operand of and_/or_, below not_, and inside another quantifier's body.
    Most bodies start with a conjunct that binds the quantified variable in every result (an `Exists` over a body with
    a result that does not bind its variable raises KeyError — kept at a low rate)."""
    nv = rng.choice([1, 2, 2])
    vs = ["x", "y"][:nv]
    falsy = rng.random() < 0.3
    lo = 0 if falsy else 1
    while True:
        kinds, objs, doms = G.gen_world(rng, vs + ["u", "v"], falsy=falsy, max_objs=5)
        if doms["u"] and doms["v"] and all(doms[v] for v in vs):
            break
    G.EXT["index_ok"] = False

    def atom(names):
        return G.gen_atom(rng, names, kinds, lo, must=rng.choice(names))

    def quant(qv, free, inner_q=None):
        kind = rng.choice(["exists", "exists", "forall"])
        names = free + [qv]
        parts = []
        if rng.random() < 0.85:
            parts.append(G.gen_atom(rng, names, kinds, lo, must=qv))
        if rng.random() < 0.7 or not parts:
            parts.append(G.gen_cond(rng, names, kinds, rng.randrange(0, 2), [], lo, allow_q=False))
        if inner_q is not None:
            parts.append(quant(inner_q, names))
            if rng.random() < 0.3:
                parts.reverse()
        body = parts[0]
        for p in parts[1:]:
            body = ("and", body, p) if rng.random() < 0.8 else ("or", body, p)
        return (kind, qv, body)

    shape = rng.randrange(0, 9)
    a = atom(vs)
    if shape == 0:
        cond = ("and", a, quant("u", vs))
    elif shape == 1:
        cond = ("and", quant("u", vs), a)
    elif shape == 2:
        cond = ("or", a, quant("u", vs))
    elif shape == 3:
        cond = ("or", quant("u", vs), a)
    elif shape == 4:
        cond = ("and", a, ("not", quant("u", vs)))
    elif shape == 5:
        cond = quant("u", vs, inner_q="v")                      # a quantifier in a quantifier's body
    elif shape == 6:
        cond = ("and", a, quant("u", vs, inner_q="v"))
    elif shape == 7:
        cond = ("and", ("and", a, quant("u", vs)), quant("v", vs))   # two quantifiers in sequence
    else:
        cond = ("not", ("and", a, quant("u", vs)))
    sel = [("var", v) for v in rng.sample(vs, rng.randrange(1, nv + 1))]
    used = set(G.c_allvars(cond)) | set(vs)
    return {"sel": sel, "cond": cond, "objs": objs, "doms": {n: d for n, d in doms.items() if n in used},
            "kinds": {n: k for n, k in kinds.items() if n in used}}


def extra_coverage():
    """equality rate of the pull counts (impl == trace model, per domain and per k) on the nested-quantifier cases of
    this run; the check only requires impl <= model"""
    import core
    if not NESTED:
        return {}
    cases = list(NESTED) + list(ROOTQ)
    impl = run_impl(cases)
    drv = core.Driver(PID).run([c.line for c in cases])
    le = eq = exc = lazy = 0
    for i, d in zip(impl, drv):
        m = d.get("model", "")
        if compare(i, m):
            le += 1
        if i.startswith("exc:") and m == "exc":
            exc += 1
            eq += 1
        elif i.startswith("silent=1 prefix=1 ") and i.split(" ", 2)[2] == m:
            eq += 1
            k1 = re.search(r"k1:\[([^\]]*)\]", m)
            end = re.search(r"end:\[([^\]]*)\]", m)
            if k1 and end and k1.group(1) != end.group(1):
                lazy += 1
    return {"nested_quantifiers": {"cases": len(cases), "impl_le_model": le, "impl_eq_model": eq,
                                   "of_which_exception_on_both_sides": exc,
                                   "equal_and_first_result_before_exhaustion": lazy,
                                   "fragment_N_per_driver": sum(1 for d in drv if d.get("frag") == "N"),
                                   "root_level_among_them": sum(1 for d in drv if "altq" in d),
                                   "root_level_traceQueryQ_obs_eq_traceQueryN_obs":
                                       sum(1 for d in drv if "altq" in d and d["altq"] == d.get("model"))}}


def revive(case: Case) -> Case:
    if case.line.startswith("(silent") or case.line.startswith("(flat") or case.line.startswith("(qpulls"):
        return case
    if case.payload is None:
        case.payload = G.parse_query(case.line)
    return case


def shrink(case: Case):
    if case.payload is None:
        return
    for q in G.shrink_query(case.payload):
        yield Case(G.sx_query(q), case.tags, "shrink", q)


def nontrivial(case: Case, spec: str) -> bool:
    if case.line.startswith("(silent"):
        return True
    if case.line.startswith("(qpulls"):
        return int(spec.split("=")[1]) < int(case.line.split()[-1].rstrip(")"))
    if case.line.startswith("(flat"):
        return not spec.startswith("n=0 ")
    if "(forall " in case.line and case.line.count("(forall ") == 1 and "(cond (forall " in case.line:
        # root-level for_all: non-trivial = the universal variable's domain (variable id 3, listed last) was NOT
        # exhausted, i.e. the early exit was taken with values left
        end = re.search(r"end:\[([^\]]*)\]", spec)
        dom = re.search(r"\(doms .*\(3((?: \([^()]*\))*)\)", case.line)
        if not end or not dom:
            return False
        return int(end.group(1).split(",")[-1]) < dom.group(1).count("(")
    m = re.match(r"n=(\d+) ", spec)
    if not m or int(m.group(1)) < 2:
        return False
    k1 = re.search(r"k1:\[([^\]]*)\]", spec)
    end = re.search(r"end:\[([^\]]*)\]", spec)
    return bool(k1 and end and k1.group(1) != end.group(1))


def _slack_constraint(which: int):
    """a result-count constraint that can never be violated: it must not change what is pulled"""
    from krrood.entity_query_language.result_quantification_constraint import AtLeast, AtMost, Range
    return [None, AtLeast(0), AtMost(10 ** 6), Range(AtLeast(0), AtMost(10 ** 6))][which % 4]


def _consume(q, k, which=0):
    """build the query with logging domains, consume k results (k=None: all); returns (silent, rows, pulls)"""
    del LOG[:]
    pulls = {}
    order = sorted(q["doms"], key=lambda n: G.VAR_IDS[n])

    def wrap(name, vals):
        pulls[name] = 0
        def gen():
            for v in vals:
                pulls[name] += 1
                LOG.append(("pull", name))
                yield v
        return gen()

    query, sel, single, _ = G.build_real(q, wrap_domain=wrap, classes=(LP, LE), quantification=_slack_constraint(which))
    silent = len(LOG) == 0
    rows = []
    it = iter(query.evaluate())
    while k is None or len(rows) < k:
        try:
            r = next(it)
        except StopIteration:
            break
        rows.append(G.show_row((r,)) if single else G.show_row(tuple(r[kk] for kk in sel)))
    pulled = [pulls[n] for n in order]
    _consume.last_hist = None
    if k is not None:
        # the consumer stops here (iterator abandoned); evaluating the SAME query object again must give the full
        # sequence, of which the k results above are a prefix
        if hasattr(it, "close"):
            it.close()
        # HISTORY: a second evaluation of the same query object over the now partly cached domains, of which ONE result
        # is taken: the cached prefix costs no pull, every further value needed costs one — so the generators have
        # given out max(what k results need, what one result needs) elements, no more (a new evaluation must not
        # first drain what an earlier, abandoned one left unread)
        it2 = iter(query.evaluate())
        try:
            next(it2)
        except StopIteration:
            pass
        _consume.last_hist = [pulls[n] for n in order]
        if hasattr(it2, "close"):
            it2.close()
        again = [G.show_row((r,)) if single else G.show_row(tuple(r[kk] for kk in sel)) for r in query.evaluate()]
        _consume.last_again = again
    return silent, rows, pulled


class _Holder:
    """user object whose `items` attribute is a one-shot generator (a lazily produced nested domain)"""
    def __init__(self, i, xs, counts):
        self.i = i
        def gen():
            for v in xs:
                counts[i] += 1
                yield v
        self.items = gen()


def _flat(line: str) -> str:
    from krrood.entity_query_language.entity import let, entity, contains, flatten
    from krrood.entity_query_language.quantify_entity import an
    s = G.parse_sexp(line)
    d = {p[0]: p[1:] for p in s[1:]}
    objs = [[int(v) for v in xs] for xs in d["objs"]]
    lit = [int(v) for v in d["lit"]]
    total = sum(1 for xs in objs for v in xs if v in lit)
    parts = []
    ok = True
    full = None
    for k in list(range(total + 2)) + [None]:
        counts = [0] * len(objs)
        hs = [_Holder(i, xs, counts) for i, xs in enumerate(objs)]
        x = let(_Holder, hs, name="x")
        q = an(entity(x, contains(list(lit), flatten(x.items))))
        silent = sum(counts) == 0
        rows = []
        it = iter(q.evaluate())
        while k is None or len(rows) < k:
            try:
                rows.append(next(it).i)
            except StopIteration:
                break
        if k is None:
            full = rows
            break
        ok = ok and silent
        parts.append((k, rows, list(counts)))
    prefix_ok = all(rows == full[:k] for k, rows, _ in parts)
    return (f"silent={int(ok)} prefix={int(prefix_ok)} n={len(full)} "
            + " ".join(f"k{k}:[" + ",".join(map(str, c)) + "]" for k, _, c in parts))


def _qpulls(line: str) -> str:
    from krrood.entity_query_language.entity import let, entity
    from krrood.entity_query_language.quantify_entity import an, the
    from krrood.entity_query_language.result_quantification_constraint import Exactly, AtLeast, AtMost
    _, kind, v, n = line.strip("()").split()
    v, n = int(v), int(n)
    pulled = [0]
    def gen():
        for i in range(n):
            pulled[0] += 1
            yield G.P(i, 0, {"a": i + 1})
    x = let(object, gen(), name="x")
    e = entity(x, x.a >= 1)
    q = the(e) if kind == "the" else an(e, quantification={"exactly": Exactly, "atLeast": AtLeast, "atMost": AtMost}[kind](v))
    silent = pulled[0] == 0
    try:
        if kind == "the":
            q.evaluate()
        else:
            for _r in q.evaluate():
                pass
    except Exception:  # noqa: BLE001  (the violated constraint; which one is C09's subject)
        pass
    return f"pulls={pulled[0]}" if silent else "touched:construction"


def _one(case: Case) -> str:
    if case.line.startswith("(qpulls"):
        try:
            return _qpulls(case.line)
        except Exception as e:  # noqa: BLE001
            return "exc:" + type(e).__name__
    if case.line.startswith("(flat"):
        try:
            return _flat(case.line)
        except Exception as e:  # noqa: BLE001
            return "exc:" + type(e).__name__
    if case.line.startswith("(silent"):
        import props.c10_build as B
        return B.run(int(case.line.split()[1].rstrip(")")))
    q = case.payload
    which = int(case.key()[:6], 16)   # which never-violated quantification constraint decorates this query
    try:
        silent, full, endp = _consume(q, None, which)
        n = len(full)
        parts = []
        hist = []
        prefix_ok = True
        for k in range(n + 1):
            s_k, rows_k, p_k = _consume(q, k, which)
            silent = silent and s_k
            prefix_ok = prefix_ok and rows_k == full[:k] and _consume.last_again == full
            parts.append(f"k{k}:[" + ",".join(map(str, p_k)) + "]")
            hist.append(f"h{k}:[" + ",".join(map(str, _consume.last_hist)) + "]")
        parts += hist
        return (f"silent={int(silent)} prefix={int(prefix_ok)} n={n} " + " ".join(parts)
                + " end:[" + ",".join(map(str, endp)) + "]")
    except Exception as e:  # noqa: BLE001
        return "exc:" + type(e).__name__


def run_impl(cases):
    return [_one(revive(c)) for c in cases]


def _parse(obs: str):
    m = re.search(r"n=(\d+)", obs)
    if not m:
        return None
    vecs = {k: [int(x) for x in v.split(",") if x] for k, v in re.findall(r"(k\d+|h\d+|end):\[([^\]]*)\]", obs)}
    return int(m.group(1)), vecs


def compare(impl: str, other: str) -> bool:
    """impl refines the model: silent construction, prefix property, same number of results, pulls <= model"""
    if other == "silent" or impl == "silent" or impl.startswith("touched:"):
        return impl == other
    if other.startswith("pulls="):
        return impl.startswith("pulls=") and int(impl[6:]) <= int(other[6:])
    if other == "exc" or impl.startswith("exc:"):
        return other == "exc" and impl.startswith("exc:")
    if "silent=1" not in impl or "prefix=1" not in impl:
        return False
    a, b = _parse(impl), _parse(other)
    if a is None or b is None or a[0] != b[0] or a[1].keys() != b[1].keys():
        return False
    return all(len(a[1][k]) == len(b[1][k]) and all(x <= y for x, y in zip(a[1][k], b[1][k])) for k in a[1])
