"""C10 — queries are lazy: building evaluates nothing, consuming pulls only what it needs.

Every domain is a logging one-shot generator, every attribute/method of the user objects logs its access.
Per query and per k: (i) the log is empty after construction, (ii) the first k results are a prefix of the full
sequence, (iii) the number of elements pulled from each domain after k results — compared as a refinement
inequality (implementation <= demand-driven trace model), so pulling less or reading in another order never alarms."""
from __future__ import annotations

import re

import eqlgen as G
from core import Case

PID = "C10"
LEAN_MODULES = ["KrroodVerif.Props.C10", "KrroodVerif.Props.C10Q", "KrroodVerif.Props.C10N", "KrroodVerif.Props.C10Sub",
                "KrroodVerif.Props.C09Lazy"]
THEOREMS = [
    "KrroodVerif.Eql.C10_trace_vis",
    "KrroodVerif.Eql.C10_trace_rows",
    "KrroodVerif.Eql.C10_trace_hasErr",
    "KrroodVerif.Eql.C10_query_rows",
    "KrroodVerif.Eql.C10_query_noErr",
    "KrroodVerif.Eql.C10_prefix",
    "KrroodVerif.Eql.C10_prefix_succ",
    "KrroodVerif.Eql.C10_prefix_query",
    "KrroodVerif.Eql.C10_pulled_mono",
    "KrroodVerif.Eql.C10_pull_in_range",
    "KrroodVerif.Eql.C10_pulled_le_domain",
    "KrroodVerif.Eql.C10_pulled_upto_le_domain",
    "KrroodVerif.Eql.C10_continuity",
    "KrroodVerif.Eql.C10_continuity_prefix",
    "KrroodVerif.Eql.C10_continuity_rows",
    "KrroodVerif.Eql.C10_continuity_trace",
    "KrroodVerif.Quant.C09_consumed",
    "KrroodVerif.Quant.C09_consumed_upper",
    "KrroodVerif.Eql.C10Q_exists_vis",
    "KrroodVerif.Eql.C10Q_exists_rows",
    "KrroodVerif.Eql.C10Q_existsWalk_vis",
    "KrroodVerif.Eql.C10Q_forall_filter",
    "KrroodVerif.Eql.C10Q_forall_vis",
    "KrroodVerif.Eql.C10Q_forall_rows",
    "KrroodVerif.Eql.C10Q_query_vis",
    "KrroodVerif.Eql.C10Q_query_rows",
    "KrroodVerif.Eql.C10Q_prefix_query",
    "KrroodVerif.Eql.C10Q_body_never_pulls_bound",
    "KrroodVerif.Eql.C10Q_forAllLoop_pulls_le",
    "KrroodVerif.Eql.C10Q_forAllLoop_early_stop",
    "KrroodVerif.Eql.C10Q_forall_early_exit",
    "KrroodVerif.Eql.C10Q_forall_pulled_exact",
    "KrroodVerif.Eql.C10Q_forall_partial_pull_no_rows",
    "KrroodVerif.Eql.C10Q_sel_bound_vars",
    "KrroodVerif.Eql.C10Q_existsWalk_nonrow",
    "KrroodVerif.Eql.C10Q_exists_nonrow",
    "KrroodVerif.Eql.C10Q_exists_nonrow'",
    "KrroodVerif.Eql.C10Q_exists_streaming",
    "KrroodVerif.Eql.C10Q_exists_streaming_var",
    "KrroodVerif.Eql.C10Q_pull_in_range",
    "KrroodVerif.Eql.C10Q_pulled_le_domain",
    "KrroodVerif.Eql.C10N_extends",
    "KrroodVerif.Eql.C10N_extends_query",
    "KrroodVerif.Eql.C10N_trace_vis",
    "KrroodVerif.Eql.C10N_stream_cells",
    "KrroodVerif.Eql.C10N_trace_rows",
    "KrroodVerif.Eql.C10N_query_vis",
    "KrroodVerif.Eql.C10N_rows",
    "KrroodVerif.Eql.C10N_prefix",
    "KrroodVerif.Eql.C10N_pulled_mono",
    "KrroodVerif.Eql.C10N_streaming",
    "KrroodVerif.Eql.C10N_streaming_query",
    "KrroodVerif.Eql.C10N_streaming_var",
    "KrroodVerif.Eql.C10N_streaming_all",
    "KrroodVerif.Eql.C10N_exists_stream",
    "KrroodVerif.Eql.C10N_exists_prefix",
    "KrroodVerif.Eql.C10N_exists_adds_nothing",
    "KrroodVerif.Eql.C10N_forall_blocking",
    "KrroodVerif.Eql.C10N_forall_early_exit",
    "KrroodVerif.Eql.C10N_forall_stops",
    "KrroodVerif.Eql.C10N_forall_step",
    "KrroodVerif.Eql.C10N_never_pulls_bound",
    "KrroodVerif.Eql.C10N_body_never_pulls_quantified",
    "KrroodVerif.Eql.C10N_forall_early_exit_pulled",
    "KrroodVerif.Eql.C10N_pull_in_range",
    "KrroodVerif.Eql.C10N_pulled_le_domain",
    "KrroodVerif.Eql.C10S_operand_vis",
    "KrroodVerif.Eql.C10S_vis",
    "KrroodVerif.Eql.C10S_query_vis",
    "KrroodVerif.Eql.C10S_rows",
    "KrroodVerif.Eql.C10S_prefix",
    "KrroodVerif.Eql.C10S_pulled_mono",
    "KrroodVerif.Eql.C10S_never_pulls_bound",
    "KrroodVerif.Eql.C10S_bound_inner_pulled_zero",
    "KrroodVerif.Eql.C10S_streaming",
    "KrroodVerif.Eql.C10S_inner_first",
    "KrroodVerif.Eql.C10S_inner_pulls",
]

def extra_obligations():
    """translator tie for the evaluation methods `Eql.eval` transcribes (shared with C01 / C02): the IR regenerated from the
    current `symbolic.py` is `Eql.IR.irTable` (harness/translate/c01_translate.py)"""
    from translate import c01_translate as T
    return T.obligations(PID)


MODEL_FUNCTION = ("Eql.traceQuery / Eql.traceE / Eql.uptoRow / Eql.pulled (Model/EqlTrace.lean); Eql.traceExistsRoot / "
                  "Eql.traceForAllRoot (Model/EqlTraceQ.lean); Eql.traceN / Eql.traceQueryN / Eql.existsWalkN / "
                  "Eql.traceForAllN (Model/EqlTraceN.lean: quantifiers in any position); Eql.traceOperand / Eql.traceCmpX / "
                  "Eql.traceX / Eql.traceQueryX / Eql.subStream / Eql.theWalk (Model/EqlTraceSub.lean: an(...)/the(...) "
                  "sub-queries as operands)")
TRUSTED = [
    "Lean 4.33 kernel; axioms of each theorem listed under coverage.theorems",
    "hand-written trace model Model/EqlTrace.lean (continuation-passing transcription of symbolic.py evaluation)",
    "hand-written Model/EqlTraceN.lean (Exists / ForAll in any position as walks over the child's event stream; "
    "validated per run: pull counts per domain and per k equal to the real engine's on every sampled query)",
    "hand-written Model/EqlTraceSub.lean (nested an(...)/the(...) operands: restarted per outer binding, streamed, an "
    "unbound selected variable materialised by itertools.product; `the` = walk over the inner stream; validated per run: "
    "pull counts per domain and per k equal to the real engine's on every sampled query; the theorems of Props/C10Sub "
    "cover an(...) — `thes = []` —, the(...) is tied by the correspondence and concrete `decide` tests only)",
    "the two-query history observation (Drive/C10 runTwo: max of the two partial evaluations' needs) is a driver-level "
    "formula over traceQueryN, not a theorem",
    "this correspondence harness (logging generators / attribute access), the S-expression driver",
]
ASSUMPTIONS = [
    "CPython generator protocol: a suspended generator performs no work until next() is called",
    "queries are tree-shaped; quantifiers may occur anywhere below and_/or_/not_ and below each other (Model/EqlTraceN.lean)",
]
RULE = ("corpus, then construction scenarios (props/c10_build.py: hand-written ones + generated families: every kind of one-shot "
        "iterator x every operand position taking plain data, every handed-out iterator measured after construction; symbolic "
        "functions / Predicate subclasses with var-keyword, var-positional, keyword-only parameters x the parameter the variable "
        "is written for), then nested an(...)/the(...) sub-queries as comparison operands (correlated / uncorrelated, inner variable "
        "over an int or object generator domain; every k; the same history re-evaluation), then two DIFFERENT queries over one "
        "variable set (A abandoned after k results, then B: one result, then B exhausted), then quantifiers below and_/or_/not_ and inside other quantifiers (hand-shaped positions + the shared "
        "generator's quantified trees), random root-level exists/for_all over quantifier-free bodies and random quantifier-free condition trees (depth<=3, 1-3 variables, int/object domains as one-shot "
        "logging generators); each query is rebuilt and consumed for every k in 0..n+1, each time followed by a second evaluation of the same object of which one result is taken; non-trivial = the query has "
        ">=2 results and some domain is not fully pulled at k=1; distinct by case text")

LOG = []


class LP(G.P):
    def __getattribute__(self, name):
        if name in ("a", "f", "items", "dbl"):
            LOG.append(("read", name))
        return object.__getattribute__(self, name)


class LE(G.E):
    __hash__ = None

    def __getattribute__(self, name):
        if name in ("a", "f", "items", "dbl"):
            LOG.append(("read", name))
        return object.__getattribute__(self, name)


def budget(tier: str) -> int:
    return 800 if tier == "quick" else 12000


def generate(rng, tier, n):
    out = []
    import core
    core.use_repo_sources()
    import props.c10_build as B
    for k in range(B.count()):
        out.append(Case(f"(silent {k})", ("construction", B._S[k].__name__), "exhaustive"))
    # flatten over generator-valued attributes: inner elements must be consumed on demand too
    for _ in range(max(20, n // 20)):
        objs = [[rng.randrange(0, 4) for _ in range(rng.randrange(0, 5))] for _ in range(rng.randrange(1, 4))]
        lit = sorted(rng.sample(range(0, 4), rng.randrange(1, 3)))
        line = "(flat (objs " + " ".join("(" + " ".join(map(str, xs)) + ")" for xs in objs) + ") (lit " + " ".join(map(str, lit)) + "))"
        out.append(Case(line, ("flatten-generator",), "random"))
    # result-count constraints that ARE violated: the evaluation must stop pulling with the element that reveals it
    for kind in ("exactly", "atMost", "atLeast", "the"):
        for v in ((1,) if kind == "the" else range(0, 4)):
            for k in range(0, 7):
                out.append(Case(f"(qpulls {kind} {v} {k})", ("quantified-pulls", kind), "exhaustive"))
    # a quantifier at the root over a quantifier-free body: exists hands a witness on the moment it is found, for_all
    # stops pulling the universal variable once no candidate is left
    del ROOTQ[:]
    for _ in range(max(60, n // 5)):
        q = gen_root_quantifier(rng)
        tags = ["root-" + q["cond"][0], "nsel%d" % len(q["sel"]), "nvars%d" % len(q["doms"])] + sorted(set(G.cond_ops(q["cond"])))
        out.append(Case(G.sx_query(q), tuple(tags), "random", q))
        ROOTQ.append(out[-1])
    # quantifiers BELOW other operators and below each other (Model/EqlTraceN.lean, Props/C10N.lean): hand-shaped
    # positions (half) and the quantified trees of the shared generator that are not root-only (half)
    del NESTED[:]
    want = max(120, n // 4)
    while len(NESTED) < want:
        if len(NESTED) % 2 == 0:
            q = gen_nested_quantifier(rng)
        else:
            q = G.gen_query(rng, quantifiers=True)
            if not is_nested(q["cond"]):
                continue
        tags = (["nested", "nested-" + nested_position(q["cond"]), "nsel%d" % len(q["sel"]), "nvars%d" % len(q["doms"])]
                + sorted(set(G.cond_ops(q["cond"]))))
        case = Case(G.sx_query(q), tuple(tags), "random", q)
        NESTED.append(case)
        out.append(case)
    # SUB-QUERY OPERANDS (Model/EqlTraceSub.lean, Props/C10Sub.lean): `x.a == an(entity(y, φ))` / `the(...)`,
    # correlated and uncorrelated, every domain (the inner variable's too) a one-shot logging generator
    del SUBQ[:]
    for i in range(max(100, n // 5)):
        q = G.gen_subquery_query(rng) if i % 4 == 3 else gen_sub_family(rng)
        q["subfam"] = True
        flags = sub_flags(q["cond"])
        tags = (["subq", "subq-the" if 1 in flags else "subq-an", "subq-corr" if sub_correlated(q["cond"]) else "subq-uncorr",
                 "nsel%d" % len(q["sel"]), "nvars%d" % len(q["doms"])] + sorted(set(G.cond_ops(q["cond"]))))
        case = Case(sx_sub(q), tuple(tags), "random", q)
        SUBQ.append(case)
        out.append(case)
    # HISTORY with TWO queries: A is consumed up to its k-th result and abandoned, then a DIFFERENT query B over the
    # same variable objects is evaluated
    del TWO[:]
    for _ in range(max(40, n // 12)):
        qa, qb = gen_two(rng)
        case = Case("(two " + G.sx_query(qa) + " " + G.sx_query(qb) + ")", ("two-queries", "nvars%d" % len(qa["doms"])),
                    "random", (qa, qb))
        TWO.append(case)
        out.append(case)
    while len(out) < n:
        q = G.gen_query(rng, quantifiers=False)
        ops = G.cond_ops(q["cond"])
        tags = ["depth%d" % G.cond_depth(q["cond"]), "nsel%d" % len(q["sel"]), "nvars%d" % len(q["doms"])] + sorted(set(ops))
        out.append(Case(G.sx_query(q), tuple(tags), "random", q))
    return out


def gen_root_quantifier(rng):
    nv = rng.choice([1, 1, 2])
    vs = ["x", "y"][:nv]
    falsy = rng.random() < 0.4
    lo = 0 if falsy else 1
    while True:
        kinds, objs, doms = G.gen_world(rng, vs + ["u"], falsy=falsy, max_objs=5)
        if doms["u"]:
            break
    G.EXT["index_ok"] = False
    # the quantified variable is bound by the first conjunct in every result of the body
    head = G.gen_atom(rng, vs + ["u"], kinds, lo, must="u")
    depth = rng.randrange(0, 3)
    body = head if rng.random() < 0.25 else ("and", head, G.gen_cond(rng, vs + ["u"], kinds, depth, [], lo, allow_q=False))
    kind = rng.choice(["exists", "forall"])
    sel = [("var", v) for v in rng.sample(vs, rng.randrange(1, nv + 1))]
    return {"sel": sel, "cond": (kind, "u", body), "objs": objs, "doms": doms, "kinds": kinds}


ROOTQ = []    # the root-level quantifier cases of the last `generate`
SUBQ = []     # the sub-query operand cases of the last `generate`
TWO = []      # the two-query history cases of the last `generate`


# ---------------------------------------------------------------------------------------- sub-query operands

def _subqs(c):
    """the sub-query operands of a condition, left to right (the order `XSExpr.subIds` lists their ids in)"""
    if c is None:
        return []
    if c[0] == "cmp":
        return [t for t in (c[2], c[3]) if t[0] == "subq"]
    if c[0] in ("and", "or"):
        return _subqs(c[1]) + _subqs(c[2])
    if c[0] == "not":
        return _subqs(c[1])
    return []


def sub_flags(c):
    return [1 if len(t) > 3 and t[3] == "the" else 0 for t in _subqs(c)]


def sub_correlated(c) -> bool:
    """some sub-query's condition mentions a variable other than its own"""
    return any(t[2] is not None and set(G.c_allvars(t[2])) - {t[1]} for t in _subqs(c))


def sx_sub(q) -> str:
    line = G.sx_query(q)
    assert line.startswith("(qx ")
    return "(qs (thes" + "".join(f" {b}" for b in sub_flags(q["cond"])) + ") " + line[4:]


def parse_sub(line: str):
    q = G.parse_query("(qx " + line[4:])
    flags = [int(b) for b in G.parse_sexp(line)[1][1:]]
    it = iter(flags)

    def term(t):
        return ("subq", t[1], t[2], "the" if next(it) else "an") if t[0] == "subq" else t

    def cond(c):
        if c[0] == "cmp":
            l = term(c[2])
            return ("cmp", c[1], l, term(c[3]))
        if c[0] in ("and", "or"):
            l = cond(c[1])
            return (c[0], l, cond(c[2]))
        if c[0] == "not":
            return ("not", cond(c[1]))
        return c
    q["cond"] = cond(q["cond"])
    q["subfam"] = True
    q["force_set_of"] = len(q["sel"]) > 1
    return q


def gen_sub_family(rng):
    """outer object variable(s) x (z), inner variable y (int or object domain) of a nested `an`/`the` query used as an
    operand; the nested query's condition is absent, about y alone (uncorrelated) or compares y with an attribute of
    an outer variable (correlated). Domains of 2-5 elements, so that an early stop leaves something unpulled."""
    outer = ["x"] if rng.random() < 0.65 else ["x", "z"]
    ykind = "int" if rng.random() < 0.6 else "obj"
    kinds = {v: "obj" for v in outer}
    kinds["y"] = ykind
    nobj = rng.randrange(2, 6)
    objs = [{"cls": 0, "veq": False, "fields": {"a": rng.randrange(0, 4), "f": rng.random() < 0.6, "items": [],
                                                 "m_dbl": 0}} for _ in range(nobj)]
    for o in objs:
        o["fields"]["m_dbl"] = 2 * o["fields"]["a"]
    doms = {v: [("obj", i) for i in range(nobj) if rng.random() < 0.9] for v in outer}
    if ykind == "int":
        vals = list(range(0, 5))
        rng.shuffle(vals)
        doms["y"] = vals[:rng.randrange(2, 6)]
    else:
        doms["y"] = [("obj", i) for i in range(nobj) if rng.random() < 0.9]
    yt = ("var", "y") if ykind == "int" else ("attr", ("var", "y"), "a")
    the = rng.random() < 0.35
    xv = rng.choice(outer)
    r = rng.random()
    if r < 0.2 and not the:
        subcond = None
    elif r < 0.6:
        # uncorrelated; for `the`: an equation that at most one value of an int domain satisfies
        op = "eq" if the else rng.choice(list(G.OPS))
        subcond = ("cmp", op, yt, ("lit", rng.choice(doms["y"]) if (the and ykind == "int" and doms["y"]) else rng.randrange(0, 4)))
        if ykind == "obj" and rng.random() < 0.3:
            subcond = ("and", ("truth", ("attr", ("var", "y"), "f")), subcond)
    else:
        # correlated: the nested query mentions an outer variable
        op = "eq" if the or rng.random() < 0.6 else rng.choice(list(G.OPS))
        other = ("attr", ("var", xv), "a")
        subcond = ("cmp", op, yt, other) if rng.random() < 0.5 else ("cmp", op, other, yt)
    sub = ("subq", "y", subcond, "the" if the else "an")
    if ykind == "int":
        other, op = ("attr", ("var", xv), "a"), rng.choice(["eq", "eq", "le", "ne", "ge"])
    else:
        other, op = ("var", xv), rng.choice(["eq", "eq", "ne"])
    atom = ("cmp", op, sub, other) if rng.random() < 0.35 else ("cmp", op, other, sub)

    def plain():
        v = rng.choice(outer)
        return rng.choice([("cmp", rng.choice(list(G.OPS)), ("attr", ("var", v), "a"), ("lit", rng.randrange(0, 3))),
                           ("truth", ("attr", ("var", v), "f"))])
    r = rng.random()
    if r < 0.4:
        cond = atom
    elif r < 0.65:
        cond = ("and", plain(), atom)
    elif r < 0.8:
        cond = ("and", atom, plain())
    elif r < 0.9:
        cond = ("not", atom)
    else:
        cond = ("or", plain(), atom)
    selv = rng.sample(outer + ["y"], rng.randrange(1, len(outer) + 2))
    used = set(G.c_allvars(cond)) | set(selv) | {"y"}
    return {"sel": [("var", v) for v in selv], "cond": cond, "objs": objs,
            "doms": {n: d for n, d in doms.items() if n in used}, "kinds": {n: k for n, k in kinds.items() if n in used},
            "force_set_of": len(selv) > 1}


def build_sub(q, wrap_domain, quantification=None):
    """the real query for a payload of the sub-query family (own small builder: `the(...)` operands)"""
    from krrood.entity_query_language import symbolic as S
    from krrood.entity_query_language.entity import entity, set_of, and_, or_, not_
    from krrood.entity_query_language.quantify_entity import an, the
    objs = G.make_objects(q, (LP, LE))
    V = G.make_vars(q, objs, False, wrap_domain)

    def term(t):
        if t[0] == "var":
            return V[t[1]]
        if t[0] == "lit":
            return G.real_val(t[1], objs)
        if t[0] == "attr":
            return getattr(term(t[1]), t[2])
        if t[0] == "call":
            return getattr(term(t[1]), t[2])()
        if t[0] == "subq":
            quant = the if len(t) > 3 and t[3] == "the" else an
            return quant(entity(V[t[1]], cond(t[2]))) if t[2] is not None else quant(entity(V[t[1]]))
        raise ValueError(t)

    def cond(c):
        k = c[0]
        if k == "cmp":
            l = term(c[2])
            return S.Comparator(l, term(c[3]), G.OPS[c[1]])
        if k == "truth":
            return term(c[1])
        if k == "and":
            l = cond(c[1])
            return and_(l, cond(c[2]))
        if k == "or":
            l = cond(c[1])
            return or_(l, cond(c[2]))
        if k == "not":
            return not_(cond(c[1]))
        raise ValueError(c)

    sel = [term(t) for t in q["sel"]]
    c = cond(q["cond"])
    single = len(sel) == 1 and not q.get("force_set_of")
    kw = {"quantification": quantification} if quantification is not None else {}
    query = an(entity(sel[0], c), **kw) if single else an(set_of(sel, c), **kw)
    return query, sel, single, objs


# ---------------------------------------------------------------------------------------- two queries, one variable set

def gen_two(rng):
    """two quantifier-free queries over the same world and variables (B may use a subset)"""
    while True:
        qa = G.gen_query(rng, quantifiers=False)
        if qa["cond"] is not None and all(len(d) >= 1 for d in qa["doms"].values()):
            break
    vs = list(qa["doms"])
    kinds = qa["kinds"]
    lo = 0
    G.EXT["index_ok"] = False
    G.EXT["sets"] = False
    condb = G.gen_cond(rng, vs, kinds, rng.randrange(0, 3), [], lo, allow_q=False)
    selb = [("var", v) for v in rng.sample(vs, rng.randrange(1, len(vs) + 1))]
    qb = dict(qa)
    qb["sel"], qb["cond"] = selb, condb
    return qa, qb


def _two(case) -> str:
    qa, qb = case.payload
    order = sorted(qa["doms"], key=lambda n: G.VAR_IDS[n])

    def show(query, sel, single, r):
        return G.show_row((r,)) if single else G.show_row(tuple(r[kk] for kk in sel))

    def fresh():
        del LOG[:]
        pulls = {}

        def wrap(name, vals):
            pulls[name] = 0
            def gen():
                for v in vals:
                    pulls[name] += 1
                    LOG.append(("pull", name))
                    yield v
            return gen()
        objs = G.make_objects(qa, (LP, LE))
        V = G.make_vars(qa, objs, False, wrap)
        A = G.build_query(qa, V, objs)
        B = G.build_query(qb, V, objs)
        return A, B, pulls, len(LOG) == 0

    A, B, pulls, silent = fresh()
    full_a = [show(*A, r) for r in A[0].evaluate()]
    A, B, pulls, s2 = fresh()
    full_b = [show(*B, r) for r in B[0].evaluate()]
    silent = silent and s2
    n = len(full_a)
    ok = True
    ts, us = [], []
    for k in range(n + 1):
        A, B, pulls, s_k = fresh()
        silent = silent and s_k
        it = iter(A[0].evaluate())
        rows = []
        while len(rows) < k:
            rows.append(show(*A, next(it)))
        if hasattr(it, "close"):
            it.close()
        ok = ok and rows == full_a[:k]
        itb = iter(B[0].evaluate())
        got = []
        try:
            got.append(show(*B, next(itb)))
        except StopIteration:
            pass
        ts.append(f"t{k}:[" + ",".join(str(pulls[v]) for v in order) + "]")
        got += [show(*B, r) for r in itb]
        ok = ok and got == full_b
        us.append(f"u{k}:[" + ",".join(str(pulls[v]) for v in order) + "]")
    return f"silent={int(silent)} prefix={int(ok)} n={n} m={len(full_b)} " + " ".join(ts + us)
NESTED = []   # the nested-quantifier cases of the last `generate` (re-used by `extra_coverage`)


def is_nested(c) -> bool:
    """a quantifier somewhere that is not the one and only quantifier at the root of the condition"""
    if c is None:
        return False
    ops = G.cond_ops(c)
    nq = sum(1 for o in ops if o in ("exists", "forall"))
    return nq >= 2 or (nq == 1 and c[0] not in ("exists", "forall"))


def nested_position(c) -> str:
    """operator directly above the first quantifier that has one ('root' if the only parentless ones)"""
    def walk(c, parent):
        if c[0] in ("exists", "forall"):
            if parent is not None:
                return parent
            return walk(c[2], "q")
        if c[0] in ("and", "or"):
            return walk(c[1], c[0]) or walk(c[2], c[0])
        if c[0] == "not":
            return walk(c[1], "not")
        return None
    return walk(c, None) or "root"


def gen_nested_quantifier(rng):
    """exists/for_all as the left or right operand of and_/or_, below not_, and inside another quantifier's body.
    Most bodies start with a conjunct that binds the quantified variable in every result (an `Exists` over a body with
    a result that does not bind its variable raises KeyError — kept at a low rate)."""
    nv = rng.choice([1, 2, 2])
    vs = ["x", "y"][:nv]
    falsy = rng.random() < 0.3
    lo = 0 if falsy else 1
    while True:
        kinds, objs, doms = G.gen_world(rng, vs + ["u", "v"], falsy=falsy, max_objs=5)
        if doms["u"] and doms["v"] and all(doms[v] for v in vs):
            break
    G.EXT["index_ok"] = False

    def atom(names):
        return G.gen_atom(rng, names, kinds, lo, must=rng.choice(names))

    def quant(qv, free, inner_q=None):
        kind = rng.choice(["exists", "exists", "forall"])
        names = free + [qv]
        parts = []
        if rng.random() < 0.85:
            parts.append(G.gen_atom(rng, names, kinds, lo, must=qv))
        if rng.random() < 0.7 or not parts:
            parts.append(G.gen_cond(rng, names, kinds, rng.randrange(0, 2), [], lo, allow_q=False))
        if inner_q is not None:
            parts.append(quant(inner_q, names))
            if rng.random() < 0.3:
                parts.reverse()
        body = parts[0]
        for p in parts[1:]:
            body = ("and", body, p) if rng.random() < 0.8 else ("or", body, p)
        return (kind, qv, body)

    shape = rng.randrange(0, 9)
    a = atom(vs)
    if shape == 0:
        cond = ("and", a, quant("u", vs))
    elif shape == 1:
        cond = ("and", quant("u", vs), a)
    elif shape == 2:
        cond = ("or", a, quant("u", vs))
    elif shape == 3:
        cond = ("or", quant("u", vs), a)
    elif shape == 4:
        cond = ("and", a, ("not", quant("u", vs)))
    elif shape == 5:
        cond = quant("u", vs, inner_q="v")                      # a quantifier in a quantifier's body
    elif shape == 6:
        cond = ("and", a, quant("u", vs, inner_q="v"))
    elif shape == 7:
        cond = ("and", ("and", a, quant("u", vs)), quant("v", vs))   # two quantifiers in sequence
    else:
        cond = ("not", ("and", a, quant("u", vs)))
    sel = [("var", v) for v in rng.sample(vs, rng.randrange(1, nv + 1))]
    used = set(G.c_allvars(cond)) | set(vs)
    return {"sel": sel, "cond": cond, "objs": objs, "doms": {n: d for n, d in doms.items() if n in used},
            "kinds": {n: k for n, k in kinds.items() if n in used}}


_extra_sub = {}


def extra_coverage():
    """equality rate of the pull counts (impl == trace model, per domain and per k) on the nested-quantifier cases of
    this run; the check only requires impl <= model"""
    import core
    if not NESTED:
        return {}
    out = {}
    for name, fam in (("subquery_operands", SUBQ), ("two_queries_one_variable_set", TWO)):
        if not fam:
            continue
        impl = run_impl(fam)
        drv = core.Driver(PID).run([c.line for c in fam])
        le = eq = exc = lazy = rows_eq = 0
        for i, d in zip(impl, drv):
            m = d.get("model", "")
            le += bool(compare(i, m))
            if i.startswith("exc:") and m == "exc":
                exc += 1
                eq += 1
            elif i.startswith("silent=1 prefix=1 ") and i.split(" ", 2)[2] == m:
                eq += 1
                k1 = re.search(r"k1:\[([^\]]*)\]", m)
                end = re.search(r"end:\[([^\]]*)\]", m)
                lazy += bool(k1 and end and k1.group(1) != end.group(1))
            rows_eq += "lrows" in d and d["lrows"] == d.get("rows")
        out[name] = {"cases": len(fam), "impl_le_model": le, "impl_eq_model": eq, "of_which_exception_on_both_sides": exc,
                     "equal_and_first_result_before_exhaustion": lazy}
        if name == "subquery_operands":
            out[name]["trace_rows_eq_list_model_rows"] = rows_eq
            out[name]["with_the"] = sum(1 for c in fam if "subq-the" in c.tags)
            out[name]["correlated"] = sum(1 for c in fam if "subq-corr" in c.tags)
    _extra_sub.update(out)
    cases = list(NESTED) + list(ROOTQ)
    impl = run_impl(cases)
    drv = core.Driver(PID).run([c.line for c in cases])
    le = eq = exc = lazy = 0
    for i, d in zip(impl, drv):
        m = d.get("model", "")
        if compare(i, m):
            le += 1
        if i.startswith("exc:") and m == "exc":
            exc += 1
            eq += 1
        elif i.startswith("silent=1 prefix=1 ") and i.split(" ", 2)[2] == m:
            eq += 1
            k1 = re.search(r"k1:\[([^\]]*)\]", m)
            end = re.search(r"end:\[([^\]]*)\]", m)
            if k1 and end and k1.group(1) != end.group(1):
                lazy += 1
    return {**_extra_sub, "nested_quantifiers": {"cases": len(cases), "impl_le_model": le, "impl_eq_model": eq,
                                   "of_which_exception_on_both_sides": exc,
                                   "equal_and_first_result_before_exhaustion": lazy,
                                   "fragment_N_per_driver": sum(1 for d in drv if d.get("frag") == "N"),
                                   "root_level_among_them": sum(1 for d in drv if "altq" in d),
                                   "root_level_traceQueryQ_obs_eq_traceQueryN_obs":
                                       sum(1 for d in drv if "altq" in d and d["altq"] == d.get("model"))}}


def revive(case: Case) -> Case:
    if case.line.startswith("(silent") or case.line.startswith("(flat") or case.line.startswith("(qpulls"):
        return case
    if case.payload is None and case.line.startswith("(qs "):
        case.payload = parse_sub(case.line)
    elif case.payload is None and case.line.startswith("(two "):
        sx = case.line[len("(two "):-1]
        depth, cut = 0, None
        for i, ch in enumerate(sx):
            depth += ch == "("
            depth -= ch == ")"
            if depth == 0 and ch == ")":
                cut = i + 1
                break
        case.payload = (G.parse_query(sx[:cut].strip()), G.parse_query(sx[cut:].strip()))
        case.payload[1]["kinds"] = case.payload[0].get("kinds", {})
    elif case.payload is None:
        case.payload = G.parse_query(case.line)
    return case


def shrink(case: Case):
    if case.payload is None:
        return
    if case.line.startswith("(two "):
        qa, qb = case.payload
        for n, d in qa["doms"].items():
            for i in range(len(d)):
                if len(d) > 1:
                    a2, b2 = dict(qa), dict(qb)
                    a2["doms"] = b2["doms"] = {**qa["doms"], n: d[:i] + d[i + 1:]}
                    yield Case("(two " + G.sx_query(a2) + " " + G.sx_query(b2) + ")", case.tags, "shrink", (a2, b2))
        return
    if case.line.startswith("(qs "):
        q = case.payload
        for n, d in q["doms"].items():
            for i in range(len(d)):
                q2 = dict(q)
                q2["doms"] = {**q["doms"], n: d[:i] + d[i + 1:]}
                yield Case(sx_sub(q2), case.tags, "shrink", q2)
        if q["cond"][0] in ("and", "or"):
            for part in (q["cond"][1], q["cond"][2]):
                if _subqs(part):
                    q2 = dict(q)
                    q2["cond"] = part
                    yield Case(sx_sub(q2), case.tags, "shrink", q2)
        return
    for q in G.shrink_query(case.payload):
        yield Case(G.sx_query(q), case.tags, "shrink", q)


def nontrivial(case: Case, spec: str) -> bool:
    if case.line.startswith("(silent"):
        return True
    if case.line.startswith("(qpulls"):
        return int(spec.split("=")[1]) < int(case.line.split()[-1].rstrip(")"))
    if case.line.startswith("(flat"):
        return not spec.startswith("n=0 ")
    if case.line.startswith("(two "):
        # B's first result after A was abandoned at k = 0 needs less than exhausting both
        t0 = re.search(r"t0:\[([^\]]*)\]", spec)
        us = re.findall(r"u\d+:\[([^\]]*)\]", spec)
        return bool(t0 and us and t0.group(1) != us[-1])
    if "(forall " in case.line and case.line.count("(forall ") == 1 and "(cond (forall " in case.line:
        # root-level for_all: non-trivial = the universal variable's domain (variable id 3, listed last) was NOT
        # exhausted, i.e. the early exit was taken with values left
        end = re.search(r"end:\[([^\]]*)\]", spec)
        dom = re.search(r"\(doms .*\(3((?: \([^()]*\))*)\)", case.line)
        if not end or not dom:
            return False
        return int(end.group(1).split(",")[-1]) < dom.group(1).count("(")
    m = re.match(r"n=(\d+) ", spec)
    if not m or int(m.group(1)) < 2:
        return False
    k1 = re.search(r"k1:\[([^\]]*)\]", spec)
    end = re.search(r"end:\[([^\]]*)\]", spec)
    return bool(k1 and end and k1.group(1) != end.group(1))


def _slack_constraint(which: int):
    """a result-count constraint that can never be violated: it must not change what is pulled"""
    from krrood.entity_query_language.result_quantification_constraint import AtLeast, AtMost, Range
    return [None, AtLeast(0), AtMost(10 ** 6), Range(AtLeast(0), AtMost(10 ** 6))][which % 4]


def _consume(q, k, which=0):
    """build the query with logging domains, consume k results (k=None: all); returns (silent, rows, pulls)"""
    del LOG[:]
    pulls = {}
    order = sorted(q["doms"], key=lambda n: G.VAR_IDS[n])

    def wrap(name, vals):
        pulls[name] = 0
        def gen():
            for v in vals:
                pulls[name] += 1
                LOG.append(("pull", name))
                yield v
        return gen()

    if q.get("subfam"):
        query, sel, single, _ = build_sub(q, wrap, quantification=_slack_constraint(which))
    else:
        query, sel, single, _ = G.build_real(q, wrap_domain=wrap, classes=(LP, LE), quantification=_slack_constraint(which))
    silent = len(LOG) == 0
    rows = []
    it = iter(query.evaluate())
    while k is None or len(rows) < k:
        try:
            r = next(it)
        except StopIteration:
            break
        rows.append(G.show_row((r,)) if single else G.show_row(tuple(r[kk] for kk in sel)))
    pulled = [pulls[n] for n in order]
    _consume.last_hist = None
    if k is not None:
        # the consumer stops here (iterator abandoned); evaluating the SAME query object again must give the full
        # sequence, of which the k results above are a prefix
        if hasattr(it, "close"):
            it.close()
        # HISTORY: a second evaluation of the same query object over the now partly cached domains, of which ONE result
        # is taken: the cached prefix costs no pull, every further value needed costs one — so the generators have
        # given out max(what k results need, what one result needs) elements, no more (a new evaluation must not
        # first drain what an earlier, abandoned one left unread)
        it2 = iter(query.evaluate())
        try:
            next(it2)
        except StopIteration:
            pass
        _consume.last_hist = [pulls[n] for n in order]
        if hasattr(it2, "close"):
            it2.close()
        again = [G.show_row((r,)) if single else G.show_row(tuple(r[kk] for kk in sel)) for r in query.evaluate()]
        _consume.last_again = again
    return silent, rows, pulled


class _Holder:
    """user object whose `items` attribute is a one-shot generator (a lazily produced nested domain)"""
    def __init__(self, i, xs, counts):
        self.i = i
        def gen():
            for v in xs:
                counts[i] += 1
                yield v
        self.items = gen()


def _flat(line: str) -> str:
    from krrood.entity_query_language.entity import let, entity, contains, flatten
    from krrood.entity_query_language.quantify_entity import an
    s = G.parse_sexp(line)
    d = {p[0]: p[1:] for p in s[1:]}
    objs = [[int(v) for v in xs] for xs in d["objs"]]
    lit = [int(v) for v in d["lit"]]
    total = sum(1 for xs in objs for v in xs if v in lit)
    parts = []
    ok = True
    full = None
    for k in list(range(total + 2)) + [None]:
        counts = [0] * len(objs)
        hs = [_Holder(i, xs, counts) for i, xs in enumerate(objs)]
        x = let(_Holder, hs, name="x")
        q = an(entity(x, contains(list(lit), flatten(x.items))))
        silent = sum(counts) == 0
        rows = []
        it = iter(q.evaluate())
        while k is None or len(rows) < k:
            try:
                rows.append(next(it).i)
            except StopIteration:
                break
        if k is None:
            full = rows
            break
        ok = ok and silent
        parts.append((k, rows, list(counts)))
    prefix_ok = all(rows == full[:k] for k, rows, _ in parts)
    return (f"silent={int(ok)} prefix={int(prefix_ok)} n={len(full)} "
            + " ".join(f"k{k}:[" + ",".join(map(str, c)) + "]" for k, _, c in parts))


def _qpulls(line: str) -> str:
    from krrood.entity_query_language.entity import let, entity
    from krrood.entity_query_language.quantify_entity import an, the
    from krrood.entity_query_language.result_quantification_constraint import Exactly, AtLeast, AtMost
    _, kind, v, n = line.strip("()").split()
    v, n = int(v), int(n)
    pulled = [0]
    def gen():
        for i in range(n):
            pulled[0] += 1
            yield G.P(i, 0, {"a": i + 1})
    x = let(object, gen(), name="x")
    e = entity(x, x.a >= 1)
    q = the(e) if kind == "the" else an(e, quantification={"exactly": Exactly, "atLeast": AtLeast, "atMost": AtMost}[kind](v))
    silent = pulled[0] == 0
    try:
        if kind == "the":
            q.evaluate()
        else:
            for _r in q.evaluate():
                pass
    except Exception:  # noqa: BLE001  (the violated constraint; which one is C09's subject)
        pass
    return f"pulls={pulled[0]}" if silent else "touched:construction"


def _one(case: Case) -> str:
    if case.line.startswith("(qpulls"):
        try:
            return _qpulls(case.line)
        except Exception as e:  # noqa: BLE001
            return "exc:" + type(e).__name__
    if case.line.startswith("(flat"):
        try:
            return _flat(case.line)
        except Exception as e:  # noqa: BLE001
            return "exc:" + type(e).__name__
    if case.line.startswith("(silent"):
        import props.c10_build as B
        return B.run(int(case.line.split()[1].rstrip(")")))
    if case.line.startswith("(two "):
        try:
            return _two(case)
        except Exception as e:  # noqa: BLE001
            return "exc:" + type(e).__name__
    q = case.payload
    which = int(case.key()[:6], 16)   # which never-violated quantification constraint decorates this query
    try:
        silent, full, endp = _consume(q, None, which)
        n = len(full)
        parts = []
        hist = []
        prefix_ok = True
        for k in range(n + 1):
            s_k, rows_k, p_k = _consume(q, k, which)
            silent = silent and s_k
            prefix_ok = prefix_ok and rows_k == full[:k] and _consume.last_again == full
            parts.append(f"k{k}:[" + ",".join(map(str, p_k)) + "]")
            hist.append(f"h{k}:[" + ",".join(map(str, _consume.last_hist)) + "]")
        parts += hist
        return (f"silent={int(silent)} prefix={int(prefix_ok)} n={n} " + " ".join(parts)
                + " end:[" + ",".join(map(str, endp)) + "]")
    except Exception as e:  # noqa: BLE001
        return "exc:" + type(e).__name__


def run_impl(cases):
    return [_one(revive(c)) for c in cases]


def _parse(obs: str):
    m = re.search(r"n=(\d+)", obs)
    if not m:
        return None
    vecs = {k: [int(x) for x in v.split(",") if x] for k, v in re.findall(r"(k\d+|h\d+|t\d+|u\d+|end):\[([^\]]*)\]", obs)}
    return int(m.group(1)), vecs


def compare(impl: str, other: str) -> bool:
    """impl refines the model: silent construction, prefix property, same number of results, pulls <= model"""
    if other == "silent" or impl == "silent" or impl.startswith("touched:"):
        return impl == other
    if other.startswith("pulls="):
        return impl.startswith("pulls=") and int(impl[6:]) <= int(other[6:])
    if other == "exc" or impl.startswith("exc:"):
        return other == "exc" and impl.startswith("exc:")
    if "silent=1" not in impl or "prefix=1" not in impl:
        return False
    a, b = _parse(impl), _parse(other)
    if a is None or b is None or a[0] != b[0] or a[1].keys() != b[1].keys():
        return False
    return all(len(a[1][k]) == len(b[1][k]) and all(x <= y for x, y in zip(a[1][k], b[1][k])) for k in a[1])
