"""C14 — asserting a relation has the same effect whatever objects lived and died before.

Implementation side: a history of create / relate / drop+gc / sweep (so that node indices and ids are recycled)
followed by relation assertions (directly, or by writing descriptor-managed fields), executed on the real krrood.
Every prefixed history comes with its twin without the prefix (the same assertions on a fresh graph): both are
compared with the specification, which is provably the same for both (C14_fresh_equiv).
Observation: relation triples among live instances + contents of the managed fields of live instances
(harness labels only), or `exc` when an assertion raised."""
from __future__ import annotations

import itertools

from core import Case
from props import _sg

PID = "C14"
LEAN_MODULES = ["KrroodVerif.Props.C14"]
THEOREMS = [
    "KrroodVerif.SG.C14_model_eq_spec",
    "KrroodVerif.SG.C14_fresh_equiv",
    "KrroodVerif.SG.C14_fresh_equiv_dead",
    "KrroodVerif.SG.C14_current",
    "KrroodVerif.SG.C14_no_reuse_no_stale",
    "KrroodVerif.SG.C14_partial",
    "KrroodVerif.SG.C14_partial_precise",
    "KrroodVerif.SG.C14_cex_recycled",
    "KrroodVerif.SG.C14_cex_dead_source",
    "KrroodVerif.SG.C14_role_witness",
    "KrroodVerif.SG.sim_addFact",
]
MODEL_FUNCTION = ("SG.step / SG.ensure / SG.relationExists / SG.addEdge / SG.addFact (incl. the inference through role takers: SG.inferTakerSupers, SG.inferInverse, Heap.takerOf, SG.ensureSt) / SG.removeNode / SG.sweep "
                  "(Model/SymbolGraph.lean), run under the LIFO allocator by Drive/SG.lean")
TRUSTED = [
    "Lean 4.33 kernel; axioms of each theorem listed under coverage.theorems",
    "hand-written model Model/SymbolGraph.lean of symbol_graph.py (add_relation, relation_exists, remove_node, "
    "ensure_wrapped_instance) and PropertyDescriptorRelation.add_to_graph (super, inverse, transitive; no role takers)",
    "this correspondence harness (history generators, observation of relations and field contents) and the driver",
]
ASSUMPTIONS = [
    "CPython reclaims exactly the instances unreachable from the harness's references and field contents at gc.collect()",
    "rustworkx never hands out a node index in use; remove_node also removes the incident edges",
    "the descriptor schema of the harness (one scalar field with a super-property, an inverse pair, one transitive "
    "field, two plain fields); role takers are not exercised",
    "direct PredicateClassRelation edges are not attached to instances that take part in the transitive field "
    "(krrood's transitive inference raises on them on a fresh graph as well; not a matter of history)",
]
RULE = ("exhaustive grid of garbage prefixes (creation order x relation x drop order x sweep) x assertion suffixes "
        "(creation order x relation), each run after the prefix and on a fresh graph; transitive-chain families with "
        "dead unswept instances; random prefix+suffix pairs and random interleaved histories of 4-20 operations; "
        "non-trivial = the specification contains at least one relation; distinct by case text")


def extra_obligations():
    """Second tie by translation, shared with C13 (harness/translate/sg_translate.py, Model/SymbolGraphTable.lean): the
    container-operation tables of the SymbolGraph methods are regenerated from /repo's CURRENT source and the kernel re-checks
    that they equal the model's tables, whose interpreters are proved to be the model functions the theorems of this property
    speak about (remove_node's purge of the relation index and of the instance index, add_node, ensure_wrapped_instance). A changed table is searched for a concrete failing history by this property's own correspondence."""
    from props.c13 import extra_obligations as sg_obligations
    return sg_obligations()


def budget(tier: str) -> int:
    return 3000 if tier == "quick" else 80000


def _case(ops, tags, origin):
    return Case("(h " + _sg.show(ops) + ")", tuple(tags), origin, None)


def _rel_op(kind, e, o, o2=None):
    return {0: ["set", 0, e, o], 1: ["set", 1, e, o], 2: ["set", 2, o, e]}[kind]


def _grid():
    out = []
    for p_order in (("e", "o"), ("o", "e")):
        for p_rel in (0, 1, 2):
            for p_drop in (("e", "o"), ("o", "e")):
                for p_sweep in (True, False):
                    lab = {p_order[0]: 0, p_order[1]: 1}
                    cls = {"e": 2, "o": 1}
                    prefix = [["new", lab[x], cls[x]] for x in p_order]
                    prefix.append(_rel_op(p_rel, lab["e"], lab["o"]))
                    prefix += [["drop", lab[x]] for x in p_drop]
                    if p_sweep:
                        prefix.append(["sweep"])
                    for s_order in (("e", "o"), ("o", "e")):
                        for s_rel in (0, 1, 2):
                            for e_cls in (2,):
                                lab2 = {s_order[0]: 100, s_order[1]: 101}
                                cls2 = {"e": e_cls, "o": 1}
                                suffix = [["new", lab2[x], cls2[x]] for x in s_order]
                                suffix.append(_rel_op(s_rel, lab2["e"], lab2["o"]))
                                out.append((prefix, suffix))
    return out


def _chains():
    out = []
    # transitive chains with an instance that dies in the middle of the history, swept or not
    for sweep in (True, False):
        for first in (0, 1):
            ops = [["new", 0, 1], ["new", 1, 1], ["new", 2, 1]]
            ops.append(["set", 3, 0, 1] if first == 0 else ["set", 3, 1, 2])
            ops.append(["drop", 0] if first == 0 else ["drop", 2])
            if sweep:
                ops.append(["sweep"])
            ops.append(["set", 3, 1, 2] if first == 0 else ["set", 3, 0, 1])
            out.append(ops)
    # temporaries created and discarded back to back before the instances that get related: the ids of the dead,
    # unswept temporaries go to the new instances; a sweep in the middle of the assertions
    for k in (1, 3, 6):
        out.append([["churn", 0, k, 2], ["churn", 20, k, 1], ["new", 100, 2], ["new", 101, 1], ["set", 0, 100, 101],
                    ["sweep"], ["set", 1, 100, 101], ["set", 2, 101, 100]])
        out.append([["churn", 0, k, 1], ["new", 100, 1], ["new", 101, 1], ["new", 102, 1], ["set", 3, 100, 101],
                    ["sweep"], ["set", 3, 101, 102]])
        out.append([["new", 100, 1], ["churn", 0, k, 1], ["new", 101, 1], ["churn", 20, k, 1], ["new", 102, 1],
                    ["set", 3, 101, 102], ["sweep"], ["set", 3, 100, 101]])
    # related temporaries that die at once (nothing on the target holds them) and are NOT swept before a new instance
    # at a recycled address asserts the same field towards the same surviving target
    for c, f, tc in ((1, 3, 1), (2, 4, 2), (3, 5, 2), (4, 4, 3)):
        for k in (2, 4, 8):
            a = (lambda s_: ["rel", f, s_, 0]) if f in (4, 5) else (lambda s_: ["set", f, s_, 0])
            out.append([["new", 0, tc], ["relchurn", 10, k, c, f, 0], ["new", 50, c], a(50), ["new", 51, c], a(51)])
            out.append([["new", 0, tc], ["new", 1, c], a(1), ["drop", 1], ["relchurn", 10, k, c, f, 0],
                        ["relchurn", 30, k, c, f, 0], ["new", 50, c], a(50)])
    # a container handed over from an instance that then dies (what dataclasses.replace does), swept or not, then
    # assertions through the adopted container, with transitive consequences on both sides
    for k in (0, 1, 2):
        for sweep in (True, False):
            ops = [["new", i, 1] for i in range(1, 6)] + [["new", 10, 1]]
            ops += [["set", 3, 10, i] for i in range(1, k + 1)] + [["set", 3, 2, 3]]
            ops += [["adopt", 11, 10, 3]]
            if sweep:
                ops.append(["sweep"])
            ops += [["set", 3, 11, 4], ["set", 3, 4, 5], ["set", 3, 5, 1]]
            out.append(ops)
            out.append(ops[:-3] + [["set", 3, 4, 5], ["set", 3, 11, 4], ["adopt", 12, 11, 3], ["set", 3, 12, 5]])
    # Symbols with user-defined truthiness (class 9: falsy while empty) related directly; sweeps while they are
    # falsy / truthy; related again afterwards
    for pre_fill in (False, True):
        ops = [["new", 0, 9], ["new", 1, 2], ["new", 2, 9], ["new", 3, 4]]
        if pre_fill:
            ops.append(["fill", 0])
        ops += [["rel", 4, 0, 1], ["rel", 4, 2, 0], ["rel", 5, 3, 2], ["sweep"], ["rel", 5, 0, 1], ["empty", 0], ["fill", 2],
                ["sweep"], ["rel", 5, 1, 0], ["rel", 4, 0, 3], ["empty", 2], ["sweep"], ["rel", 4, 1, 2]]
        out.append(ops)
    out.append([["new", 0, 9], ["new", 1, 9], ["rel", 4, 0, 1], ["drop", 1], ["sweep"], ["new", 2, 9], ["rel", 4, 0, 2],
                ["rel", 5, 2, 0], ["sweep"], ["rel", 5, 0, 2]])
    # roles: a relation asserted on a role reaches the role taker (super-property on the role taker); the role dies
    # while its role taker lives on, is swept (or not), and a new role of another taker gets the recycled node index
    for sweep in (True, False):
        for first in ("manage", "head"):
            for k in (1, 2):
                ops = [["new", 0, 2], ["new", 1, 2], ["new", 2, 1], ["new", 3, 1]]
                ops += [["newrole", 10 + i, 0] for i in range(k)]
                ops += [[first, 10 + i, 2] for i in range(k)]
                ops += [["drop", 10 + i] for i in range(k)]
                if first == "head":
                    ops += [["drop", 2]]  # the Org holds the role through members; the taker holds the Org
                if sweep:
                    ops.append(["sweep"])
                ops += [["newrole", 20 + i, 1] for i in range(k)]
                ops += [["manage", 20 + i, 3] for i in range(k)] + [["head", 20, 3]]
                out.append(ops)
    out.append([["new", 0, 2], ["new", 1, 2], ["new", 2, 1], ["newrole", 3, 0], ["manage", 3, 2], ["set", 8, 1, 2],
                ["drop", 3], ["sweep"], ["newrole", 4, 1], ["newrole", 5, 0], ["manage", 5, 2], ["manage", 4, 2]])
    for perm in itertools.permutations([(3, 2), (2, 1), (1, 0)]):
        ops = [["new", i, 1] for i in range(4)]
        ops += [["set", 3, a, b] for a, b in perm]
        out.append(ops)
    # a container assertion whose inference overwrites a scalar field: the overwritten value dies at once
    out.extend(_sg.overwrite_families())
    # items leaving a managed list field by plain (un-hooked) list operations, their death, address re-use, then inference
    # into that list
    out.extend(_sg.unlist_families())
    # subclass instances (Mgr < Emp) whose relations are inferred through the subclass's view of the inherited field
    out.extend(_sg.subclass_families())
    return out


def generate(rng, tier, n):
    cases = []
    for prefix, suffix in _grid():
        cases.append(_case(prefix + suffix, ("grid", "after-prefix"), "exhaustive"))
        cases.append(_case(suffix, ("grid", "fresh"), "exhaustive"))
    for ops in _chains():
        cases.append(_case(ops, ("chain",), "exhaustive"))
    for i in range(n):
        if i % 3 != 2:
            # garbage prefix (everything created in it is dropped), then assertions on new instances
            gp = _sg.Gen(rng, classes=rng.choice([(1, 1, 2, 3), (1, 1, 2, 3), (1, 2, 9, 4)]))
            gp.sub_targets = rng.random() < 0.5
            prefix = gp.history(rng.randint(3, 10), w_query=0, w_clear=0, w_sweep=0.5, w_churn=rng.choice([0.0, 0.5]),
                                w_role=rng.choice([0.0, 1.5]), w_bag=rng.choice([0.0, 1.0]),
                                w_adopt=rng.choice([0.0, 0.8]),
                                w_relchurn=rng.choice([0.0, 0.6]), w_unlist=rng.choice([0.0, 0.0, 1.0]))
            for o in list(gp.held):
                prefix.append(["drop", o])
            if rng.random() < 0.6:
                prefix.append(["sweep"])
            gs = _sg.Gen(rng, classes=rng.choice([(1, 1, 2, 3), (1, 1, 2, 3), (1, 2, 9, 4)]), first_label=100)
            gs.sub_targets = rng.random() < 0.5
            suffix = gs.history(rng.randint(3, 10), w_query=0, w_clear=0, w_drop=0.5, w_sweep=0.3,
                                w_role=rng.choice([0.0, 1.5]), w_bag=rng.choice([0.0, 1.0]),
                                w_adopt=rng.choice([0.0, 0.8]),
                                w_relchurn=rng.choice([0.0, 0.0, 0.8]), w_unlist=rng.choice([0.0, 0.0, 0.8]))
            cases.append(_case(prefix + suffix, ("random", "after-prefix"), "random"))
            cases.append(_case(suffix, ("random", "fresh"), "random"))
        else:
            g = _sg.Gen(rng, classes=rng.choice([(1, 1, 2, 3), (1, 1, 2, 3), (1, 2, 9, 4)]))
            g.sub_targets = rng.random() < 0.5
            unl = rng.choice([0.0, 0.0, 1.0])
            # (plain removals are not generated together with clear(): the driver reads "put there by the user or by
            # inference" off the relation's edge, which clear() discards)
            ops = g.history(rng.randint(4, 20), w_query=0, w_clear=0.0 if unl else 0.2, w_unlist=unl, w_role=rng.choice([0.0, 2.0]),
                            w_bag=rng.choice([0.0, 1.0]), w_adopt=rng.choice([0.0, 1.0]))
            cases.append(_case(ops, ("random", "interleaved"), "random"))
    return cases


def nontrivial(case: Case, spec: str) -> bool:
    return "rels=[]" not in spec and spec != "exc"


def shrink(case: Case):
    ops = _sg.parse(case.line)[1:]
    for smaller in _sg.shrink_ops(ops):
        yield _case(smaller, ("shrink",), "shrink")


def run_impl(cases):
    return _sg.run_impl(PID, cases)
