"""C18 — JSON serialisation round-trips polymorphic objects through real JSON text.

Implementation side: the real `to_json` -> `json.dumps` -> `json.loads` -> `from_json` of
krrood/adapters/json_serializer.py on values built from harness-defined `SubclassJSONSerializer` subclasses (module
level, subclass depth 1..5, generic and dataclass style, siblings, multiple inheritance), registered third-party
types (uuid.UUID, fractions.Fraction, harness classes), lists and leaves — including classes with IDENTICAL
`__name__` in three different modules (props.c18 and two modules made at import time), mixed in one value.

Observation (DESIGN 2.3): (value, exact class) of the result, printed structurally, plus the `__json_type__` entry of
every object of the JSON *text*.  Leaves travel as opaque tokens (ints as decimal, floats as IEEE bit patterns,
strings and payloads as hex of their UTF-8) — never floats or unicode as text across Lean/Python.

The import environment the model needs (does the module import, what does getattr find) is probed from the running
interpreter for every class a value uses and written into the case line.

This module also hosts what C19 shares with C18 (class zoo, probing, encoders)."""
from __future__ import annotations

import importlib
import itertools
import json
import re
import struct
import sys
import types
import typing
import uuid
from dataclasses import dataclass, fields as dc_fields
from fractions import Fraction
from typing import Any, Dict, List, Optional, Tuple

from core import Case, use_repo_sources

use_repo_sources()  # krrood must come from $KRROOD_VERIF_REPO/src (default /repo/src), also for the classes below

from krrood.adapters.json_serializer import (  # noqa: E402
    JSON_TYPE_NAME,
    JSONSerializableTypeRegistry,
    JSONSerializationError,
    SubclassJSONSerializer,
    from_json,
    to_json,
)

PID = "C18"
LEAN_MODULES = ["KrroodVerif.Props.C18", "KrroodVerif.Props.C18Tables"]
THEOREMS = [
    "KrroodVerif.Json.C18_roundtrip",
    "KrroodVerif.Json.C18_tag",
    "KrroodVerif.Json.resolve_resolvable",
    "KrroodVerif.Json.rsplit_fullName",
    "KrroodVerif.Json.C18_roundtrip_shared",
    "KrroodVerif.Json.C18_history",
    "KrroodVerif.Json.C18_registered_wf",
    "KrroodVerif.Json.serializable_of_wf",
    "KrroodVerif.Json.C18_toJson_eq_interp",
    "KrroodVerif.Json.C18_fromJson_eq_interp",
    "KrroodVerif.Json.C18_interp_of_dispatch_eq",
    "KrroodVerif.Json.C18_roundtrips_of_wellformed",
    "KrroodVerif.Json.C18_of_dispatch_eq",
    "KrroodVerif.Json.C18_builtin_pair_inverse",
    "KrroodVerif.Json.tables_roundTrips",
]


def extra_obligations():
    """Second tie: regenerate the dispatch tables of `to_json` / `from_json`, the tag composition, the tag-resolution
    stages and the registry lookup rule from /repo's CURRENT source (Python ast) and have the kernel re-check that they
    decide every kind of value like the model's tables (`Json.tables`, for which C18_toJson_eq_interp / C18_fromJson_eq_interp
    prove that the table interpreters ARE `toJson` / `fromJson`) and that they satisfy `RoundTrips`."""
    import os
    import subprocess
    import core
    from translate import c18_translate as T
    names = [f"{T.NAMESPACE}.{n}" for n in T.OBLIGATIONS]
    try:
        text = T.generate(core.REPO)
    except (T.TranslationError, SyntaxError, OSError, RecursionError) as e:
        return [{"name": n, "ok": False, "detail": f"translator rejected the source: {e}"} for n in names]
    tmp = core.LEAN_DIR / ".lake" / "audit"
    tmp.mkdir(parents=True, exist_ok=True)
    table = text[text.find("def tables"):text.find("/-- the current source decides")]
    res = []
    # the two `decide` obligations are checked separately (one failing must not hide the other); the two consequences
    # are checked with them
    for variant, keep in (("eq", [0, 3]), ("wf", [1, 2])):
        body = text
        drop = [n for i, n in enumerate(T.OBLIGATIONS) if i not in keep]
        for n in drop:  # cut the theorem `n` (from its doc comment to the next doc comment / end)
            i = body.find(f"theorem {n} ")
            i = body.rfind("/--", 0, i)
            j = body.find("/--", body.find(f"theorem {n} "))
            j = j if j != -1 else body.find(f"end {T.NAMESPACE}")
            body = body[:i] + body[j:]
        f = tmp / f"C18Translated_{variant}_{os.getpid()}.lean"
        mine = [names[i] for i in keep]
        f.write_text(body + "".join(f"#print axioms {n}\n" for n in mine))
        try:
            p = subprocess.run(["lake", "env", "lean", str(f)], cwd=str(core.LEAN_DIR), capture_output=True, text=True, timeout=600)
        finally:
            try:
                f.unlink()
            except OSError:
                pass
        out = " ".join(((p.stdout or "") + (p.stderr or "")).split())
        for n in mine:
            m = re.search(r"'" + re.escape(n) + r"' depends on axioms: \[([^\]]*)\]", out)
            none = re.search(r"'" + re.escape(n) + r"' does not depend on any axioms", out)
            ax = [a.strip() for a in m.group(1).split(",")] if m else ([] if none else None)
            ok = p.returncode == 0 and ax is not None and set(ax) <= core.ALLOWED_AXIOMS
            res.append({"name": n, "ok": ok, "axioms": ax,
                        "detail": "regenerated tables:\n" + table + (p.stdout or "")[-1500:] + (p.stderr or "")[-800:]})
    return res
MODEL_FUNCTION = "Json.toJson / Json.fromJson / Json.resolve / Json.wf / Json.expand / Json.stepOp (Model/Json.lean)"
TRUSTED = [
    "Lean 4.33 kernel; axioms of each theorem listed under coverage.theorems",
    "hand-written model Model/Json.lean of to_json / from_json / SubclassJSONSerializer.to_json / .from_json and the registry",
    "this correspondence harness (value generator, environment probe, canonical printer) and the S-expression driver",
]
ASSUMPTIONS = [
    "json.dumps/json.loads is the identity on trees of None/bool/int/float(non-NaN)/str/list/dict-with-str-keys "
    "(checked on the serialised form of every case; count in coverage.json_identity_checked/failed)",
    "subclasses follow the convention of the repository's tests: to_json = super().to_json() + fields through to_json, "
    "_from_json rebuilds cls from every entry but the tag through from_json; registered (de)serializers are mutually inverse "
    "and write the tag of type(obj)",
    "classes are module-level, reachable under __name__ in __module__ (Json.wf); NaN excluded (NaN != NaN)",
    "values are finite: a list / object may be referenced from several places (DAG) but never contains itself",
    "a registration is a matching (serializer, deserializer) pair keeping the payload under one key (Registration.key); "
    "the registry only grows or replaces (there is no API to forget a type)",
]
RULE = ("corpus, then a fixed family (every leaf, every class empty / holding every leaf kind, list nestings to depth 6, "
        "every registered type, every class in one list, serialisable objects that are also ITERABLE (container-like / one-shot iterator / "
        "unpacking-support serializer classes and registered types, empty and non-empty, top level / list element / field value / nested), string leaves whose content is JSON text (documents of every JSON type, "
        "with/without surrounding blanks, compact/indented, the dumped form of every class of the zoo, near misses) at top level / "
        "as list element / as field value / as registered payload, classes sharing one __name__ across three modules side by side / "
        "nested in every order, DAG-shaped values in which one list / one object is referenced from several places, registry "
        "histories: failed attempt -> register -> round trip, register -> serialise -> re-register under another encoding -> "
        "round trip, stored documents read before/after a registration, two types interleaved), then random values of "
        "depth <= 5 (quick) / 7 (thorough) over the harness class zoo — strings are arbitrary text INCLUDING (3 in 10) JSON text: "
        "the dumped reference serialisation of another value of the same case or of a fresh one, at every depth — one position in eight re-uses an already built list or "
        "object (same id()) — and, one case in six, a random registry history of 2..7 operations on brand-new third-party "
        "classes; every case goes through real JSON text; non-trivial = the value contains at least one object or a list "
        "nested in a list; distinct by case text")

KEY = JSON_TYPE_NAME

# ---------------------------------------------------------------------------------------------- class zoo


class PayloadError(Exception):
    """raised by the harness classes / deserializers when the *payload* is unusable (not a matter of tag resolution)"""


class Node(SubclassJSONSerializer):
    """generic serialisable object with arbitrary named fields (subclass depth 1)"""

    def __init__(self, **fields):
        self.fields = dict(fields)

    def to_json(self) -> Dict[str, Any]:
        data = super().to_json()
        for k, v in self.fields.items():
            data[k] = to_json(v)
        return data

    @classmethod
    def _from_json(cls, data, **kwargs):
        _note_dispatch(cls, "_from_json")
        return cls(**{k: from_json(v) for k, v in data.items() if k != JSON_TYPE_NAME})

    def __eq__(self, other):
        return type(self) is type(other) and self.fields == other.fields

    __hash__ = None

    def __repr__(self):
        return f"{type(self).__name__}({self.fields})"


class NodeA(Node):  # depth 2, inherits everything
    pass


class NodeAA(NodeA):  # depth 3, overrides to_json in the style of the repository's tests
    def to_json(self):
        return {**super().to_json()}


class NodeAAA(NodeAA):  # depth 4
    pass


class NodeAAAA(NodeAAA):  # depth 5, overrides _from_json through super()
    @classmethod
    def _from_json(cls, data, **kwargs):
        return super()._from_json(data, **kwargs)


class NodeB(Node):  # sibling branch
    pass


class NodeBA(NodeB):
    pass


class Mixin:
    pass


class NodeM(Mixin, NodeA):  # multiple inheritance, serializer not first in the MRO
    pass


@dataclass(eq=False)
class Animal(SubclassJSONSerializer):
    """dataclass style with fixed fields, as in test_json_serializer.py"""

    name: Any
    age: Any

    def to_json(self):
        data = super().to_json()
        data.update({"name": to_json(self.name), "age": to_json(self.age)})
        return data

    @classmethod
    def _from_json(cls, data, **kwargs):
        _note_dispatch(cls, "_from_json")
        missing = [f.name for f in dc_fields(cls) if f.name not in data]
        if missing:
            raise PayloadError(f"missing {missing}")
        return cls(**{f.name: from_json(data[f.name]) for f in dc_fields(cls)})

    def __eq__(self, other):
        return type(self) is type(other) and fields_of(self) == fields_of(other)


@dataclass(eq=False)
class Dog(Animal):
    breed: Any = "mixed"

    def to_json(self):
        data = super().to_json()
        data.update({"breed": to_json(self.breed)})
        return data


@dataclass(eq=False)
class Bulldog(Dog):
    stubborn: Any = True

    def to_json(self):
        data = super().to_json()
        data.update({"stubborn": to_json(self.stubborn)})
        return data


@dataclass(eq=False)
class Cat(Animal):
    lives: Any = 9

    def to_json(self):
        data = super().to_json()
        data.update({"lives": to_json(self.lives)})
        return data


# serialisable objects that are ALSO iterable (container-like objects; `x, y = v` unpacking support) -------------------
# Being iterable is not part of the JSON convention: an object with a serializer of its own is written through that
# serializer — tag and named fields — whatever other protocols it implements (`__iter__`, `__len__`, `__getitem__`).
# The model does not see these protocols at all; the classes below are ordinary members of the zoo for it.


class Bag(Node):  # generic container-like object: iterates over its items (field values), sized, indexable
    def __iter__(self):
        return iter(list(self.fields.values()))

    def __len__(self):
        return len(self.fields)

    def __getitem__(self, i):
        return list(self.fields.values())[i]


class IterMixin:  # the iteration protocol comes from a mixin that precedes the serializer in the MRO
    def __iter__(self):
        return iter(sorted(self.fields))


class KeyedBag(IterMixin, NodeAA):  # mapping-like without being a Mapping: iterates over its field NAMES
    pass


class Stream(NodeB):  # a one-shot iterator object (`__next__`), always exhausted at once
    def __iter__(self):
        return self

    def __next__(self):
        raise StopIteration


@dataclass(eq=False)
class Pair(Animal):  # dataclass style with unpacking support: `name, age = pair`
    def __iter__(self):
        yield self.name
        yield self.age


@dataclass(eq=False)
class Polyline(Pair):  # container-like dataclass: iterates over its points only, has other fields as well
    points: Any = None

    def to_json(self):
        data = super().to_json()
        data.update({"points": to_json(self.points)})
        return data

    def __iter__(self):
        return iter(self.points if type(self.points) is list else [])


ITERABLE_SER = [Bag, KeyedBag, Stream, Pair, Polyline]

GENERIC = [Node, NodeA, NodeAA, NodeAAA, NodeAAAA, NodeB, NodeBA, NodeM, Bag, KeyedBag, Stream]
FIXED = [Animal, Dog, Bulldog, Cat, Pair, Polyline]
SER_CLASSES = GENERIC + FIXED


def schema(cls) -> Optional[List[str]]:
    """None = any field names; otherwise the fixed field names"""
    return [f.name for f in dc_fields(cls)] if cls in FIXED else None


def fields_of(obj) -> Dict[str, Any]:
    if isinstance(obj, Node):
        return obj.fields
    return {f.name: getattr(obj, f.name) for f in dc_fields(obj)}


def depth_of(cls) -> int:
    return sum(1 for c in cls.__mro__ if c is not SubclassJSONSerializer and issubclass(c, SubclassJSONSerializer))


# registered third-party types -------------------------------------------------------------------------------


class Money:  # a plain class the harness "does not control the inheritance of"
    def __init__(self, s: str):
        self.s = s

    def __eq__(self, other):
        return type(self) is type(other) and self.s == other.s

    __hash__ = None


class Money2(Money):  # the registry is keyed by exact type: a subclass needs (and gets) its own entry
    pass


class Vec:  # a registered third-party vector type that supports unpacking (`x, y = v`): iterable, sized, indexable
    def __init__(self, s: str):
        self.s = s

    def _parts(self):
        return [p for p in self.s.split(",") if p]

    def __iter__(self):
        return iter(self._parts())

    def __len__(self):
        return len(self._parts())

    def __getitem__(self, i):
        return self._parts()[i]

    def __eq__(self, other):
        return type(self) is type(other) and self.s == other.s

    __hash__ = None


class Chars(Money):  # a registered subclass of a registered type that iterates over the characters of its payload
    def __iter__(self):
        return iter(self.s)


ITERABLE_EXT = [Vec, Chars]


def _mk_ser(cls, payload):
    def ser(obj):
        return {JSON_TYPE_NAME: cls.__module__ + "." + cls.__name__, "value": payload(obj)}
    return ser


def _mk_deser(cls, build):
    def deser(data, **kwargs):
        _note_dispatch(cls, "registry")
        v = data.get("value") if isinstance(data, dict) else None
        if not isinstance(v, str):
            raise PayloadError("value")
        try:
            return build(v)
        except Exception as e:  # noqa: BLE001
            raise PayloadError(str(e)) from e
    return deser


# type -> (payload string of an instance, constructor from the payload string)
EXT: Dict[type, Tuple[Any, Any]] = {
    uuid.UUID: (str, uuid.UUID),  # registered by krrood itself
    Fraction: (str, Fraction),
    Money: (lambda o: o.s, Money),
    Money2: (lambda o: o.s, Money2),
    Vec: (lambda o: o.s, Vec),
    Chars: (lambda o: o.s, Chars),
}
for _t, (_p, _b) in EXT.items():
    if _t is not uuid.UUID:
        JSONSerializableTypeRegistry().register(_t, _mk_ser(_t, _p), _mk_deser(_t, _b))

LAST_DISPATCH: List[Tuple[type, str]] = []


def _note_dispatch(cls, via):
    LAST_DISPATCH.append((cls, via))


# classes with IDENTICAL __name__ in DIFFERENT modules ---------------------------------------------------------
# Two more modules are created programmatically and registered in sys.modules (so importlib.import_module finds
# them like any imported submodule). Each defines serialisable classes / a registered type whose short names collide
# with each other and with the classes above (Node, Dog, Money) but whose parents and fields differ. The identity of
# a class is (module, name): a resolver that remembers classes under their short name gives back the wrong one.

_PKG = __name__.rpartition(".")[0]


def _new_module(short: str) -> types.ModuleType:
    name = f"{_PKG}.{short}" if _PKG else short
    mod = types.ModuleType(name, "harness-made module for C18/C19: same class names as props.c18, other classes")
    sys.modules[name] = mod
    if _PKG and _PKG in sys.modules:
        setattr(sys.modules[_PKG], short, mod)  # what importing a submodule does
    return mod


def _populate_a(mod):
    m = mod.__name__

    class Node(NodeA):  # generic, subclass depth 3
        __module__ = m
        __qualname__ = "Node"

    class Shape(globals()["Node"]):  # generic, subclass depth 2
        __module__ = m
        __qualname__ = "Shape"

    @dataclass(eq=False)
    class Dog(Animal):  # fields name, age, tricks  (props.c18.Dog: name, age, breed)
        __module__ = m
        __qualname__ = "Dog"
        tricks: Any = None

        def to_json(self):
            data = super().to_json()
            data.update({"tricks": to_json(self.tricks)})
            return data

    class Money:  # a registered plain class, unrelated to props.c18.Money
        __module__ = m
        __qualname__ = "Money"

        def __init__(self, s: str):
            self.s = s

        def __eq__(self, other):
            return type(self) is type(other) and self.s == other.s

        __hash__ = None

    for c in (Node, Shape, Dog, Money):
        setattr(mod, c.__name__, c)


def _populate_b(mod):
    m = mod.__name__

    class Node(NodeBA):  # generic, subclass depth 4, other branch
        __module__ = m
        __qualname__ = "Node"

    class Shape(NodeAAAA):  # generic, subclass depth 6
        __module__ = m
        __qualname__ = "Shape"

    @dataclass(eq=False)
    class Dog(globals()["Dog"]):  # fields name, age, breed, owner
        __module__ = m
        __qualname__ = "Dog"
        owner: Any = None

        def to_json(self):
            data = super().to_json()
            data.update({"owner": to_json(self.owner)})
            return data

    class Money(Money2):  # registered separately (the registry is keyed by exact type)
        __module__ = m
        __qualname__ = "Money"

    for c in (Node, Shape, Dog, Money):
        setattr(mod, c.__name__, c)


MOD_A = _new_module("_c18_mod_a")
MOD_B = _new_module("_c18_mod_b")
_populate_a(MOD_A)
_populate_b(MOD_B)

GENERIC += [MOD_A.Node, MOD_A.Shape, MOD_B.Node, MOD_B.Shape]
FIXED += [MOD_A.Dog, MOD_B.Dog]
SER_CLASSES = GENERIC + FIXED
for _t in (MOD_A.Money, MOD_B.Money):
    EXT[_t] = ((lambda o: o.s), _t)
    JSONSerializableTypeRegistry().register(_t, _mk_ser(_t, EXT[_t][0]), _mk_deser(_t, _t))
EXT_MONEY = [Money, Money2, MOD_A.Money, MOD_B.Money, Vec, Chars]  # registered types whose deserializer accepts any string

# groups of distinct classes sharing one __name__
SAME_NAME = [
    [Node, MOD_A.Node, MOD_B.Node],
    [Dog, MOD_A.Dog, MOD_B.Dog],
    [MOD_A.Shape, MOD_B.Shape],
    [Money, MOD_A.Money, MOD_B.Money],
]


class NotSerializable:  # a plain class nobody registered (C19: ClassNotDeserializableError)
    pass


# unregistered SUBCLASSES of registered types (C19): registration is by exact type, so none of them is deserialisable —
# a registry that falls back to a registered base would hand back an object of the base type
class TrackingNumber(uuid.UUID):  # of the type krrood registers itself
    pass


class ExpressNumber(TrackingNumber):  # subclass of a subclass
    pass


class Coin(Money):  # of a harness-registered type
    pass


class RareCoin(Coin):
    pass


class Token(Money2):  # of a registered subclass of a registered type
    pass


class Ratio(Fraction):
    pass


UNREGISTERED_SUBCLASSES = [TrackingNumber, ExpressNumber, Coin, RareCoin, Token, Ratio]


# serializer classes that do NOT implement `_from_json` (C19): like the abstract base itself they only inherit
# SubclassJSONSerializer._from_json, which raises NotImplementedError
class AbstractNode(SubclassJSONSerializer):
    pass


class AbstractLeaf(AbstractNode):  # abstract intermediate, one level deeper
    pass


class ConcreteOfAbstract(AbstractNode):  # a concrete class below an abstract one: deserialisable again
    def __eq__(self, other):
        return type(self) is type(other)

    __hash__ = None

    @classmethod
    def _from_json(cls, data, **kwargs):
        _note_dispatch(cls, "_from_json")
        return cls()


ABSTRACT_SERIALIZERS = [AbstractNode, AbstractLeaf]


class RegisteredNode(Node):  # a serializer class that ALSO has a registered deserializer (C19): `_from_json` wins
    pass


JSONSerializableTypeRegistry().register(
    RegisteredNode, lambda obj: obj.to_json(), _mk_deser(RegisteredNode, lambda v: RegisteredNode(value=v)))


# never-registered classes that SHARE `__module__ + "." + __name__` with a registered type (C19) -----------------------
# The identity of a class is the class OBJECT. Distinct classes can carry one qualified name: the pure-Python twin of a
# C type (`_pydecimal.Decimal.__module__ == "decimal"`), a nested class re-exported at module level, a class made by
# `type(name, …)` / a factory and bound to another attribute, a class object left over from before a module reload,
# a class that another module re-exports under its own attribute name. None of them was ever registered, so a tag
# that names one of them (through the attribute it is reachable under) is not deserialisable.
import decimal as _decimal  # noqa: E402

EXT[_decimal.Decimal] = (str, _decimal.Decimal)  # a registered C type that has a pure-Python twin in the stdlib
JSONSerializableTypeRegistry().register(_decimal.Decimal, _mk_ser(_decimal.Decimal, str), _mk_deser(_decimal.Decimal, _decimal.Decimal))

IDENT_OVERRIDE: Dict[type, str] = {}  # class -> identity in case lines, where module:qualname would not tell it apart
TWINS: List[Tuple[str, str, type, type]] = []  # (module, attribute) it is reachable under, the twin, the registered class


def _payload_init(self, s: str = ""):
    self.s = s


def _add_twin(mod: types.ModuleType, attr: str, of: type, bases=(), twin: Optional[type] = None) -> type:
    if twin is None:
        twin = type(of.__name__, tuple(bases), {"__init__": _payload_init, "__module__": of.__module__, "__hash__": None})
    assert twin is not of and twin.__module__ == of.__module__ and twin.__name__ == of.__name__
    setattr(mod, attr, twin)
    IDENT_OVERRIDE[twin] = f"{mod.__name__}:{attr}"
    TWINS.append((mod.__name__, attr, twin, of))
    return twin


class Legacy:  # nested classes, re-exported at module level below
    class Money2:
        pass

    class Vec:
        def __iter__(self):
            return iter(())


_THIS = sys.modules[__name__]
_add_twin(_THIS, "MoneyTwin", Money)  # `type("Money", …)` bound to another attribute of the same module
_add_twin(_THIS, "LegacyMoney2", Money2, twin=Legacy.Money2)  # nested class re-exported at module level
_add_twin(_THIS, "LegacyVec", Vec, twin=Legacy.Vec)
_add_twin(_THIS, "MoneyBeforeReload", Money, bases=(Money,))  # a SUBCLASS carrying its registered base's name
_add_twin(_THIS, "RegisteredNodeTwin", RegisteredNode)  # plain class named like a registered serializer class
_add_twin(_THIS, "NodeTwin", Node)  # plain class named like a serializer class (nothing registered under that name)
_add_twin(MOD_A, "UUIDReexport", uuid.UUID)  # another module re-exports a class that calls itself uuid.UUID
_add_twin(MOD_A, "MoneyOfB", MOD_B.Money)  # … and one that calls itself like a registered class of a third module
_add_twin(MOD_B, "Fraction", Fraction)  # reachable under the same attribute NAME in another module
try:
    import _pydecimal  # noqa: E402
    if _pydecimal.Decimal is not _decimal.Decimal and _pydecimal.Decimal.__module__ == "decimal":
        IDENT_OVERRIDE[_pydecimal.Decimal] = "_pydecimal:Decimal"
        TWINS.append(("_pydecimal", "Decimal", _pydecimal.Decimal, _decimal.Decimal))
except ImportError:  # pragma: no cover
    pass


def implements_from_json(cls) -> bool:
    return getattr(cls._from_json, "__func__", None) is not SubclassJSONSerializer._from_json.__func__


NODE_INSTANCE = Node()  # a module attribute that is an instance, not a class (C19)
T_VAR = typing.TypeVar("T_VAR")  # a module attribute that is a TypeVar (C19)


def a_function():  # a module attribute that is a function (C19)
    return None


Alias = NodeB  # a second name for a class: the tag never uses it, but a document may (C19)


ALIAS: Dict[type, Tuple[str, str, str]] = {}  # real history class -> (ident, module, name) used in case lines


def ident(cls) -> str:
    if cls in ALIAS:
        return ALIAS[cls][0]
    if cls in IDENT_OVERRIDE:
        return IDENT_OVERRIDE[cls]
    return f"{cls.__module__}:{cls.__qualname__}"


CLASS_BY_IDENT = {ident(c): c for c in SER_CLASSES + list(EXT) + [NotSerializable]}

# third-party types of registry HISTORIES -------------------------------------------------------------------------
# A history needs types that are NOT registered when it starts, and the registry has no way to forget a type. So
# every evaluation of a history case (first run, shrink step, replay) makes brand-new plain classes in the module
# `props._c18_hist` and the case line talks about them under logical names H0, H1, ….

HIST_MOD = _new_module("_c18_hist")
_hist_counter = itertools.count()


def fresh_hist_classes(k: int) -> List[type]:
    out = []
    for i in range(k):
        real = f"H{next(_hist_counter)}_{i}"

        class _H:
            def __init__(self, s: str):
                self.s = s

            def __eq__(self, other):
                return type(self) is type(other) and self.s == other.s

            __hash__ = None

            def __repr__(self):
                return f"{type(self).__name__}({self.s!r})"

        _H.__name__ = _H.__qualname__ = real
        _H.__module__ = HIST_MOD.__name__
        setattr(HIST_MOD, real, _H)
        ALIAS[_H] = (f"hist:H{i}", HIST_MOD.__name__, f"H{i}")
        out.append(_H)
    return out


def is_ext(t) -> bool:
    return t in EXT or t in ALIAS


def ext_payload(v) -> str:
    t = type(v)
    return v.s if t in ALIAS else EXT[t][0](v)


def hist_register(cls, key: str) -> None:
    """register a matching (serializer, deserializer) pair that keeps the payload under `key`"""
    full = cls.__module__ + "." + cls.__name__

    def ser(obj):
        return {JSON_TYPE_NAME: full, key: obj.s}

    def deser(data, **kwargs):
        v = data.get(key) if isinstance(data, dict) else None
        if not isinstance(v, str):
            raise PayloadError(key)
        return cls(v)

    JSONSerializableTypeRegistry().register(cls, ser, deser)

# ---------------------------------------------------------------------------------------------- S-expressions

_SAFE = re.compile(r"^[ !#-\[\]-~]*$")  # printable ASCII without `"` and `\`


def enc_str(s: str) -> str:
    if _SAFE.match(s):
        return '"' + s + '"'
    return "(cp" + "".join(f" {ord(ch)}" for ch in s) + ")"


def hex_tok(s: str) -> str:
    return s.encode("utf-8", "surrogatepass").hex()


def unhex_tok(t: str) -> str:
    return bytes.fromhex(t).decode("utf-8", "surrogatepass")


def float_bits(x: float) -> int:
    if x == 0:  # +0.0 and -0.0 are equal values: one token
        return 0
    return struct.unpack("<Q", struct.pack("<d", x))[0]


def bits_float(b: int) -> float:
    return struct.unpack("<d", struct.pack("<Q", b))[0]


def parse_sexp(text: str):
    """nested lists; atoms are `str`; quoted strings are `Q(str)`"""
    i, n = 0, len(text)

    def rd():
        nonlocal i
        while i < n and text[i] in " \t":
            i += 1
        if text[i] == "(":
            i += 1
            out = []
            while True:
                while i < n and text[i] in " \t":
                    i += 1
                if text[i] == ")":
                    i += 1
                    return out
                out.append(rd())
        if text[i] == '"':
            i += 1
            buf = []
            while text[i] != '"':
                if text[i] == "\\":
                    i += 1
                    buf.append("\n" if text[i] == "n" else text[i])
                else:
                    buf.append(text[i])
                i += 1
            i += 1
            return "".join(buf)
        j = i
        while i < n and text[i] not in " \t()":
            i += 1
        return text[j:i]

    return rd()


def dec_str(x) -> str:
    if isinstance(x, list):
        assert x[0] == "cp"
        return "".join(chr(int(c)) for c in x[1:])
    return x


def enc_cls(cls) -> str:
    if cls in ALIAS:
        i, m, n = ALIAS[cls]
        return f"(k {enc_str(i)} {enc_str(m)} {enc_str(n)})"
    return f"(k {enc_str(ident(cls))} {enc_str(cls.__module__)} {enc_str(cls.__name__)})"


def _shared_ids(v) -> Dict[int, int]:
    """ids of the list objects / serialisable objects that occur more than once in the value -> label"""
    seen: Dict[int, int] = {}

    def walk(x):
        t = type(x)
        if t is list or t in SER_CLASSES:
            seen[id(x)] = seen.get(id(x), 0) + 1
            for y in (x if t is list else fields_of(x).values()):
                walk(y)

    walk(v)
    labels: Dict[int, int] = {}
    for i, n in seen.items():  # insertion order = document order of the first occurrence
        if n > 1:
            labels[i] = len(labels)
    return labels


def enc_val(v, raw: bool = False) -> str:
    """the value as the Lean `SVal` (raw: strings/payloads verbatim — only for plain-ASCII content). An object that is
    referenced from several places is written `(def n …)` at its first occurrence and `(ref n)` afterwards."""
    tok = (lambda s: enc_str(s)) if raw else (lambda s: '"' + hex_tok(s) + '"')
    labels = _shared_ids(v)
    done = set()

    def enc(x) -> str:
        t = type(x)
        if x is None:
            return "N"
        if t is bool:
            return "T" if x else "F"
        if t is int:
            return f"(i {x})"
        if t is float:
            return f"(f {float_bits(x)})"
        if t is str:
            return f"(s {tok(x)})"
        if is_ext(t):
            return f"(x {enc_cls(t)} {tok(ext_payload(x))})"
        if t is list or t in SER_CLASSES:
            lab = labels.get(id(x))
            if lab is not None and id(x) in done:
                return f"(ref {lab})"
            if t is list:
                body = "(l" + "".join(" " + enc(y) for y in x) + ")"
            else:
                body = f"(o {enc_cls(t)}" + "".join(f" ({enc_str(k)} {enc(y)})" for k, y in fields_of(x).items()) + ")"
            if lab is not None:
                done.add(id(x))
                return f"(def {lab} {body})"
            return body
        raise TypeError(f"value outside the grammar: {t}")

    return enc(v)


DECODE_EXTRA: Dict[str, type] = {}  # logical ident -> fresh history class, during one evaluation


def _class_of_ident(i: str) -> type:
    return DECODE_EXTRA[i] if i in DECODE_EXTRA else CLASS_BY_IDENT[i]


def dec_val(x, raw: bool = False, labels: Optional[Dict[int, Any]] = None):
    untok = (lambda s: s) if raw else unhex_tok
    labels = {} if labels is None else labels
    if x == "N":
        return None
    if x == "T":
        return True
    if x == "F":
        return False
    h = x[0]
    if h == "i":
        return int(x[1])
    if h == "f":
        return bits_float(int(x[1]))
    if h == "s":
        return untok(dec_str(x[1]))
    if h == "def":
        obj = dec_val(x[2], raw, labels)
        labels[int(x[1])] = obj
        return obj
    if h == "ref":
        return labels[int(x[1])]
    if h == "l":
        return [dec_val(y, raw, labels) for y in x[1:]]
    if h == "x":
        cls = _class_of_ident(dec_str(x[1][1]))
        return cls(untok(dec_str(x[2]))) if cls in ALIAS else EXT[cls][1](untok(dec_str(x[2])))
    if h == "o":
        cls = _class_of_ident(dec_str(x[1][1]))
        return cls(**{dec_str(kv[0]): dec_val(kv[1], raw, labels) for kv in x[2:]})
    raise ValueError(x)


def canon(v, raw: bool = False) -> str:
    """(value, exact class), structurally — the same text Drive/JsonIO.showVal prints"""
    tok = (lambda s: s) if raw else hex_tok
    t = type(v)
    if v is None:
        return "N"
    if t is bool:
        return "T" if v else "F"
    if t is int:
        return f"i{v}"
    if t is float:
        return f"f{float_bits(v)}"
    if t is str:
        return "s" + tok(v)
    if t is list:
        return "[" + ",".join(canon(x, raw) for x in v) + "]"
    if is_ext(t):
        return "x{" + ident(t) + "|" + tok(ext_payload(v)) + "}"
    if t in SER_CLASSES:
        return "o{" + ident(t) + "|" + ",".join(f"{k}={canon(x, raw)}" for k, x in sorted(fields_of(v).items())) + "}"
    return f"?{t.__module__}:{t.__qualname__}"


# ---------------------------------------------------------------------------------------------- environment probe


class ProbeUnsupported(Exception):
    pass


def probe_import(m: str) -> str:
    try:
        importlib.import_module(m)
        return "ok"
    except ModuleNotFoundError:
        return "notFound"
    except ImportError:
        return "importErr"
    except ValueError:
        return "valueErr"
    except TypeError:
        return "typeErr"
    except Exception as e:  # noqa: BLE001  a module body raising something else: outside the environment model
        raise ProbeUnsupported(f"import {m!r}: {type(e).__name__}") from e


def probe_attr(m: str, n: str) -> str:
    mod = importlib.import_module(m)
    try:
        obj = getattr(mod, n)
    except AttributeError:
        return "missing"
    if isinstance(obj, type):
        ser = issubclass(obj, SubclassJSONSerializer)
        try:
            reg = obj in JSONSerializableTypeRegistry()._deserializers
        except Exception:  # noqa: BLE001
            reg = False
        # ground truth is the harness's own record of the `register` calls made so far (uuid.UUID: by krrood itself on
        # import), not only what the registry under test remembers of them
        reg = reg or obj in EXT or obj is globals().get("RegisteredNode")
        impl = implements_from_json(obj) if ser else True  # only meaningful for serializer classes
        return f"(cls {enc_cls(obj)} {'T' if ser else 'F'} {'T' if reg else 'F'} {'T' if impl else 'F'})"
    if isinstance(obj, types.ModuleType):
        k = "module"
    elif isinstance(obj, typing.TypeVar):
        k = "typevar"
    elif isinstance(obj, (types.FunctionType, types.BuiltinFunctionType, types.MethodType)):
        k = "function"
    else:
        k = "instance"
    return f"(nonclass {k})"


def enc_env(pairs) -> str:
    """`(env …)` for the (module, attribute) pairs a resolution may consult, from the live interpreter"""
    mods: Dict[str, str] = {}
    attrs: Dict[Tuple[str, str], str] = {}
    for m, n in pairs:
        if m not in mods:
            mods[m] = probe_import(m)
        if mods[m] == "ok" and (m, n) not in attrs:
            attrs[(m, n)] = probe_attr(m, n)
    return "(env" + "".join(f" (mod {enc_str(m)} {o})" for m, o in mods.items()) + \
        "".join(f" (attr {enc_str(m)} {enc_str(n)} {k})" for (m, n), k in attrs.items()) + ")"


def classes_of(v, acc=None) -> List[type]:
    acc = [] if acc is None else acc
    t = type(v)
    if t is list:
        for x in v:
            classes_of(x, acc)
    elif is_ext(t):
        acc.append(t)
    elif t in SER_CLASSES:
        acc.append(t)
        for x in fields_of(v).values():
            classes_of(x, acc)
    return acc


def make_case(v, tags=(), origin="random") -> Case:
    env = enc_env([(c.__module__, c.__name__) for c in classes_of(v)])
    return Case(f"(rt {env} {enc_val(v)})", tuple(tags) + shape_tags(v), origin, payload=v)


def hist_env(values) -> str:
    """environment of a history case: probed for the ordinary classes, synthetic (present, plain, NOT registered) for
    the logical history classes H0, H1, … — their registration is what the history is about"""
    cs = [c for v in values for c in classes_of(v)]
    probed = enc_env([(c.__module__, c.__name__) for c in cs if c not in ALIAS])
    hs = sorted({ALIAS[c] for c in cs if c in ALIAS})
    extra = ""
    if hs:
        extra = f" (mod {enc_str(hs[0][1])} ok)" + "".join(
            f" (attr {enc_str(m)} {enc_str(n)} (cls (k {enc_str(i)} {enc_str(m)} {enc_str(n)}) F F T))" for i, m, n in hs)
    return probed[:-1] + extra + ")"


def make_hist_case(ops, tags=(), origin="random") -> Case:
    """ops: list of ("reg", cls, key) | ("ser", value) | ("rt", value) | ("de", cls, key, payload string)"""
    vals = [o[1] for o in ops if o[0] in ("ser", "rt")] + [o[1]("") for o in ops if o[0] in ("reg", "de")]
    parts = []
    for o in ops:
        if o[0] == "reg":
            parts.append(f"(reg {enc_cls(o[1])} {enc_str(o[2])})")
        elif o[0] == "de":
            parts.append(f"(de {enc_cls(o[1])} {enc_str(o[2])} \"{hex_tok(o[3])}\")")
        else:
            parts.append(f"({o[0]} {enc_val(o[1])})")
    kinds = f"{len(ops)}ops"
    return Case(f"(hist {hist_env(vals)} {' '.join(parts)})", tuple(tags) + ("history", f"history:{kinds}"[:40]), origin,
                payload=None)


def revive(case: Case) -> Case:
    """rebuild the python value from the line and re-probe the environment from the running interpreter (history cases
    are always evaluated from their line: they need fresh classes each time)"""
    if case.payload is not None or case.line.startswith("(hist"):
        return case
    s = parse_sexp(case.line)
    v = dec_val(s[2])
    c = make_case(v, case.tags, case.origin)
    return c


# ---------------------------------------------------------------------------------------------- generator

INTS = [0, 1, -1, 2, 255, 2 ** 31, -(2 ** 63), 2 ** 64, 2 ** 70, -(2 ** 70), 10 ** 30]
FLOATS = [0.0, -0.0, 1.5, -2.25, 1e308, -1e308, float("inf"), float("-inf"), 5e-324, 0.1, 1e-7, 123456789.125, 2.0 ** 53]
STRS = ["", "a", "Rex", "ü", "\x00", "\U0001F600", "\ud800", "a\x00b\U0001F600", JSON_TYPE_NAME, "os.path", "props.c18.Node",
        '"', "\\", "\n\t", "null", "x" * 300, " ", "é́", " "]
FIELD_NAMES = ["a", "b", "x", "value", "fields", "type", "name", "_p", "k9", "data", "cls", "kwargs", "json"]

# strings whose CONTENT is itself JSON text (a string leaf is opaque: it must come back as the same `str`, whatever it
# spells) — complete documents of every JSON type, with and without surrounding blanks, compact and indented, the
# serialised form of objects of the zoo (a string field that carries a dumped document), JSON text of JSON text,
# and near misses (incomplete documents, python reprs)
JSON_TEXTS = [
    "[]", "{}", "null", "true", "false", "0", "1", "-1", "1.5", "1e3", "-0.0", "NaN", "Infinity", '""', '"a"', '"[]"',
    " []", "[] ", " [] ", "\n[]\n", "\t{}", " {} ", "  null ", " true", "false ", " 12 ", "\r\n[1]\r\n",
    "[1, 2, 3]", "[1,2,3]", '["a", "b"]', "[[]]", "[[], []]", "[null]", "[true, false]", "[{}]", '[""]', "[1.5, -2]",
    '{"a": 1}', '{"a":1}', '{"a": []}', '{"a": {"b": null}}', "{\n \"a\": 1\n}", '{"value": "p"}',
    '{"__json_type__": "props.c18.Node"}', '{"__json_type__": "props.c18.NodeA", "a": 1}',
    ' {"__json_type__": "props.c18.Node", "a": [1, "x"]} ',
    '{"__json_type__": "uuid.UUID", "value": "12345678-1234-5678-1234-567812345678"}',
    '{"__json_type__": "props.c18.Money", "value": "p"}', '[{"__json_type__": "props.c18.Node"}]',
    '{"__json_type__": "no.such.module.X"}', '{"__json_type__": "props.c18.NotSerializable"}', '{"__json_type__": 5}',
    '"{\\"a\\": 1}"', '"[1, 2]"',
    "[", "{", "]", "}", "[1, 2", '{"a": ', "[draft] chapter one", "{name}", "[1, 2,]", "{'a': 1}", "[None]", "[True]",
    "(1, 2)", "[] []", "[]x", "x[]", "{} // c", "\ufeff[]", "\u00a0[]", "b'[]'",
]


def ref_json(v):
    """the JSON tree the property's convention prescribes for a value — written by the harness itself (the generator
    never calls the code under test)"""
    t = type(v)
    if t is list:
        return [ref_json(x) for x in v]
    if is_ext(t):
        return {KEY: t.__module__ + "." + t.__name__, "value": ext_payload(v)}
    if t in SER_CLASSES:
        d = {KEY: t.__module__ + "." + t.__name__}
        for k, x in fields_of(v).items():
            d[k] = ref_json(x)
        return d
    return v


def gen_json_text(rng, pool=None, extra=()) -> str:
    """a string whose content is JSON text: a fixed document, or the dumped form of ANOTHER generated value (one already
    built for this case, or a fresh small one) — compact / default / indented, with or without surrounding blanks, or
    dumped twice (JSON text of JSON text)"""
    r = rng.random()
    if r < 0.4:
        return rng.choice(JSON_TEXTS)
    src = rng.choice(pool) if pool and rng.random() < 0.5 else gen_value(rng, rng.randrange(0, 3), None, extra, 0.0, 0.0)
    try:
        kw = rng.choice([{}, {}, {"separators": (",", ":")}, {"indent": 1}, {"ensure_ascii": False}, {"sort_keys": True}])
        text = json.dumps(ref_json(src), **kw)
    except (TypeError, ValueError, RecursionError):
        text = "[]"
    if rng.random() < 0.15:
        text = json.dumps(text)
    if rng.random() < 0.35:
        text = rng.choice(["", " ", "\n", "  ", "\t"]) + text + rng.choice(["", " ", "\n", " \n"])
    return text


def gen_leaf(rng, extra=(), pool=None, jtext: float = 0.3):
    k = rng.randrange(9)
    if k == 0:
        return None
    if k == 1:
        return rng.random() < 0.5
    if k in (2, 3):
        return rng.choice(INTS) if rng.random() < 0.6 else rng.randrange(-10 ** 6, 10 ** 6)
    if k in (4, 5):
        return rng.choice(FLOATS) if rng.random() < 0.6 else rng.uniform(-1e6, 1e6)
    if k in (6, 7):
        if rng.random() < jtext:
            return gen_json_text(rng, pool, extra)
        if rng.random() < 0.6:
            return rng.choice(STRS)
        return "".join(chr(rng.choice([rng.randrange(32, 127), rng.randrange(0xA0, 0x800), rng.randrange(0x10000, 0x10400)]))
                       for _ in range(rng.randrange(0, 6)))
    if extra and rng.random() < 0.6:
        return rng.choice(extra)(rng.choice(["", "p", "1/3", "ü"]))
    return gen_ext(rng)


def gen_ext(rng):
    k = rng.randrange(4)
    if k == 0:
        return uuid.UUID(int=rng.getrandbits(128))
    if k == 1:
        return Fraction(rng.randrange(-50, 50), rng.randrange(1, 40))
    if k == 2:
        return Money(rng.choice(STRS))
    return rng.choice(EXT_MONEY[1:])(rng.choice(["", "12.50 EUR", "ü", "0.5,-2.0", "1,2,3"]))


def gen_value(rng, depth: int, pool: Optional[list] = None, extra=(), share: float = 0.12, jtext: float = 0.3):
    """a value of the grammar; `pool` collects the lists / objects built so far so that a later position may reference
    one of them AGAIN (the same Python object: a DAG, never a cycle — only finished values are in the pool)"""
    pool = [] if pool is None else pool
    if pool and rng.random() < share:
        return rng.choice(pool)
    if depth <= 0 or rng.random() < 0.25:
        return gen_leaf(rng, extra, pool, jtext)
    r = rng.random()
    if r < 0.4:
        n = rng.choice([0, 1, 1, 2, 2, 3, 4])
        if n and rng.random() < 0.08:  # the `[x] * n` idiom
            v = [gen_value(rng, depth - 1, pool, extra, share, jtext)] * n
        else:
            v = [gen_value(rng, depth - 1, pool, extra, share, jtext) for _ in range(n)]
        pool.append(v)
        return v
    cls = rng.choice(SER_CLASSES)
    names = schema(cls)
    if names is None:
        names = rng.sample(FIELD_NAMES, rng.choice([0, 1, 1, 2, 2, 3]))
    v = cls(**{k: gen_value(rng, depth - 1, pool, extra, share, jtext) for k in names})
    pool.append(v)
    return v


def shape_tags(v) -> Tuple[str, ...]:
    cs = classes_of(v)
    d = val_depth(v)
    out = [f"depth{min(d, 7)}", f"objects{min(len(cs), 5)}{'+' if len(cs) > 5 else ''}"]
    sd = max([depth_of(c) for c in cs if c in SER_CLASSES], default=0)
    if sd:
        out.append(f"subclassdepth{sd}")
    if any(is_ext(c) for c in cs):
        out.append("registered-type")
    if _shared_ids(v):
        out.append("shared-subvalues")
    names = [c.__name__ for c in set(cs)]
    if len(names) != len(set(names)):
        out.append("same-name-classes-in-one-value")
    return tuple(out)


def val_depth(v) -> int:
    t = type(v)
    if t is list:
        return 1 + max([val_depth(x) for x in v], default=0)
    if t in SER_CLASSES:
        return 1 + max([val_depth(x) for x in fields_of(v).values()], default=0)
    return 0


def _mk(cls, leaf):
    names = schema(cls) or ["a"]
    return cls(**{k: leaf for k in names})


def fixed_family() -> List[Case]:
    out = []
    leaves = [None, True, False] + INTS + FLOATS + STRS
    for x in leaves:
        out.append(make_case(x, ("leaf",), "exhaustive"))
    exts = [uuid.UUID(int=0), uuid.UUID("12345678-1234-5678-1234-567812345678"), Fraction(-7, 3), Money(""), Money("ü"), Money2("1")]
    for x in exts:
        out.append(make_case(x, ("ext",), "exhaustive"))
    for cls in GENERIC:
        out.append(make_case(cls(), ("empty-object",), "exhaustive"))
    kinds = [None, True, 0, 2 ** 70, 1.5, float("inf"), "", "ü\x00", [], [[]], uuid.UUID(int=5), Money2("m"), NodeAAAA(), Cat("c", 1, 2)]
    for cls in SER_CLASSES:
        for leaf in kinds:
            out.append(make_case(_mk(cls, leaf), ("object-of-leaf",), "exhaustive"))
    v: Any = []
    for _ in range(6):
        out.append(make_case(v, ("list-nesting",), "exhaustive"))
        v = [v]
    v = NodeA()
    for cls in [NodeB, NodeAA, NodeM, NodeAAAA, NodeBA, Node]:
        v = cls(a=[v, []], b=None)
        out.append(make_case(v, ("object-nesting",), "exhaustive"))
    out.append(make_case([cls() if cls in GENERIC else _mk(cls, 1) for cls in SER_CLASSES] + exts, ("all-classes",), "exhaustive"))
    out.append(make_case([[NodeA(x=[Dog("d", [Cat(None, 1.5, [])], NodeM())])], []], ("mixed",), "exhaustive"))
    out += iterable_family()
    out += same_name_family()
    out += shared_family()
    out += history_family()
    out += json_text_family()
    return out


def iterable_family() -> List[Case]:
    """objects with a serializer of their own that are ALSO iterable (container-like serializer classes, one-shot
    iterators, dataclasses / registered vector types with unpacking support): empty and non-empty, at top level, as
    list element, as field value of a generic / dataclass-style object, nested in each other, shared"""
    out = []
    tag = ("iterable-object",)
    items = [[], [1], [1.5, "a"], [None, [2]]]
    objs = []
    for it in items:
        objs += [Bag(**{f"k{i}": x for i, x in enumerate(it)}), KeyedBag(**{f"k{i}": x for i, x in enumerate(it)}),
                 Stream(**{f"k{i}": x for i, x in enumerate(it)}), Polyline("p", len(it), list(it))]
    objs += [Pair(0.5, -2.0), Pair("x", None), Polyline("p", 0, None), Polyline([1], [2], [Pair(1, 2), Pair(3, 4)]),
             Vec(""), Vec("0.5,-2.0"), Vec("1,2,3"), Chars(""), Chars("ab"), Bag(a=Bag(b=Vec("1,2"))), Bag(a=[Pair(1, [Chars("c")])])]
    for v in objs:
        out.append(make_case(v, tag, "exhaustive"))
        out.append(make_case([v], tag, "exhaustive"))
        out.append(make_case([0, [v, None], v], tag, "exhaustive"))
        out.append(make_case(NodeA(a=v), tag, "exhaustive"))
        out.append(make_case(Dog("d", v, [v]), tag, "exhaustive"))
    return out


def json_text_family() -> List[Case]:
    """string leaves whose content is JSON text, at every kind of position: top level, list element, nested list element,
    field of a generic / dataclass-style object, field of an object inside a list inside an object, payload of a
    registered type; and the dumped form of every class of the zoo carried as a string"""
    out = []
    tag = ("json-text-string",)
    for i, t in enumerate(JSON_TEXTS):
        out.append(make_case(t, tag, "exhaustive"))
        out.append(make_case([t], tag, "exhaustive"))
        out.append(make_case(GENERIC[i % len(GENERIC)](a=t), tag, "exhaustive"))
        if i % 3 == 0:
            out.append(make_case([[0, [t, None]], t], tag, "exhaustive"))
            out.append(make_case(Dog(t, 3, [t]), tag, "exhaustive"))
            out.append(make_case(Node(a=[Cat("c", t, NodeB(x=t))], b=Money(t)), tag, "exhaustive"))
    samples = [_inst(c, [1, "s"]) for c in SER_CLASSES] + [uuid.UUID(int=7), Fraction(1, 3), Money("m"), [], [[]], [None, True, 1.5, "x"]]
    for i, v in enumerate(samples):
        for text in (json.dumps(ref_json(v)), " " + json.dumps(ref_json(v), separators=(",", ":")), json.dumps(ref_json(v), indent=1) + "\n"):
            out.append(make_case(text, tag, "exhaustive"))
            out.append(make_case([v, text], tag, "exhaustive"))
            out.append(make_case(NodeA(a=text, b=v), tag, "exhaustive"))
    return out


def shared_family() -> List[Case]:
    """values in which ONE list object / ONE serialisable object is referenced from several places (no cycles)"""
    out = []
    tag = ("shared",)
    e: list = []
    row = [0] * 3
    shapes = [Dog("s", 1, "b"), Cat("c", 2.5, 9)]
    n = NodeA(a=1)
    m = NodeBA(x=[n])
    u = uuid.UUID(int=1)
    deep: Any = [None]
    for _ in range(4):
        deep = [deep, deep]
    vals = [
        [e, e], [e, [e]], [[e], e], [e, e, e], [row] * 3, [[row] * 2] * 2, [row, [row, [row]]],
        ["first", shapes, ["second", shapes], u], [shapes, shapes], [n, n], Node(a=n, b=n), Node(a=row, b=[row]),
        [m, n, m], NodeB(a=[n, [n]], b=n), Node(a=e, b=e, x=[e]), [Node(a=row), Node(a=row)], [u, u, [u]],
        [Money("m")] * 2, deep, [[[e]], [[e]]], Node(a=shapes, b=Node(a=shapes)), [[1, [2, row]], [3, row], row],
    ]
    for v in vals:
        out.append(make_case(v, tag, "exhaustive"))
    return out


HIST_KEYS = ["value", "text", "tuple", "n"]


def history_family() -> List[Case]:
    """registry histories: register on demand after a failed attempt; a registration replaced between the first
    serialisation and the first deserialisation; a stored document read before / after; two types interleaved"""
    out = []
    tag = ("history-fixed",)
    for k1 in HIST_KEYS[:2]:
        for k2 in HIST_KEYS:
            A, B = fresh_hist_classes(2)
            v = [A("1/3"), Node(a=A("-7/2"))]
            out.append(make_hist_case([("rt", v), ("reg", A, k1), ("rt", v)], tag, "exhaustive"))
            out.append(make_hist_case([("ser", v), ("reg", A, k1), ("ser", v), ("rt", v)], tag, "exhaustive"))
            out.append(make_hist_case([("de", A, k1, "p"), ("reg", A, k1), ("rt", v), ("de", A, k1, "p")], tag, "exhaustive"))
            out.append(make_hist_case([("reg", A, k1), ("ser", [A("1.50")]), ("reg", A, k2), ("rt", [A("1.50"), A("-0E-7")])],
                                      tag, "exhaustive"))
            out.append(make_hist_case([("reg", A, k1), ("rt", v), ("reg", A, k2), ("rt", v), ("de", A, k1, "q"), ("de", A, k2, "q")],
                                      tag, "exhaustive"))
            out.append(make_hist_case([("reg", A, k1), ("de", A, k1, "p"), ("reg", A, k2), ("ser", v), ("rt", v)], tag, "exhaustive"))
            w = [A("a"), B("b"), [B("b2"), A("a2")]]
            out.append(make_hist_case([("rt", w), ("reg", B, k2), ("rt", w), ("rt", [B("b")]), ("reg", A, k1), ("rt", w),
                                       ("reg", B, k1), ("rt", w)], tag, "exhaustive"))
    return out


def gen_history(rng) -> Case:
    classes = fresh_hist_classes(rng.choice([1, 1, 2]))
    ops = []
    for _ in range(rng.randrange(2, 8)):
        r = rng.random()
        c = rng.choice(classes)
        if r < 0.3:
            ops.append(("reg", c, rng.choice(HIST_KEYS)))
        elif r < 0.42:
            ops.append(("de", c, rng.choice(HIST_KEYS), rng.choice(["", "p", "ü"])))
        else:
            inner = gen_value(rng, rng.randrange(0, 3), None, classes)
            v = rng.choice([c("p"), [c("1/3"), inner], Node(a=c("q"), b=inner), [inner, [c("r")]], inner])
            ops.append(("ser" if r < 0.58 else "rt", v))
    return make_hist_case(ops)


def _inst(cls, inner=None):
    """an instance of any class of the zoo, optionally holding `inner`"""
    if cls in EXT:
        return cls("p")
    names = schema(cls)
    if names is None:
        return cls() if inner is None else cls(a=inner)
    return cls(**{k: (inner if i == 0 else i) for i, k in enumerate(names)})


def same_name_family() -> List[Case]:
    """distinct classes with one __name__ in different modules: alone, side by side in one list (every order),
    nested inside each other (every order), interleaved"""
    out = []
    tag = ("same-name",)
    for group in SAME_NAME:
        for c in group:
            out.append(make_case(_inst(c), tag, "exhaustive"))
        for c in group:
            for d in group:
                if c is d:
                    continue
                out.append(make_case([_inst(c), _inst(d)], tag, "exhaustive"))
                out.append(make_case([_inst(c), _inst(d), _inst(c)], tag, "exhaustive"))
                if c not in EXT:
                    out.append(make_case(_inst(c, _inst(d)), tag, "exhaustive"))
                    out.append(make_case(_inst(c, [_inst(d, _inst(c))]), tag, "exhaustive"))
        out.append(make_case([_inst(c) for c in group] + [_inst(c) for c in reversed(group)], tag, "exhaustive"))
    out.append(make_case([_inst(c) for g in SAME_NAME for c in g], tag, "exhaustive"))
    out.append(make_case([_inst(c) for g in SAME_NAME for c in reversed(g)], tag, "exhaustive"))
    return out


def budget(tier: str) -> int:
    return 700 if tier == "quick" else 12000


def generate(rng, tier, n):
    cases = fixed_family()
    maxd = 5 if tier == "quick" else 7
    for i in range(n):
        if i % 6 == 5:
            cases.append(gen_history(rng))
            continue
        v = gen_value(rng, rng.randrange(1, maxd + 1), share=rng.choice([0.0, 0.1, 0.2, 0.3]))
        cases.append(make_case(v))
    return cases


def compare(impl: str, other: str) -> bool:
    """histories: one observation per operation; `*` (specification only) = no demand for this operation"""
    if " / " in other or other == "*":
        a, b = impl.split(" / "), other.split(" / ")
        return len(a) == len(b) and all(y == "*" or x == y for x, y in zip(a, b))
    return impl == other


def nontrivial(case: Case, spec: str) -> bool:
    return "o{" in spec or "x{" in spec or "[[" in spec or ",[" in spec


def shrink(case: Case):
    if case.line.startswith("(hist"):
        yield from _shrink_hist(case)
        return
    v = case.payload
    if v is None:
        v = revive(case).payload
    for w in _smaller(v):
        yield make_case(w, ("shrink",), "shrink")


def _shrink_hist(case: Case):
    """drop one operation (textually: the line is the payload)"""
    s = parse_sexp(case.line)
    head, ops = case.line[:case.line.index(")) (") + 2] if ")) (" in case.line else None, s[2:]
    if head is None or len(ops) <= 1:
        return
    texts = _split_top(case.line[len(head):-1].strip())
    for i in range(len(texts)):
        yield Case(head + " " + " ".join(texts[:i] + texts[i + 1:]) + ")", ("shrink", "history"), "shrink")


def _split_top(text: str) -> List[str]:
    out, depth, cur, instr = [], 0, "", False
    for ch in text:
        if ch == '"':
            instr = not instr
        if not instr:
            if ch == "(":
                depth += 1
            elif ch == ")":
                depth -= 1
        cur += ch
        if depth == 0 and not instr and cur.strip():
            if ch == ")":
                out.append(cur.strip())
                cur = ""
    return out


def _smaller(v):
    t = type(v)
    if t is list:
        for x in v:
            yield x
        for i in range(len(v)):
            yield v[:i] + v[i + 1:]
        for i, x in enumerate(v):
            for y in _smaller(x):
                yield v[:i] + [y] + v[i + 1:]
    elif t in SER_CLASSES:
        fs = fields_of(v)
        for x in fs.values():
            yield x
        if schema(t) is None:
            for k in fs:
                yield t(**{a: b for a, b in fs.items() if a != k})
        for k, x in fs.items():
            for y in _smaller(x):
                yield t(**{**fs, k: y})
    elif v is not None and not is_ext(t):
        yield None


# ---------------------------------------------------------------------------------------------- real code

STATS = {"json_identity_checked": 0, "json_identity_failed": 0}

DOC_ERRORS = ("MissingTypeError", "InvalidTypeFormatError", "UnknownModuleError", "ClassNotFoundError",
              "ClassNotDeserializableError")


def exc_name(e: BaseException) -> str:
    if isinstance(e, JSONSerializationError):
        n = type(e).__name__
        if n == "ClassNotSerializableError" and type(e).__module__ == JSONSerializationError.__module__:
            return n
        return n if n in DOC_ERRORS and type(e).__module__ == JSONSerializationError.__module__ else "jse:" + n
    if isinstance(e, PayloadError):
        return "payload"
    return "escape:" + type(e).__name__


def same_tree(a, b) -> bool:
    if type(a) is not type(b):
        return False
    if type(a) is list:
        return len(a) == len(b) and all(same_tree(x, y) for x, y in zip(a, b))
    if type(a) is dict:
        return list(a) == list(b) and all(same_tree(a[k], b[k]) for k in a)
    if type(a) is float:
        return float_bits(a) == float_bits(b)
    return a == b


def show_tag(d) -> str:
    if not isinstance(d, dict) or KEY not in d:
        return "-"
    return d[KEY] if type(d[KEY]) is str else "?"


def tags_walk(v, j) -> List[str]:
    """the `__json_type__` entries of the decoded JSON text, walked along the structure of the value"""
    t = type(v)
    if t is list:
        if type(j) is not list or len(j) != len(v):
            return ["!shape"]
        return [s for x, y in zip(v, j) for s in tags_walk(x, y)]
    if is_ext(t):
        return [show_tag(j)]
    if t in SER_CLASSES:
        out = [show_tag(j)]
        for k, x in fields_of(v).items():
            out += tags_walk(x, j.get(k) if isinstance(j, dict) else None)
        return out
    return []


_PRELUDE_DONE = False


def _prelude() -> None:
    """Process history common to every run, replays included: before the first case one instance of every class of
    the zoo has been through the real round trip once, in a fixed order. (The same values are ordinary checked cases
    of the fixed family; here only the history matters — a resolver that keeps state between calls, e.g. a cache keyed
    by the short class name, then misbehaves reproducibly on a single later value.)"""
    global _PRELUDE_DONE
    if _PRELUDE_DONE:
        return
    _PRELUDE_DONE = True
    for cls in SER_CLASSES + list(EXT_MONEY):
        try:
            from_json(json.loads(json.dumps(to_json(_inst(cls)))))
        except Exception:  # noqa: BLE001  reported by the corresponding case, not here
            pass


def _logical_tags(tags: List[str]) -> str:
    """tags of history classes are written under their logical names"""
    table = {c.__module__ + "." + c.__name__: ALIAS[c][1] + "." + ALIAS[c][2] for c in DECODE_EXTRA.values()}
    return ",".join(table.get(t, t) for t in tags)


def _one_hist(case: Case) -> str:
    """a registry history on brand-new classes: one observation per operation"""
    s = parse_sexp(case.line)
    idents = sorted(set(re.findall(r'hist:H(\d+)', case.line)), key=int)
    classes = fresh_hist_classes((max(int(i) for i in idents) + 1) if idents else 0)
    DECODE_EXTRA.clear()
    DECODE_EXTRA.update({ALIAS[c][0]: c for c in classes})
    obs = []
    try:
        for op in s[2:]:
            try:
                if op[0] == "reg":
                    hist_register(_class_of_ident(dec_str(op[1][1])), dec_str(op[2]))
                    obs.append("ok")
                elif op[0] == "ser":
                    v = dec_val(op[1])
                    back = json.loads(json.dumps(to_json(v)))
                    obs.append("ok;tags=" + _logical_tags(tags_walk(v, back)))
                elif op[0] == "rt":
                    v = dec_val(op[1])
                    obs.append(canon(from_json(json.loads(json.dumps(to_json(v))))))
                elif op[0] == "de":
                    c = _class_of_ident(dec_str(op[1][1]))
                    doc = {JSON_TYPE_NAME: c.__module__ + "." + c.__name__, dec_str(op[2]): unhex_tok(dec_str(op[3]))}
                    obs.append(canon(from_json(json.loads(json.dumps(doc)))))
                else:
                    obs.append("bad-op")
            except Exception as e:  # noqa: BLE001
                obs.append(exc_name(e))
    finally:
        DECODE_EXTRA.clear()
    return " / ".join(obs)


def _one(case: Case) -> str:
    tags = "!none"
    _prelude()
    if case.line.startswith("(hist"):
        try:
            return _one_hist(case)
        except Exception as e:  # noqa: BLE001
            return "harness-error:" + type(e).__name__
    try:
        v = case.payload if case.payload is not None else revive(case).payload
        j = to_json(v)
        text = json.dumps(j)
        back = json.loads(text)
        STATS["json_identity_checked"] += 1
        if not same_tree(j, back):
            STATS["json_identity_failed"] += 1
        tags = ",".join(tags_walk(v, back))
        r = from_json(back)
        return canon(r) + ";tags=" + tags
    except Exception as e:  # noqa: BLE001
        return exc_name(e) + ";tags=" + tags


def run_impl(cases):
    return [_one(c) for c in cases]


def extra_coverage():
    return dict(STATS, classes=[ident(c) for c in SER_CLASSES], registered_types=[ident(c) for c in EXT],
                max_subclass_depth=max(depth_of(c) for c in SER_CLASSES))
