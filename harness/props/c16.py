"""C16 — every way of writing a descriptor-managed field keeps the data and infers alike.

Implementation side: sequences (<= 8) of assignment of a new collection, self-assignment, `+=` / `|=` with and
without re-assignment, append, extend, insert, item assignment, add and update on list- and set-valued managed
fields of the harness schema L (sub-property + inverse on every field), executed on the REAL descriptor and
monitored containers from random initial contents. Observation: the contents of the field (list order and
repetitions significant for list fields, sets sorted) and the set of relation triples in the SymbolGraph."""
from __future__ import annotations

import re
from typing import Dict, List

from core import Case

PID = "C16"
LEAN_MODULES = ["KrroodVerif.Props.C16"]
THEOREMS = [
    "KrroodVerif.PD.C16_full",
    "KrroodVerif.PD.C16_partial",
    "KrroodVerif.PD.C16_general",
    "KrroodVerif.PD.C16_relations",
    "KrroodVerif.PD.C16_cex_self_assign",
    "KrroodVerif.PD.C16_cex_iadd",
    "KrroodVerif.PD.C16_cex_list_order",
    "KrroodVerif.PD.C16_cex_ior_bypass",
]
MODEL_FUNCTION = ("PD.stepC / PD.setterC / PD.inplaceC / PD.addItemC / PD.runC under PD.Quirks, relations by PD.run "
                  "(Model/Descriptor.lean); specification PD.specC + PD.closure")
TRUSTED = [
    "Lean 4.33 kernel; axioms of each theorem listed under coverage.theorems",
    "hand-written model Model/Descriptor.lean of PropertyDescriptor.__set__ and of every overridden or inherited "
    "mutator of MonitoredList / MonitoredSet reachable through the listed write operations; relations through the "
    "C15 model of add_to_graph",
    "Python list / set semantics as written in PD.specStepC (pyInsert, pySetItem, rawAdd)",
    "this correspondence harness (random operation sequences through the real API in isolated worker processes) "
    "and the S-expression driver",
]
ASSUMPTIONS = [
    "CPython iterates a set of objects whose hashes are distinct small integers in ascending hash order (harness "
    "classes hash to their index): that is the 'hash order' of F-C16-3",
    "the `_on_add` hook does not change the contents of the container it is called from (the C16 fields are not "
    "transitive and nothing is inferred back into the written field except elements already stored)",
    "item assignment uses indices in range (an out-of-range index raises IndexError after the hook has run; "
    "not generated)",
]
RULE = ("random sequences of 1..8 write operations on the three list fields and three set fields of schema L (each "
        "with a super-property and an inverse) from 0..4 random initial elements over 4..7 objects, repetitions and "
        "self references included; about half of the sequences stay outside the four triggers; non-trivial = at "
        "least two operations and a non-empty expected field; distinct by case text")

L_SEXP_CACHE: Dict[str, dict] = {}


def budget(tier: str) -> int:
    return 900 if tier == "quick" else 12000


def _desc() -> dict:
    if "L" not in L_SEXP_CACHE:
        from props import _pd
        L_SEXP_CACHE["L"] = _pd.describe("L")
    return L_SEXP_CACHE["L"]


def _asis_step(cur: List[int], op, is_set: bool) -> List[int]:
    """contents under the code as it is — used only to choose item-assignment indices that are in range for every
    variant (the as-is contents are never longer than the repaired ones)"""
    k = op[0]

    def add(c, x):
        if is_set and x in c:
            return c
        return c + [x]

    if k in ("append", "add"):
        return add(cur, op[1])
    if k in ("extend", "update", "iaddAlias"):
        for x in op[1]:
            cur = add(cur, x)
        return cur
    if k == "insert":
        c = list(cur)
        c.insert(op[1], op[2])
        return c
    if k == "setitem":
        c = list(cur)
        c[op[1]] = op[2]
        return c
    if k == "assign":
        return sorted(set(op[1]))
    if k in ("assignSelf", "iadd"):
        return []
    raise ValueError(k)


def _fmt(op) -> str:
    k = op[0]
    if k in ("append", "add"):
        return f"({k} {op[1]})"
    if k in ("insert", "setitem"):
        return f"({k} {op[1]} {op[2]})"
    if k == "assignSelf":
        return "(assignSelf)"
    return f"({k} {' '.join(map(str, op[1]))})" if op[1] else f"({k})"


def _sequence(rng, n_obj: int, is_set: bool, clean: bool, maxlen: int):
    init = [rng.randrange(n_obj) for _ in range(rng.randint(0, 4))]
    cur: List[int] = []
    for x in init:
        cur = _asis_step(cur, ("add" if is_set else "append", x), is_set)
    ops = []
    for _ in range(rng.randint(1, maxlen)):
        xs = [rng.randrange(n_obj) for _ in range(rng.randint(0, 3))]
        if is_set:
            kinds = ["add", "add", "update", "update", "assign"]
            if not clean:
                kinds += ["assignSelf", "iadd", "iaddAlias", "iadd"]
        else:
            kinds = ["append", "append", "extend", "insert", "insert", "setitem", "setitem", "assign"]
            if not clean:
                kinds += ["assignSelf", "iadd", "iaddAlias", "assign", "iadd"]
        k = rng.choice(kinds)
        if k in ("append", "add"):
            op = (k, rng.randrange(n_obj))
        elif k in ("extend", "update", "iadd", "iaddAlias"):
            op = (k, xs)
        elif k == "insert":
            op = (k, rng.randint(-len(cur) - 2, len(cur) + 2), rng.randrange(n_obj))
        elif k == "setitem":
            if not cur:
                continue
            op = (k, rng.randint(-len(cur), len(cur) - 1), rng.randrange(n_obj))
        elif k == "assign":
            if is_set:
                xs = sorted(set(xs))
            elif clean:
                xs = sorted(set(xs))  # a list already in hash order without repetitions: outside F-C16-3
            op = (k, xs)
        else:
            op = (k,)
        ops.append(op)
        cur = _asis_step(cur, op, is_set)
    return init, ops


def _line(d: dict, n_obj: int, f: int, a: int, init, ops) -> str:
    objs = " ".join("(0 -)" for _ in range(n_obj))
    return (f"(w {d['sexp']} (objs {objs}) (field {f}) (obj {a}) (init{''.join(' ' + str(x) for x in init)}) "
            f"(ops {' '.join(_fmt(o) for o in ops)}))")


def witness_lines() -> Dict[str, str]:
    d = _desc()
    return {
        "F-C16-1": _line(d, 5, 0, 4, [1, 2], [("assignSelf",)]),
        "F-C16-2": _line(d, 5, 0, 4, [1], [("iadd", [2])]),
        "F-C16-3": _line(d, 5, 0, 4, [], [("assign", [3, 1, 3, 0])]),
        "F-C16-4": _line(d, 5, 3, 4, [1], [("iaddAlias", [2])]),
    }


def generate(rng, tier, n):
    d = _desc()
    cases: List[Case] = []
    maxlen = 8
    for i in range(n):
        f = rng.randrange(6)
        is_set = d["kinds"][f] == "set"
        n_obj = rng.randint(4, 7)
        a = rng.randrange(n_obj)
        clean = (i % 2 == 0)
        init, ops = _sequence(rng, n_obj, is_set, clean, maxlen)
        if not ops:
            continue
        tags = ("set-field" if is_set else "list-field", "outside-triggers" if clean else "any-op") + tuple(
            sorted({"op-" + o[0] for o in ops}))
        cases.append(Case(_line(d, n_obj, f, a, init, ops), tags, "random"))
    return cases


def nontrivial(case: Case, spec: str) -> bool:
    m = re.match(r"C\[([^\]]*)\]", spec)
    nops = len(re.findall(r"\(", case.line[case.line.rfind("(ops "):])) - 1
    return bool(m and m.group(1)) and nops >= 2


def shrink(case: Case):
    m = re.search(r"\(init([^)]*)\) \(ops (.*)\)\)$", case.line)
    if not m:
        return
    head = case.line[: m.start()]
    init = m.group(1).split()
    ops = re.findall(r"\([^()]*\)", m.group(2))
    for i in range(len(ops)):
        rest = ops[:i] + ops[i + 1:]
        if rest and not any(o.startswith("(setitem") for o in rest[i:]):
            yield Case(f"{head}(init{''.join(' ' + x for x in init)}) (ops {' '.join(rest)}))", case.tags, "shrink")
    for i in range(len(init)):
        if not any(o.startswith("(setitem") for o in ops):
            r = init[:i] + init[i + 1:]
            yield Case(f"{head}(init{''.join(' ' + x for x in r)}) (ops {' '.join(ops)}))", case.tags, "shrink")


def revive(case: Case) -> Case:
    """stored lines (corpus, finding witnesses, replays) carry the numeric encoding of the declared semantics as it
    was when they were written; re-read it from the real classes so that only the history is replayed"""
    m = re.match(r"^\((h|w) \(schema (\w)\) .*? \(objs ", case.line)
    if not m:
        return case
    try:
        sexp = _desc()["sexp"]
    except Exception:
        return case
    return Case(f"({m.group(1)} {sexp} (objs " + case.line[m.end():], case.tags, case.origin, case.payload)


def run_impl(cases):
    from props import _pd
    return _pd.run_isolated("C16", [c.line for c in cases])
