"""C16 — every way of writing a descriptor-managed field keeps the data and infers alike.

Implementation side: sequences (<= 8) of assignment of a new collection, self-assignment, `+=` / `|=` with and
without re-assignment, append, extend, insert, item assignment, add and update on list- and set-valued managed
fields of the harness schema L (sub-property + inverse on every field), executed on the REAL descriptor and
monitored containers from random initial contents. Also: assignment of an iterable computed (lazily) from the
field's own live contents (generator expression / filter, reversed, iter, itertools.chain, dict.fromkeys), and
two-owner sequences in which a second instance is CONSTRUCTED with the live container of the first
(`b = Cls(f=a.f)`) and both fields are written afterwards; and populations in which several DISTINCT objects
compare equal (schema V, a Symbol dataclass with value equality) used in every operation on list and set fields,
also through an alias; and slice assignment `a.f[i:j] = value` with arbitrary bounds (empty, inverted, negative,
open ended), a replacement of any length, given as list / tuple or as a one-shot iterable; and histories with
short-lived elements (removed from the field, forgotten by the program - they die -, NEW elements created at the
freed addresses and written by every write path). Observation: the contents of the field(s) (list order and
repetitions significant for list fields, sets sorted) and the set of relation triples in the SymbolGraph
(owner-specific)."""
from __future__ import annotations

import re
from typing import Dict, List

from core import Case

PID = "C16"
LEAN_MODULES = ["KrroodVerif.Props.C16", "KrroodVerif.Props.C16Table", "KrroodVerif.Props.C16HalfBuilt"]
THEOREMS = [
    "KrroodVerif.PD.C16_full",
    "KrroodVerif.PD.C16_partial",
    "KrroodVerif.PD.C16_general",
    "KrroodVerif.PD.C16_relations",
    "KrroodVerif.PD.C16_cex_self_assign",
    "KrroodVerif.PD.C16_cex_iadd",
    "KrroodVerif.PD.C16_cex_list_order",
    "KrroodVerif.PD.C16_cex_ior_bypass",
    "KrroodVerif.PD.C16_now",
    "KrroodVerif.PD.C16_cex_slice_twins",
    "KrroodVerif.PD.C16_cex_slice_one_shot",
    "KrroodVerif.PD.C16_gated",
    "KrroodVerif.PD.C16_cex_falsy",
    "KrroodVerif.PD.C16_two_general",
    "KrroodVerif.PD.C16_two_full",
    "KrroodVerif.PD.C16_two_partial",
    "KrroodVerif.PD.C16_cex_adopt_shares",
    "KrroodVerif.PD.C16_cex_ctor_breaks",
    # second tie: the mutator table (Model/MutatorTable.lean, Props/C16Table.lean)
    "KrroodVerif.PD.C16_table_total",
    "KrroodVerif.PD.C16_interp_eq_stepC",
    "KrroodVerif.PD.C16_table_hand_meets_property",
    "KrroodVerif.PD.C16_of_table_norm_eq",
    "KrroodVerif.PD.C16_table_run",
    # instances under construction, F-C16-10 (Model/DescriptorHalfBuilt.lean, Props/C16HalfBuilt.lean)
    "KrroodVerif.PD.C16_half_state",
    "KrroodVerif.PD.C16_half_repaired",
    "KrroodVerif.PD.C16_half_partial",
    "KrroodVerif.PD.C16_half_cex",
]


def extra_obligations():
    """Second tie: regenerate the mutator table of MonitoredList / MonitoredSet / PropertyDescriptor.__set__ from /repo's
    CURRENT source (Python ast) and have the kernel re-check that it is total over the public mutating API, that its
    normal form is the one of the hand-written table (`PD.mutatorTable`, for which `C16_interp_eq_stepC` proves
    `interp = stepC … Quirks.none`), and that its interpretation meets the property for all argument values."""
    import os
    import subprocess
    import core
    from translate.c16_translate import generate as gen, TranslationError, TRANSLATED
    try:
        text = gen(core.REPO)
    except (TranslationError, SyntaxError, OSError, RecursionError) as e:
        return [{"name": n, "ok": False, "detail": f"translator rejected the source: {e}"} for n in TRANSLATED]
    tmp = core.LEAN_DIR / ".lake" / "audit"
    tmp.mkdir(parents=True, exist_ok=True)
    f = tmp / f"C16Translated_{os.getpid()}.lean"
    f.write_text(text + "".join(f"#print axioms {n}\n" for n in TRANSLATED))
    try:
        p = subprocess.run(["lake", "env", "lean", str(f)], cwd=str(core.LEAN_DIR), capture_output=True, text=True,
                           timeout=600)
    finally:
        try:
            f.unlink()
        except OSError:
            pass
    out = " ".join(((p.stdout or "") + (p.stderr or "")).split())
    table = text[text.find("def mutatorTable"):text.find("/-- one row for every")]
    res = []
    for n in TRANSLATED:
        m = re.search(r"'" + re.escape(n) + r"' depends on axioms: \[([^\]]*)\]", out)
        none = re.search(r"'" + re.escape(n) + r"' does not depend on any axioms", out)
        ax = [a.strip() for a in m.group(1).split(",")] if m else ([] if none else None)
        ok = p.returncode == 0 and ax is not None and set(ax) <= core.ALLOWED_AXIOMS
        res.append({"name": n, "ok": ok, "axioms": ax,
                    "detail": "regenerated table:\n" + table + (p.stdout or "")[-1500:] + (p.stderr or "")[-800:]})
    return res

MODEL_FUNCTION = ("PD.stepC / PD.setterC (Assigned.same | other | lazyOf view) / PD.inplaceC / PD.addItemC / PD.runC "
                  "under PD.Quirks, PD.stepT / PD.runT (two owners) under PD.TQuirks, relations by PD.run "
                  "(Model/Descriptor.lean); specification PD.specC + PD.closure")
TRUSTED = [
    "Lean 4.33 kernel; axioms of each theorem listed under coverage.theorems",
    "hand-written model Model/Descriptor.lean of PropertyDescriptor.__set__ and of every overridden or inherited "
    "mutator of MonitoredList / MonitoredSet reachable through the listed write operations; relations through the "
    "C15 model of add_to_graph",
    "Python list / set semantics as written in PD.specStepC (pyInsert, pySetItem, rawAdd)",
    "this correspondence harness (random operation sequences through the real API in isolated worker processes) "
    "and the S-expression driver",
]
ASSUMPTIONS = [
    "CPython iterates a set of objects whose hashes are distinct small integers in ascending hash order (harness "
    "classes hash to their index): that is the 'hash order' of F-C16-3",
    "the `_on_add` hook does not change the contents of the container it is called from (the C16 fields are not "
    "transitive and nothing is inferred back into the written field except elements already stored)",
    "specification of the two-owner shape: every managed field owns its contents (the new instance receives the "
    "elements, each recorded for IT; later writes through one field neither appear in the other field nor are "
    "recorded for the other owner) - the reading under which 'every element that becomes part of the field is "
    "recorded' can hold for the owner whose field it is",
    "value equality: contents of a list are by position and identity, a set keeps the first of several equal "
    "elements (Python set semantics), relations are per OBJECT (one graph node per instance) - every object handed "
    "to an add operation is asserted, as an individual append/add does; a set literal passed to =, |= cannot hold "
    "two equal elements, so such arguments are generated key-distinct",
    "own-truthiness family (schema F): owner and elements are instances of a class with __len__ backed by a mutable "
    "attribute, falsy at some points of the sequence; what is recorded must not depend on truthiness (F-C16-9)",
    "slice assignment without a step only (`a.f[i:j:k] = ...` is not generated)",
    "item assignment uses indices in range (an out-of-range index raises IndexError after the hook has run; "
    "not generated)",
]
RULE = ("random sequences of 1..8 write operations on the three list fields and three set fields of schema L (each "
        "with a super-property and an inverse) from 0..4 random initial elements over 4..7 objects, repetitions and "
        "self references included; about half of the sequences stay outside the four triggers; non-trivial = at "
        "least two operations and a non-empty expected field; distinct by case text; plus n/3 two-owner sequences "
        "(0..3 writes on a, b constructed with a's live container, in 60% 1..4 further writes through either field; "
        "on any of the six fields); plus n/3 sequences (<= 6) over schema V, "
        "5..7 objects sharing 2..3 values of the compared key; plus max(90, n/5) three-step histories (family "
        "inferred-then-written, schemas U/L/D): writes on inverse / sub-property fields that infer elements into a "
        "container field, then `a.f = a.f` / `a.f += [..]` / `a.f |= {x}` / an explicit collection naming them, then "
        "the assignment of a new collection without them (relations + every field against the closure)")

L_SEXP_CACHE: Dict[str, dict] = {}


def budget(tier: str) -> int:
    return 900 if tier == "quick" else 12000


def _desc(tag: str = "L") -> dict:
    if tag not in L_SEXP_CACHE:
        from props import _pd
        L_SEXP_CACHE[tag] = _pd.describe(tag)
    return L_SEXP_CACHE[tag]


def _asis_step(cur: List[int], op, is_set: bool, keyf=None) -> List[int]:
    """contents Python semantics dictate (= the repaired code) — used only to choose item-assignment indices in range"""
    k = op[0]

    kf = keyf or (lambda o: o)

    def add(c, x):
        if is_set and any(kf(y) == kf(x) for y in c):
            return c
        return c + [x]

    if k in ("append", "add"):
        return add(cur, op[1])
    if k in ("extend", "update", "iaddAlias", "iadd"):
        for x in op[1]:
            cur = add(cur, x)
        return cur
    if k == "insert":
        c = list(cur)
        c.insert(op[1], op[2])
        return c
    if k == "setitem":
        c = list(cur)
        c[op[1]] = op[2]
        return c
    if k == "setslice":
        c = list(cur)
        c[op[1]:op[2]] = list(op[4])
        return c
    if k in ("remove", "discard"):
        c = list(cur)
        for j, y in enumerate(c):
            if kf(y) == kf(op[1]):
                del c[j]
                break
        return c
    if k == "pop":
        c = list(cur)
        c.pop(-1 if op[1] is None else op[1])
        return c
    if k == "delitem":
        c = list(cur)
        del c[op[1]]
        return c
    if k == "delslice":
        c = list(cur)
        del c[op[1]:op[2]]
        return c
    if k == "clear":
        return []
    if k == "assign":
        out: List[int] = []
        for x in op[1]:
            out = add(out, x)
        return out
    if k == "assignSelf":
        return cur
    if k == "assignView":
        v = op[1]
        if v == "filt":
            return [x for x in cur if x in op[2]]
        if v == "rev":
            return list(reversed(cur))
        if v == "iter":
            return list(cur)
        if v == "chain":
            out = []
            for x in list(cur) + list(op[2]):
                out = add(out, x)
            return out
        if v == "keys":
            out = []
            for x in cur:
                if not any(kf(y) == kf(x) for y in out):
                    out.append(x)
            return out
    raise ValueError(k)


def _fmt(op) -> str:
    k = op[0]
    if k in ("append", "add"):
        return f"({k} {op[1]})"
    if k in ("insert", "setitem"):
        return f"({k} {op[1]} {op[2]})"
    if k == "assignSelf":
        return "(assignSelf)"
    if k in ("drop", "fresh", "remove", "discard", "delitem"):
        return f"({k} {op[1]})"
    if k == "pop":
        return "(pop)" if op[1] is None else f"(pop {op[1]})"
    if k == "clear":
        return "(clear)"
    if k == "delslice":
        b = lambda v: "-" if v is None else str(v)
        return f"(delslice {b(op[1])} {b(op[2])})"
    if k == "setslice":
        b = lambda v: "-" if v is None else str(v)
        return f"(setslice {b(op[1])} {b(op[2])} {op[3]}{''.join(' ' + str(x) for x in op[4])})"
    if k == "assignView":
        return f"(assignView {op[1]}{''.join(' ' + str(x) for x in (op[2] if len(op) > 2 else []))})"
    return f"({k} {' '.join(map(str, op[1]))})" if op[1] else f"({k})"


def _sequence(rng, n_obj: int, is_set: bool, clean: bool, maxlen: int, no_setitem: bool = False, init=None,
              minlen: int = 1, keys=None, in_two_owner: bool = False):
    keyf = (lambda o: keys[o]) if keys else None

    def as_set_literal(xs):
        """a Python set literal cannot hold two equal elements: keep the first of each"""
        out = []
        for x in xs:
            if not any((keyf(y) if keyf else y) == (keyf(x) if keyf else x) for y in out):
                out.append(x)
        return out

    if init is None:
        init = [rng.randrange(n_obj) for _ in range(rng.randint(0, 4))]
    cur: List[int] = []
    for x in init:
        cur = _asis_step(cur, ("add" if is_set else "append", x), is_set, keyf)
    ops = []
    for _ in range(rng.randint(minlen, maxlen)):
        xs = [rng.randrange(n_obj) for _ in range(rng.randint(0, 3))]
        if is_set:
            kinds = ["add", "add", "update", "update", "assign"]
            if not clean:
                kinds += ["assignSelf", "iadd", "iaddAlias", "iadd", "assignView", "assignView"]
        else:
            kinds = ["append", "append", "extend", "insert", "insert", "setitem", "setitem", "assign", "setslice",
                     "setslice"]
            if not clean:
                kinds += ["assignSelf", "iadd", "iaddAlias", "assign", "iadd", "assignView", "assignView"]
        if not in_two_owner and not no_setitem:
            # mutators outside the property's list that only remove elements (inherited from list / set, no hook)
            kinds += (["remove", "discard", "clear"] if is_set else ["remove", "pop", "delitem", "delslice", "clear"])
        if no_setitem:
            kinds = [x for x in kinds if x != "setitem"]
        if in_two_owner:
            kinds = [x for x in kinds if x != "setslice"]
        k = rng.choice(kinds)
        if k in ("remove", "pop", "delitem") and not cur:
            k = "clear" if rng.random() < 0.3 else ("add" if is_set else "append")
        if k in ("append", "add"):
            op = (k, rng.randrange(n_obj))
        elif k in ("extend", "update"):
            op = (k, xs)
        elif k in ("iadd", "iaddAlias"):
            op = (k, as_set_literal(xs) if is_set else xs)
        elif k == "remove":
            # an element of the field, or (value-equal populations) any object that compares equal to one
            tgt = rng.choice(cur)
            if keyf and rng.random() < 0.5:
                tgt = rng.choice([o for o in range(n_obj) if keyf(o) == keyf(tgt)])
            op = (k, tgt)
        elif k == "discard":
            op = (k, rng.choice(cur) if cur and rng.random() < 0.7 else rng.randrange(n_obj))
        elif k == "pop":
            op = (k, None if rng.random() < 0.5 else rng.randint(-len(cur), len(cur) - 1))
        elif k == "delitem":
            op = (k, rng.randint(-len(cur), len(cur) - 1))
        elif k == "delslice":
            bnd = lambda: None if rng.random() < 0.2 else rng.randint(-len(cur) - 2, len(cur) + 2)
            op = (k, bnd(), bnd())
        elif k == "clear":
            op = (k,)
        elif k == "insert":
            op = (k, rng.randint(-len(cur) - 2, len(cur) + 2), rng.randrange(n_obj))
        elif k == "setitem":
            if not cur:
                continue
            op = (k, rng.randint(-len(cur), len(cur) - 1), rng.randrange(n_obj))
        elif k == "setslice":
            # any window: empty, inverted, negative, open ended; replaced by 0..3 elements (usually another length)
            def bound():
                return None if rng.random() < 0.2 else rng.randint(-len(cur) - 2, len(cur) + 2)
            one_shot = (not clean) and rng.random() < 0.25
            op = (k, bound(), bound(), "G" if one_shot else "L", xs)
            if one_shot:
                no_setitem = True  # the implementation stores nothing from a one-shot iterable: lengths diverge
        elif k == "assign":
            if is_set:
                xs = as_set_literal(sorted(set(xs)))
            elif clean:
                xs = sorted(set(xs))  # a list already in hash order without repetitions: outside F-C16-3
            op = (k, xs)
        elif k == "assignView":
            # the assigned value is an iterable over the live container itself
            v = rng.choice(["filt", "filt", "iter", "chain", "keys"] + ([] if is_set else ["rev", "rev"]))
            if v == "filt":
                op = (k, v, sorted({x for x in range(n_obj) if rng.random() < 0.6}))
            elif v == "chain":
                op = (k, v, xs)
            else:
                op = (k, v)
        else:
            op = (k,)
        ops.append(op)
        cur = _asis_step(cur, op, is_set, keyf)
    return init, ops


def _line(d: dict, n_obj: int, f: int, a: int, init, ops, keys=None) -> str:
    objs = " ".join("(0 -)" for _ in range(n_obj))
    ks = f" (keys {' '.join(map(str, keys))})" if keys else ""
    return (f"(w {d['sexp']} (objs {objs}){ks} (field {f}) (obj {a}) (init{''.join(' ' + str(x) for x in init)}) "
            f"(ops {' '.join(_fmt(o) for o in ops)}))")


def _recycle(rng, i: int) -> Case:
    """short-lived elements: rounds of (write elements by any write path; remove some by item / slice assignment, a
    new collection or a filtering view; the program forgets the removed elements, which die; NEW elements are created
    - CPython gives them the freed addresses - and written in the next round). Fields without a super-property field
    on the same object, so that nothing else keeps a removed element alive."""
    d = _desc("L")
    f = rng.choice([1, 2, 4, 5])
    is_set = d["kinds"][f] == "set"
    a = 0
    n_total = rng.randint(3, 5)
    pool = list(range(1, n_total))
    cur: List[int] = []
    ops = []

    def emit(op):
        nonlocal cur
        ops.append(op)
        cur = _asis_step(cur, op, is_set)

    def write():
        xs = [rng.choice(pool) for _ in range(rng.randint(1, 3))]
        if is_set:
            k = rng.choice(["add", "update", "iadd", "iaddAlias", "assign", "assignView"])
        else:
            k = rng.choice(["append", "extend", "iadd", "iaddAlias", "assign", "assignView", "insert", "setslice",
                            "setitem"])
        lit = list(dict.fromkeys(xs)) if is_set else xs
        if k in ("append", "add"):
            emit((k, xs[0]))
        elif k in ("extend", "update"):
            emit((k, xs))
        elif k in ("iadd", "iaddAlias", "assign"):
            emit((k, lit))
        elif k == "assignView":
            emit((k, "chain", xs))
        elif k == "insert":
            emit((k, rng.randint(-len(cur) - 1, len(cur) + 1), xs[0]))
        elif k == "setslice":
            b = lambda: None if rng.random() < 0.3 else rng.randint(-len(cur) - 1, len(cur) + 1)
            emit((k, b(), b(), "L", xs))
        elif k == "setitem":
            if cur:
                emit((k, rng.randint(-len(cur), len(cur) - 1), xs[0]))
            else:
                emit(("append", xs[0]))

    def remove():
        if not cur:
            return
        if is_set:
            k = rng.choice(["assign", "filt", "remove", "discard", "clear"])
        else:
            k = rng.choice(["assign", "filt", "setslice", "setitem", "remove", "pop", "delitem", "delslice", "clear"])
        if k in ("remove", "discard"):
            emit((k, rng.choice(cur)))
        elif k == "pop":
            emit((k, None if rng.random() < 0.5 else rng.randint(-len(cur), len(cur) - 1)))
        elif k == "delitem":
            emit((k, rng.randint(-len(cur), len(cur) - 1)))
        elif k == "delslice":
            emit((k, rng.randint(0, len(cur) - 1), None))
        elif k == "clear":
            emit((k,))
        elif k == "assign":
            emit(("assign", [x for x in dict.fromkeys(cur) if rng.random() < 0.3]))
        elif k == "filt":
            emit(("assignView", "filt", sorted({x for x in cur if rng.random() < 0.4})))
        elif k == "setslice":
            emit(("setslice", rng.randint(0, len(cur) - 1), None, "L", []))
        else:
            emit(("setitem", rng.randint(-len(cur), len(cur) - 1), rng.choice(pool)))

    for _ in range(rng.randint(2, 4)):
        for _ in range(rng.randint(1, 3)):
            write()
        remove()
        gone = [x for x in pool if x not in cur]
        rng.shuffle(gone)
        for x in gone[: rng.randint(1, 3)]:
            pool.remove(x)
            ops.append(("drop", x))
            ops.append(("fresh", n_total))
            pool.append(n_total)
            n_total += 1
    for _ in range(rng.randint(1, 3)):
        write()
    tags = ("recycled-elements", "set-field" if is_set else "list-field") + tuple(sorted({"op-" + o[0] for o in ops}))
    return Case(_line(d, n_total, f, a, [], ops), tags, "random")


def _falsy(rng, i: int) -> Case:
    """owner and elements are instances of a class with its own truthiness (schema F: `__len__` backed by a mutable
    attribute); some of them are falsy at some points of the sequence"""
    d = _desc("F")
    f = rng.randrange(6)
    is_set = d["kinds"][f] == "set"
    n_obj = rng.randint(4, 6)
    a = rng.randrange(n_obj)
    init, ops = _sequence(rng, n_obj, is_set, False, 6)
    out = [_fmt(o) for o in ops]
    for _ in range(rng.randint(1, 3)):
        o = a if rng.random() < 0.3 else rng.randrange(n_obj)
        k = rng.randint(0, len(out))
        out.insert(k, f"(falsy {o})")
        if rng.random() < 0.6:
            out.insert(rng.randint(k + 1, len(out)), f"(truthy {o})")
    objs = " ".join("(0 -)" for _ in range(n_obj))
    line = (f"(w {d['sexp']} (objs {objs}) (field {f}) (obj {a}) (init{''.join(' ' + str(x) for x in init)}) "
            f"(ops {' '.join(out)}))")
    tags = ("own-truthiness", "set-field" if is_set else "list-field") + tuple(sorted({"op-" + o[0] for o in ops}))
    return Case(line, tags, "random")


def _reassign(rng, i: int) -> Case:
    """the field is assigned several times: later values drop elements written earlier; repetitions in the assigned
    collection and the owner itself as an element (the C15 residual F-C15-3 seen from C16: the contents must be the
    last assigned value, every element that ever entered stays recorded)"""
    d = _desc("L")
    f = rng.randrange(6)
    is_set = d["kinds"][f] == "set"
    n_obj = rng.randint(4, 6)
    a = rng.randrange(n_obj)
    pool = list(range(n_obj))
    ops = []
    for _ in range(rng.randint(2, 4)):
        if rng.random() < 0.5:
            ops.append(("add" if is_set else "append", rng.choice(pool)))
        xs = [rng.choice(pool + [a]) for _ in range(rng.randint(0, 4))]
        ops.append(("assign", list(dict.fromkeys(xs)) if is_set else xs))
        if rng.random() < 0.3:
            ops.append(("assignSelf",))
    tags = ("reassignment", "set-field" if is_set else "list-field")
    return Case(_line(d, n_obj, f, a, [], ops), tags, "random")


def _value_equal(rng, i: int) -> Case:
    """a population in which several DISTINCT objects compare equal (schema V): lists keep them all by identity,
    sets keep the first, and every one of them that is added gets its own relation"""
    d = _desc("V")
    n_obj = rng.randint(5, 7)
    nkeys = max(2, n_obj // 2)
    keys = [rng.randrange(nkeys) for _ in range(n_obj)]
    f = rng.randrange(6)
    is_set = d["kinds"][f] == "set"
    a = rng.randrange(n_obj)
    init, ops = _sequence(rng, n_obj, is_set, False, 6, keys=keys)
    tags = ("value-equal", "set-field" if is_set else "list-field") + tuple(sorted({"op-" + o[0] for o in ops}))
    return Case(_line(d, n_obj, f, a, init, ops, keys), tags, "random")


def _line2(d: dict, n_obj: int, f: int, a: int, b: int, init, ops) -> str:
    """ops: list of ("A"|"B", cop) or ("adopt",)"""
    objs = " ".join("(0 -)" for _ in range(n_obj))
    body = " ".join("(adopt)" if o[0] == "adopt" else f"({o[0]} {_fmt(o[1])})" for o in ops)
    return (f"(w2 {d['sexp']} (objs {objs}) (field {f}) (objA {a}) (objB {b}) "
            f"(init{''.join(' ' + str(x) for x in init)}) (ops {body}))")


def _two_owner(rng, d: dict, i: int) -> Case:
    """`b` is created with (its field first assigned) the live container of `a`; writes before and after on both"""
    n_obj = rng.randint(4, 7)
    # every field, also those (0, 3) whose super-property field is declared later on the same class: the constructor
    # used to raise there (F-C16-6, repaired)
    f = rng.randrange(6)
    is_set = d["kinds"][f] == "set"
    a, b = n_obj - 2, n_obj - 1
    init = [rng.randrange(n_obj - 1) for _ in range(rng.randint(0, 3))]
    _, pre = _sequence(rng, n_obj - 1, is_set, False, 3, init=list(init), minlen=0, in_two_owner=True)
    ops = [("A", o) for o in pre] + [("adopt",)]
    if i % 5 >= 2:  # writes after the adoption (every owner has a container of its own: F-C16-5 is repaired)
        _, post = _sequence(rng, n_obj, is_set, False, 4, no_setitem=True, init=[], in_two_owner=True)
        ops += [(rng.choice("AB"), o) for o in post]
    tags = ("two-owners", "set-field" if is_set else "list-field",
            "adopt-last" if ops[-1][0] == "adopt" else "writes-after-adopt")
    return Case(_line2(d, n_obj, f, a, b, init, ops), tags, "random")


def _ctor_history(rng, i: int) -> Case:
    """writes whose inference reaches the written instance's OWN fields: instances constructed mid-history with
    keyword arguments for several managed fields at once (the dataclass `__init__` assigns them in declaration order:
    a sub-property field declared before its super-property's collection field infers into a field `__init__` has not
    assigned yet, and the assignment that follows finds the container inference created); a collection assigned as the
    FIRST access to a field after such a construction (nothing has read the field); collections assigned to
    transitive fields whose elements already have outgoing relations of that property (the hierarchy built top-down:
    inference writes into the very field being populated). Schemas U (the repository's classes), D (diamond,
    transitive, inverse), L. The history never assigns to a field that holds an asserted element (that is the open
    C15 finding F-C15-3). Compared: relation triples + contents of every managed field, as sets, against the
    closure of the asserted relations (= what appending the elements one by one gives)."""
    tag = rng.choice(["U", "D", "D", "L"])
    d = _desc(tag)
    kinds, targets, order = d["kinds"], d["targets"], d["decl_order"]
    plain = [c for c in range(d["nclasses"]) if c not in set(d["role_cls"])]
    n_obj = rng.randint(3, 6)
    cls_of = [rng.choice(plain) for _ in range(n_obj)]
    late = sorted(rng.sample(range(n_obj), rng.randint(1, 2)))
    exists = [o for o in range(n_obj) if o not in late]
    has_asserted, set_done = set(), set()
    ops: List[str] = []
    shapes = set()

    def cands(f, among):
        return [t for t in among if cls_of[t] in targets[f]]

    def value(f, o, among):
        """a value for field f of o (None when there is no admissible target yet)"""
        ts = cands(f, among)
        if not ts:
            return None
        if kinds[f] == "single":
            return rng.choice(ts)
        xs = [rng.choice(ts) for _ in range(rng.randint(1, 3))]
        return list(dict.fromkeys(xs)) if kinds[f] == "set" else xs

    def write(o):
        fs = order[cls_of[o]]
        if not fs:
            return
        f = rng.choice(fs)
        v = value(f, o, exists)
        if v is None:
            return
        if kinds[f] == "single":
            if (f, o) in set_done:
                return
            set_done.add((f, o))
            ops.append(f"(set {f} {o} {v})")
        elif (f, o) not in has_asserted and rng.random() < 0.65:
            ops.append(f"(assign {f} {o} {' '.join(map(str, v))})")
            has_asserted.add((f, o))
            shapes.add("assign")
        else:
            ops.append(f"(add {f} {o} {v[0]})")
            has_asserted.add((f, o))

    for _ in range(rng.randint(0, 4)):
        if exists:
            write(rng.choice(exists))
    for o in late:
        items = []
        given = 0
        for f in order[cls_of[o]]:
            v = value(f, o, exists) if rng.random() < 0.55 else None
            if v is None:
                items.append(f"(default {f})")
            elif kinds[f] == "single":
                items.append(f"(set {f} {v})")
                set_done.add((f, o))
                given += 1
            else:
                items.append(f"(assign {f} {' '.join(map(str, v))})")
                has_asserted.add((f, o))
                given += 1
        ops.append(f"(ctor {o} {' '.join(items)})")
        shapes.add(f"ctor-{min(given, 3)}-kwargs")
        exists.append(o)
        for _ in range(rng.randint(0, 3)):
            write(o if rng.random() < 0.7 else rng.choice(exists))
    for _ in range(rng.randint(0, 3)):
        write(rng.choice(exists))
    objs = " ".join(f"({c} -)" for c in cls_of)
    line = f"(hc {d['sexp']} (objs {objs}) (ops {' '.join(ops)}))"
    return Case(line, ("constructed-and-coupled", "schema-" + tag) + tuple(sorted(shapes)), "random")


def _inferred_then_written(rng, n: int) -> List[Case]:
    """three-step histories on one container field: (a) writes on OTHER fields (inverse / sub-property fields of any
    object) from which inference may put elements into field f of a; (b) a write whose assigned value contains what the
    field holds at that moment - `a.f = a.f`, `a.f += [..]` / `a.f |= {x}`, or an explicit collection naming such
    elements -; (c) the assignment of a new collection (the elements asserted into the field so far plus new ones,
    the inferred ones NOT named). The inferring relations are never withdrawn, so the elements stay in the field
    (fix 061eb98) however the field was written in between. Candidates are drawn generously and those the driver
    calls ill-formed (an assignment would drop an ASSERTED element: the open F-C15-3) are left out."""
    from core import Driver
    cands: List[Case] = []
    for _ in range(3 * n):
        tag = rng.choice(["U", "L", "L", "D"])
        d = _desc(tag)
        kinds, targets, applies = d["kinds"], d["targets"], d["applies"]
        plain = [c for c in range(d["nclasses"]) if c not in set(d["role_cls"])]
        n_obj = rng.randint(3, 5)
        cls_of = [rng.choice(plain) for _ in range(n_obj)]
        conts = [(f, o) for f in range(len(kinds)) if kinds[f] != "single" for o in range(n_obj)
                 if cls_of[o] in applies[f] and any(cls_of[t] in targets[f] for t in range(n_obj))]
        if not conts:
            continue
        f, a = rng.choice(conts)
        ts = [t for t in range(n_obj) if cls_of[t] in targets[f]]
        ops: List[str] = []
        single_done = set()
        # (a) feeders: writes on other fields that mention a (as owner of another field or as element)
        for _ in range(rng.randint(1, 3)):
            if rng.random() < 0.7:   # x.g gets a
                spots = [(g, x) for g in range(len(kinds)) for x in range(n_obj)
                         if (g, x) != (f, a) and cls_of[x] in applies[g] and cls_of[a] in targets[g]]
                if not spots:
                    continue
                g, x = rng.choice(spots)
                y = a
            else:                    # a.g gets y (g a sub-property field of the same object)
                spots = [(g, y) for g in range(len(kinds)) for y in range(n_obj)
                         if g != f and cls_of[a] in applies[g] and cls_of[y] in targets[g]]
                if not spots:
                    continue
                g, y = rng.choice(spots)
                x = a
            if kinds[g] == "single":
                if (g, x) in single_done:
                    continue
                single_done.add((g, x))
                ops.append(f"(set {g} {x} {y})")
            else:
                ops.append(f"(add {g} {x} {y})")
        if not ops:
            continue
        asserted: List[int] = []
        shapes = set()
        # (b) the field's own contents become part of an assigned value
        for _ in range(rng.randint(1, 2)):
            r = rng.random()
            if r < 0.35:
                ops.append(f"(assignSelf {f} {a})")
                shapes.add("self-assignment")
            elif r < 0.75:
                xs = [rng.choice(ts)] if kinds[f] == "set" else [rng.choice(ts) for _ in range(rng.randint(0, 2))]
                ops.append(f"(iadd {f} {a}{''.join(' ' + str(x) for x in xs)})")
                asserted += xs
                shapes.add("augmented-assignment")
            else:
                xs = list(dict.fromkeys(asserted + [rng.choice(ts) for _ in range(rng.randint(1, 2))]))
                ops.append(f"(assign {f} {a}{''.join(' ' + str(x) for x in xs)})")
                shapes.add("explicit-collection")
                # which of the named elements were there by inference is not known here: the later assignment names
                # or omits each of them at random (omitting an asserted one is filtered out by the driver)
                asserted = [x for x in xs if x in asserted or rng.random() < 0.4]
        # (c) a new collection: the asserted elements and new ones
        for _ in range(rng.randint(1, 2)):
            xs = list(dict.fromkeys(asserted + [rng.choice(ts) for _ in range(rng.randint(0, 2))]))
            rng.shuffle(xs)
            ops.append(f"(assign {f} {a}{''.join(' ' + str(x) for x in xs)})")
            asserted = xs
        objs = " ".join(f"({c} -)" for c in cls_of)
        line = f"(hc {d['sexp']} (objs {objs}) (ops {' '.join(ops)}))"
        cands.append(Case(line, ("inferred-then-written", "schema-" + tag) + tuple(sorted(shapes)), "random"))
    verdicts = Driver(PID).run([c.line for c in cands]) if cands else []
    out = [c for c, v in zip(cands, verdicts) if "spec" in v]
    return out[:n]


def witness_lines() -> Dict[str, str]:
    d = _desc()
    return {
        "F-C16-1": _line(d, 5, 0, 4, [1, 2], [("assignSelf",)]),
        "F-C16-2": _line(d, 5, 0, 4, [1], [("iadd", [2])]),
        "F-C16-3": _line(d, 5, 0, 4, [], [("assign", [3, 1, 3, 0])]),
        "F-C16-4": _line(d, 5, 3, 4, [1], [("iaddAlias", [2])]),
        "F-C16-5": _line2(d, 6, 1, 4, 5, [1], [("adopt",), ("B", ("append", 2))]),
        "F-C16-6": _line2(d, 6, 0, 4, 5, [1], [("adopt",)]),
    }


def generate(rng, tier, n):
    d = _desc()
    cases: List[Case] = []
    maxlen = 8
    for i in range(n):
        f = rng.randrange(6)
        is_set = d["kinds"][f] == "set"
        n_obj = rng.randint(4, 7)
        a = rng.randrange(n_obj)
        clean = (i % 2 == 0)
        init, ops = _sequence(rng, n_obj, is_set, clean, maxlen)
        if not ops:
            continue
        tags = ("set-field" if is_set else "list-field", "outside-triggers" if clean else "any-op") + tuple(
            sorted({"op-" + o[0] for o in ops}))
        cases.append(Case(_line(d, n_obj, f, a, init, ops), tags, "random"))
    for i in range(max(40, n // 3)):
        cases.append(_two_owner(rng, d, i))
    for i in range(max(60, n // 3)):
        cases.append(_value_equal(rng, i))
    for i in range(max(60, n // 3)):
        cases.append(_recycle(rng, i))
    for i in range(max(60, n // 4)):
        cases.append(_falsy(rng, i))
    for i in range(max(40, n // 8)):
        cases.append(_reassign(rng, i))
    for i in range(max(90, n // 5)):
        cases.append(_ctor_history(rng, i))
    cases += _inferred_then_written(rng, max(90, n // 5))
    return cases


def compare(impl: str, other: str) -> bool:
    """string equality, except for the `hc` family (relations + every field, C15's observation): a single-valued
    field must hold one of the derivable targets"""
    if impl == other:
        return True
    if impl.startswith("R[") and "|F[" in impl:
        from props import c15
        return c15.compare(impl, other)
    return False


def nontrivial(case: Case, spec: str) -> bool:
    if case.line.startswith("(hc "):
        return not spec.startswith("R[]")
    if case.line.startswith("(w2 "):
        m2 = re.match(r"A\[([^\]]*)\]\|B\[([^\]]*)\]", spec)
        return bool(m2 and m2.group(2) not in ("", "-"))
    m = re.match(r"C\[([^\]]*)\]", spec)
    nops = len(re.findall(r"\(", case.line[case.line.rfind("(ops "):])) - 1
    return bool(m and m.group(1)) and nops >= 2


_INDEXED = ("(setitem", "(remove", "(pop", "(delitem")   # operations that raise when an earlier write is taken away


def _shrink2(case: Case):
    from props._pd import parse_sexp

    m = re.search(r"\(ops (.*)\)\)$", case.line)
    if not m:
        return
    head = case.line[: m.start()]

    def ren(x):
        return x if isinstance(x, str) else "(" + " ".join(ren(y) for y in x) + ")"

    ops = parse_sexp("(" + m.group(1) + ")")
    for i in range(len(ops)):
        rest = ops[:i] + ops[i + 1:]
        if rest and not any(isinstance(o[1], list) and ("(" + o[1][0]) in _INDEXED for o in rest[i:] if len(o) > 1):
            yield Case(f"{head}(ops {' '.join(ren(o) for o in rest)}))", case.tags, "shrink")


def shrink(case: Case):
    if case.line.startswith("(hc "):
        m = re.search(r"\(ops (.*)\)\)$", case.line)
        if not m:
            return
        from props._pd import parse_sexp

        def ren(x):
            return x if isinstance(x, str) else "(" + " ".join(ren(y) for y in x) + ")"

        ops = parse_sexp("(" + m.group(1) + ")")
        cands = []
        for i in range(len(ops)):
            if ops[i][0] != "ctor" and len(ops) > 1:
                cands.append(Case(f"{case.line[: m.start()]}(ops {' '.join(ren(o) for o in ops[:i] + ops[i + 1:])}))",
                                  case.tags, "shrink"))
        # taking a write away can make a later assignment drop an ASSERTED element (the element was there by
        # inference before): such histories are outside the family (F-C15-3) - the driver says which
        from core import Driver
        verdicts = Driver(PID).run([revive(c).line for c in cands]) if cands else []
        for c, v in zip(cands, verdicts):
            if "spec" in v:
                yield c
        return
    if case.line.startswith("(w2 "):
        yield from _shrink2(case)
        return
    m = re.search(r"\(init([^)]*)\) \(ops (.*)\)\)$", case.line)
    if not m:
        return
    head = case.line[: m.start()]
    init = m.group(1).split()
    ops = re.findall(r"\([^()]*\)", m.group(2))
    for i in range(len(ops)):
        rest = ops[:i] + ops[i + 1:]
        if ops[i].startswith("(fresh"):
            continue  # the element is used later: keep its creation
        if rest and not any(o.startswith(_INDEXED) for o in rest[i:]):
            yield Case(f"{head}(init{''.join(' ' + x for x in init)}) (ops {' '.join(rest)}))", case.tags, "shrink")
    for i in range(len(init)):
        if not any(o.startswith(_INDEXED) for o in ops):
            r = init[:i] + init[i + 1:]
            yield Case(f"{head}(init{''.join(' ' + x for x in r)}) (ops {' '.join(ops)}))", case.tags, "shrink")


def revive(case: Case) -> Case:
    """stored lines (corpus, finding witnesses, replays) carry the numeric encoding of the declared semantics as it
    was when they were written; re-read it from the real classes so that only the history is replayed"""
    m = re.match(r"^\((hc|h|w2|w) \(schema (\w)\) .*? \(objs ", case.line)
    if not m:
        return case
    try:
        sexp = _desc(m.group(2))["sexp"]
    except Exception:
        return case
    return Case(f"({m.group(1)} {sexp} (objs " + case.line[m.end():], case.tags, case.origin, case.payload)


def run_impl(cases):
    from props import _pd
    return _pd.run_isolated("C16", [c.line for c in cases])
