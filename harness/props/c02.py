"""C02 — no duplicated or dropped solutions in conjunctive / else-if queries.

Fragment F2 (the property's own): comparisons, membership, boolean attributes and negated atoms under and_, and or_
only between conditions over the same variables. Observation: the MULTISET of rows, and the outcome of the(...)."""
from __future__ import annotations

import eqlgen as G
from core import Case

PID = "C02"
LEAN_MODULES = ["KrroodVerif.Props.C02", "KrroodVerif.Props.C01", "KrroodVerif.Props.C01Typed"]
THEOREMS = [
    "KrroodVerif.Eql.C02_multiplicity",
    "KrroodVerif.Eql.C02_the",
    "KrroodVerif.Eql.C02_multiplicity_typed",
    "KrroodVerif.Eql.C02_the_typed",
    "KrroodVerif.Eql.C02_cex_falsyBound",  # witness of the REPAIRED F-C02-1: one row per satisfying assignment now
    "KrroodVerif.Eql.C02_poset_not_lt_ne_ge",
    "KrroodVerif.Eql.C02_poset_negated_atom",
    "KrroodVerif.Eql.C01_cover",
    "KrroodVerif.Eql.eval_total",
]
MODEL_FUNCTION = "Eql.evalQuery / Eql.eval (Model/Eql.lean) on the NNF conjunctive/else-if fragment"
TRUSTED = [
    "Lean 4.33 kernel; axioms of each theorem listed under coverage.theorems",
    "hand-written model Model/Eql.lean of symbolic.py/entity.py evaluation (tree-shaped queries)",
    "this correspondence harness, the S-expression driver",
]
ASSUMPTIONS = [
    "queries are tree-shaped: every attribute/comparator node occurs once (x.a written at each use)",
    "selected expressions are distinct plain variables (the property counts assignments of the query's variables)",
]
RULE = ("corpus, then random F2 conditions (depth<=4; and_; or_ between same-variable conditions; not_ on atoms; 1-3 "
        "variables; int/object domains of 0-4 elements, falsy values (0, False, []) in a quarter of the cases - inside "
        "the theorems' hypotheses since F-C02-1 = F-C01-3 was repaired, so nothing excuses them; variable-sharing "
        "patterns x-x, x-y, x-y-x); each case evaluated with an() (multiset of rows) and the() (outcome); "
        "non-trivial = at least one and not all assignments satisfy; distinct by case text")


def budget(tier: str) -> int:
    return 6000 if tier == "quick" else 80000


def _same_var_cond(rnd, vs_all, kinds, depth, lo):
    """condition over exactly the variable set vs_all (so or_ becomes ElseIf): conjunction touching every variable"""
    parts = [G.gen_atom(rnd, vs_all, kinds, lo, must=v) for v in vs_all]
    rnd.shuffle(parts)
    c = parts[0]
    for p in parts[1:]:
        c = ("and", c, p)
    return c


def gen_f2(rnd, vs, kinds, depth, lo):
    if depth == 0 or rnd.random() < 0.25:
        a = G.gen_atom(rnd, vs, kinds, lo)
        return ("not", a) if rnd.random() < 0.25 else a
    k = rnd.random()
    if k < 0.55:
        return ("and", gen_f2(rnd, vs, kinds, depth - 1, lo), gen_f2(rnd, vs, kinds, depth - 1, lo))
    # or_ between two conditions over the same variables
    sub = [v for v in vs if rnd.random() < 0.6] or [rnd.choice(vs)]
    def side():
        c = _same_var_cond(rnd, sub, kinds, depth - 1, lo)
        # atoms generated for `sub` may mention other variables through num_term; force closure by construction
        return c
    l, r = side(), side()
    if set(G.c_allvars(l)) != set(G.c_allvars(r)):
        # pad both sides with trivially-true atoms over the missing variables so that the sets coincide
        allv = sorted(set(G.c_allvars(l)) | set(G.c_allvars(r)))
        def pad(c):
            for v in allv:
                if v not in G.c_allvars(c):
                    t = ("var", v) if kinds[v] == "int" else ("attr", ("var", v), "a")
                    c = ("and", c, ("cmp", "eq", t, t))
            return c
        l, r = pad(l), pad(r)
    return ("or", l, r)


def generate(rng, tier, n):
    out = []
    while len(out) < n:
        falsy = rng.random() < 0.25
        nv = rng.choice([1, 2, 2, 3])
        vs = ["x", "y", "z"][:nv]
        kinds, objs, doms = G.gen_world(rng, vs, falsy=falsy)
        lo = 0 if falsy else 1
        cond = gen_f2(rng, vs, kinds, rng.randrange(0, 4), lo)
        used = []
        for v in G.c_allvars(cond):
            if v not in used:
                used.append(v)
        if not used:
            continue
        sel = [("var", v) for v in rng.sample(used, rng.randrange(1, len(used) + 1))]
        q = {"sel": sel, "cond": cond, "objs": objs, "doms": {n_: d for n_, d in doms.items() if n_ in used},
             "kinds": {n_: k for n_, k in kinds.items() if n_ in used}, "force_set_of": len(sel) > 1}
        tags = ["depth%d" % G.cond_depth(cond), "nsel%d" % len(sel), "falsy" if falsy else "truthy"] + sorted(set(G.cond_ops(cond)))
        if "truth" not in G.cond_ops(cond) and rng.random() < 0.25:
            # one attribute node object per distinct attribute expression, used as a comparison operand several times
            q["share_attr_nodes"] = True
            tags.append("shared-operand-nodes")
        out.append(Case(G.sx_query(q), tuple(tags), "random", q))
    return out


def revive(case: Case) -> Case:
    if case.payload is None:
        case.payload = G.parse_query(case.line)
    return case


def shrink(case: Case):
    for q in G.shrink_query(case.payload):
        if q["cond"] is None:
            continue
        yield Case(G.sx_query(q), case.tags, "shrink", q)


def nontrivial(case: Case, spec: str) -> bool:
    bag = spec.split(" | ")[0]
    if bag.startswith("exc:") or not bag:
        return False
    q = case.payload
    total = 1
    for v in G.query_vars(q):
        total *= len(q["doms"][v])
    return len(bag.split(") (")) < total


def _exc(e):
    from props.c01 import exc_name
    return exc_name(e)


def _first_shared_candidate(c):
    """the first `and` sub-condition that is a direct operand of an `or` or a `not`"""
    if c is None:
        return None
    k = c[0]
    if k == "or":
        for side in (c[1], c[2]):
            if side[0] == "and":
                return side
        return _first_shared_candidate(c[1]) or _first_shared_candidate(c[2])
    if k == "not":
        return c[1] if c[1][0] == "and" else _first_shared_candidate(c[1])
    if k == "and":
        return _first_shared_candidate(c[1]) or _first_shared_candidate(c[2])
    return None


def _one(case: Case) -> str:
    """the(...) is evaluated FIRST and an(...) afterwards, over the SAME variables whose domains are one-shot generators:
    a the() that raises MultipleSolutionFound leaves an abandoned evaluation behind, and the count seen by the following
    an() must still be the true number of solutions (C03_sequential_partial: sequential evaluations do not interfere)."""
    from krrood.entity_query_language.failures import NoSolutionFound, MultipleSolutionFound
    from krrood.entity_query_language.quantify_entity import the
    q = case.payload
    try:
        objs = G.make_objects(q)
        V = G.make_vars(q, objs, one_shot=True)
    except Exception as e:  # noqa: BLE001
        return f"{_exc(e)} | {_exc(e)}"
    memo = None
    if int(case.key()[:4], 16) % 3 == 0 and not q.get("share_attr_nodes"):
        # a compound sub-condition that is an operand of or_/not_ is stored in a Python variable, first used ALONE as
        # the condition of a conjunctive query (evaluated), and then re-used as that operand in the queries below
        sub = _first_shared_candidate(q["cond"])
        if sub is not None:
            memo = {}
            try:
                vs = []
                for v in G.c_allvars(sub):
                    if v not in vs:
                        vs.append(v)
                pre, _, _ = G.build_query({**q, "sel": [("var", v) for v in vs], "cond": sub, "force_set_of": len(vs) > 1},
                                          V, objs, cond_memo=memo)
                list(pre.evaluate())
            except Exception:  # noqa: BLE001
                pass
    try:
        query2, sel2, single2 = G.build_query(q, V, objs, cond_memo=None)
        t = the(query2._child_)
        r = t.evaluate()
        row = G.show_row((r,)) if single2 else G.show_row(tuple(r[k] for k in sel2))
        th = "value " + row
    except NoSolutionFound:
        th = "noSolution"
    except MultipleSolutionFound:
        th = "multipleSolutions"
    except Exception as e:  # noqa: BLE001
        th = _exc(e)
    try:
        query, sel, single = G.build_query(q, V, objs, cond_memo=memo)
        bag = " ".join(sorted(G.rows_of(query, sel, single)))
    except Exception as e:  # noqa: BLE001
        bag = _exc(e)
    return f"{bag} | {th}"


def run_impl(cases):
    return [_one(revive(c)) for c in cases]
