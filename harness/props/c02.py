"""C02 — no duplicated or dropped solutions in conjunctive / else-if queries.

Fragment F2 (the property's own): comparisons, membership, boolean attributes and negated atoms under and_, and or_
only between conditions over the same variables. Observation: the MULTISET of rows, and the outcome of the(...)."""
from __future__ import annotations

import eqlgen as G
from core import Case

PID = "C02"
LEAN_MODULES = ["KrroodVerif.Props.C02", "KrroodVerif.Props.C01", "KrroodVerif.Props.C01Typed",
                "KrroodVerif.Props.C02Rewrites"]
THEOREMS = [
    "KrroodVerif.Eql.C02_multiplicity",
    "KrroodVerif.Eql.C02_the",
    "KrroodVerif.Eql.C02_multiplicity_typed",
    "KrroodVerif.Eql.C02_the_typed",
    "KrroodVerif.Eql.C02_cex_falsyBound",  # witness of the REPAIRED F-C02-1: one row per satisfying assignment now
    "KrroodVerif.Eql.C02_poset_not_lt_ne_ge",
    "KrroodVerif.Eql.C02_poset_negated_atom",
    "KrroodVerif.Eql.C01_cover",
    "KrroodVerif.Eql.eval_total",
    # construction-time rewrites as a table regenerated from the source (Model/EqlRewrites.lean, Props/C02Rewrites.lean)
    "KrroodVerif.Eql.buildWith_rewrites_eq_build",
    "KrroodVerif.Eql.buildWith_rewrites_ofS",
    "KrroodVerif.Eql.satE_buildWith",
    "KrroodVerif.Eql.satS_toS",
    "KrroodVerif.Eql.satE_build_of_table",
    "KrroodVerif.Eql.satE_invertWith",
    "KrroodVerif.Eql.rewritesOk_or_equal_vars",
    "KrroodVerif.Eql.buildWith_or_pair",
    "KrroodVerif.Eql.buildWith_eq_build_of_notOnAtoms",
    "KrroodVerif.Eql.C02_multiplicity_okTable",
    "KrroodVerif.Eql.deMorganTable_ok",
    "KrroodVerif.Eql.complementTable_rejected",
    "KrroodVerif.Eql.orTables_rejected",
    "KrroodVerif.Eql.satE_invComparatorWith_noFlat_partial",
]
TRANSLATED = ["KrroodVerif.Eql.Translated.C02_rewrites_translated_eq_model",
              "KrroodVerif.Eql.Translated.C02_rewrites_translated_ok"]


def extra_obligations():
    """the construction-time rewrites (below) and the evaluation methods (harness/translate/c01_translate.py)"""
    from translate import c01_translate as T1
    return rewrite_obligations() + T1.obligations(PID)


def rewrite_obligations():
    """Second tie: regenerate the table of construction-time rewrites (`optimize_or`, `chained_logic`, `and_`/`or_`/`not_`/
    `exists`/`for_all`/`contains`/`in_`, every `_invert_` along the MRO) from /repo's CURRENT source (Python ast) and have
    the kernel re-check that it IS the table the model's `build` transcribes (`buildWith_rewrites_eq_build`) and that it
    passes `RewritesOk` (hypothesis of `satE_buildWith`, `rewritesOk_or_equal_vars`, `C02_multiplicity_okTable`)."""
    import os
    import re
    import subprocess
    import core
    from translate import c02_translate as T
    try:
        tab = T.table((core.REPO / T.SYMBOLIC).read_text(), (core.REPO / T.ENTITY).read_text())
        text = T.render(tab)
    except (T.TranslationError, SyntaxError, OSError, RecursionError, KeyError) as e:
        return [{"name": n, "ok": False, "detail": f"translator rejected the source: {e}"} for n in TRANSLATED]
    tmp = core.LEAN_DIR / ".lake" / "audit"
    tmp.mkdir(parents=True, exist_ok=True)
    f = tmp / f"C02Translated_{PID}_{os.getpid()}.lean"
    f.write_text(text + "".join(f"#print axioms {n}\n" for n in TRANSLATED))
    try:
        p = subprocess.run(["lake", "env", "lean", str(f)], cwd=str(core.LEAN_DIR), capture_output=True, text=True, timeout=600)
    finally:
        try:
            f.unlink()
        except OSError:
            pass
    out = " ".join(((p.stdout or "") + (p.stderr or "")).split())
    res = []
    differs = T.diff(tab)
    for n in TRANSLATED:
        m = re.search(r"'" + re.escape(n) + r"' depends on axioms: \[([^\]]*)\]", out)
        none = re.search(r"'" + re.escape(n) + r"' does not depend on any axioms", out)
        ax = [a.strip() for a in m.group(1).split(",")] if m else ([] if none else None)
        # the two obligations are independent (the table may differ from the model's and still be admissible): a
        # theorem whose `decide` fails is added with `sorryAx`, which is not an allowed axiom — so no use of the exit code
        ok = ax is not None and set(ax) <= core.ALLOWED_AXIOMS
        res.append({"name": n, "ok": ok, "axioms": ax,
                    "detail": "regenerated table differs from the model's in: " + ("; ".join(differs) or "nothing")
                              + "\n" + text[text.find("def rewrites"):text.find("/-- the table")]
                              + (p.stdout or "")[-1500:] + (p.stderr or "")[-800:]})
    return res


MODEL_FUNCTION = "Eql.evalQuery / Eql.eval (Model/Eql.lean) on the NNF conjunctive/else-if fragment"
TRUSTED = [
    "Lean 4.33 kernel; axioms of each theorem listed under coverage.theorems",
    "hand-written model Model/Eql.lean of symbolic.py/entity.py evaluation (tree-shaped queries)",
    "this correspondence harness, the S-expression driver",
]
ASSUMPTIONS = [
    "queries are tree-shaped: every attribute/comparator node occurs once (x.a written at each use)",
    "selected expressions are distinct plain variables (the property counts assignments of the query's variables)",
]
RULE = ("corpus, then random F2 conditions (depth<=4; and_; or_ between same-variable conditions; not_ on atoms; 1-3 "
        "variables; int/object domains of 0-4 elements, falsy values (0, False, []) in a quarter of the cases - inside "
        "the theorems' hypotheses since F-C02-1 = F-C01-3 was repaired, so nothing excuses them; variable-sharing "
        "patterns x-x, x-y, x-y-x); each case evaluated with an() (multiset of rows) and the() (outcome); "
        "non-trivial = at least one and not all assignments satisfy; distinct by case text")


def budget(tier: str) -> int:
    return 6000 if tier == "quick" else 80000


def _same_var_cond(rnd, vs_all, kinds, depth, lo):
    """condition over exactly the variable set vs_all (so or_ becomes ElseIf): conjunction touching every variable"""
    parts = [G.gen_atom(rnd, vs_all, kinds, lo, must=v) for v in vs_all]
    rnd.shuffle(parts)
    c = parts[0]
    for p in parts[1:]:
        c = ("and", c, p)
    return c


def gen_f2(rnd, vs, kinds, depth, lo):
    if depth == 0 or rnd.random() < 0.25:
        a = G.gen_atom(rnd, vs, kinds, lo)
        return ("not", a) if rnd.random() < 0.25 else a
    k = rnd.random()
    if k < 0.55:
        return ("and", gen_f2(rnd, vs, kinds, depth - 1, lo), gen_f2(rnd, vs, kinds, depth - 1, lo))
    # or_ between two conditions over the same variables
    sub = [v for v in vs if rnd.random() < 0.6] or [rnd.choice(vs)]
    def side():
        c = _same_var_cond(rnd, sub, kinds, depth - 1, lo)
        # atoms generated for `sub` may mention other variables through num_term; force closure by construction
        return c
    l, r = side(), side()
    if set(G.c_allvars(l)) != set(G.c_allvars(r)):
        # pad both sides with trivially-true atoms over the missing variables so that the sets coincide
        allv = sorted(set(G.c_allvars(l)) | set(G.c_allvars(r)))
        def pad(c):
            for v in allv:
                if v not in G.c_allvars(c):
                    t = ("var", v) if kinds[v] == "int" else ("attr", ("var", v), "a")
                    c = ("and", c, ("cmp", "eq", t, t))
            return c
        l, r = pad(l), pad(r)
    return ("or", l, r)


def generate(rng, tier, n):
    out = []
    while len(out) < n:
        falsy = rng.random() < 0.25
        nv = rng.choice([1, 2, 2, 3])
        vs = ["x", "y", "z"][:nv]
        kinds, objs, doms = G.gen_world(rng, vs, falsy=falsy)
        lo = 0 if falsy else 1
        cond = gen_f2(rng, vs, kinds, rng.randrange(0, 4), lo)
        used = []
        for v in G.c_allvars(cond):
            if v not in used:
                used.append(v)
        if not used:
            continue
        sel = [("var", v) for v in rng.sample(used, rng.randrange(1, len(used) + 1))]
        q = {"sel": sel, "cond": cond, "objs": objs, "doms": {n_: d for n_, d in doms.items() if n_ in used},
             "kinds": {n_: k for n_, k in kinds.items() if n_ in used}, "force_set_of": len(sel) > 1}
        tags = ["depth%d" % G.cond_depth(cond), "nsel%d" % len(sel), "falsy" if falsy else "truthy"] + sorted(set(G.cond_ops(cond)))
        if "truth" not in G.cond_ops(cond) and rng.random() < 0.25:
            # one attribute node object per distinct attribute expression, used as a comparison operand several times
            q["share_attr_nodes"] = True
            tags.append("shared-operand-nodes")
        out.append(Case(G.sx_query(q), tuple(tags), "random", q))
    return out


def revive(case: Case) -> Case:
    if case.payload is None:
        case.payload = G.parse_query(case.line)
    return case


def shrink(case: Case):
    for q in G.shrink_query(case.payload):
        if q["cond"] is None:
            continue
        yield Case(G.sx_query(q), case.tags, "shrink", q)


def nontrivial(case: Case, spec: str) -> bool:
    bag = spec.split(" | ")[0]
    if bag.startswith("exc:") or not bag:
        return False
    q = case.payload
    total = 1
    for v in G.query_vars(q):
        total *= len(q["doms"][v])
    return len(bag.split(") (")) < total


def _exc(e):
    from props.c01 import exc_name
    return exc_name(e)


def _first_shared_candidate(c):
    """the first `and` sub-condition that is a direct operand of an `or` or a `not`"""
    if c is None:
        return None
    k = c[0]
    if k == "or":
        for side in (c[1], c[2]):
            if side[0] == "and":
                return side
        return _first_shared_candidate(c[1]) or _first_shared_candidate(c[2])
    if k == "not":
        return c[1] if c[1][0] == "and" else _first_shared_candidate(c[1])
    if k == "and":
        return _first_shared_candidate(c[1]) or _first_shared_candidate(c[2])
    return None


def _one(case: Case) -> str:
    """the(...) is evaluated FIRST and an(...) afterwards, over the SAME variables whose domains are one-shot generators:
    a the() that raises MultipleSolutionFound leaves an abandoned evaluation behind, and the count seen by the following
    an() must still be the true number of solutions (C03_sequential_partial: sequential evaluations do not interfere)."""
    from krrood.entity_query_language.failures import NoSolutionFound, MultipleSolutionFound
    from krrood.entity_query_language.quantify_entity import the
    q = case.payload
    try:
        objs = G.make_objects(q)
        V = G.make_vars(q, objs, one_shot=True)
    except Exception as e:  # noqa: BLE001
        return f"{_exc(e)} | {_exc(e)}"
    memo = None
    if int(case.key()[:4], 16) % 3 == 0 and not q.get("share_attr_nodes"):
        # a compound sub-condition that is an operand of or_/not_ is stored in a Python variable, first used ALONE as
        # the condition of a conjunctive query (evaluated), and then re-used as that operand in the queries below
        sub = _first_shared_candidate(q["cond"])
        if sub is not None:
            memo = {}
            try:
                vs = []
                for v in G.c_allvars(sub):
                    if v not in vs:
                        vs.append(v)
                pre, _, _ = G.build_query({**q, "sel": [("var", v) for v in vs], "cond": sub, "force_set_of": len(vs) > 1},
                                          V, objs, cond_memo=memo)
                list(pre.evaluate())
            except Exception:  # noqa: BLE001
                pass
    try:
        query2, sel2, single2 = G.build_query(q, V, objs, cond_memo=None)
        t = the(query2._child_)
        r = t.evaluate()
        row = G.show_row((r,)) if single2 else G.show_row(tuple(r[k] for k in sel2))
        th = "value " + row
    except NoSolutionFound:
        th = "noSolution"
    except MultipleSolutionFound:
        th = "multipleSolutions"
    except Exception as e:  # noqa: BLE001
        th = _exc(e)
    try:
        query, sel, single = G.build_query(q, V, objs, cond_memo=memo)
        bag = " ".join(sorted(G.rows_of(query, sel, single)))
    except Exception as e:  # noqa: BLE001
        bag = _exc(e)
    return f"{bag} | {th}"


def run_impl(cases):
    return [_one(revive(c)) for c in cases]
