"""Shared by C13, C14, C20 (model M-SG): the harness's own Symbol class hierarchy and descriptor schema, the runner
that executes a history (case line) against the REAL krrood code, and the history generators.

History syntax (one S-expression per case, parsed by lean/KrroodVerif/Drive/SG.lean):
    (h <op> ...)            C13, C14            (loop n <op> ...)     C20
    (new o c)      create an instance labelled o of class index c; the harness keeps a reference
    (drop o)       the harness drops its reference, then gc.collect()
    (sweep)        SymbolGraph().remove_dead_instances()
    (clear)        SymbolGraph().clear(); SymbolGraph()
    (rel f s t)    PredicateClassRelation(s, t, <plain field f>).add_to_graph()
    (set f s t)    s.f = t  /  s.f.append(t)  /  s.f.add(t)   on the descriptor-managed field f
    (lrm f s t) (ldel f s t) (lpop f s t)   the item t the user put into the managed LIST field f of s leaves it by a plain
                   list operation MonitoredList does not hook: s.f.remove(t) / del s.f[i] / s.f.pop(i) (i = position of t);
                   no-op unless t is in the list
    (mkq k c)      q_k = an(entity(let(C, None)))        (mkqd k c o ...)  q_k = an(entity(let(C, [o, ...])))
    (evalq k)      list(q_k.evaluate())                   (dropq k)         drop q_k, gc.collect()
    (query c)      mkq + evalq + dropq on a fresh query object; (queryd c o ...) with an explicit domain
    (qstart k c)   it_k = iter(an(entity(x, x.label >= 0)).evaluate()) with x = let(C, None): a lazily consumed evaluation,
                   nothing runs yet          (qnext k)  one next(it_k): records the label yielded, `stop`, or `raised`
    (defclass c p) define, at this point of the history, a new dataclass Symbol subclass of class p; it gets class index c
    (defclassn c p n)  the same, but the class is called `Same<n>`: several distinct classes may share module and __name__
                   (nested / function-local / type()-created classes, a re-executed class statement)
    (churn o n c)  n instances of class c (labels o .. o+n-1), each created and discarded at once (no gc, no sweep in
                   between): CPython hands the id() of the discarded instance to the next one
    (relchurn o n c f t)  n instances of class c created back to back, each asserts field f towards instance t
                   (s.f = t / append / add, or a direct relation for the plain fields); all but the last are discarded
                   at once: the last one (kept) sits at a recycled address next to dead, unswept, related instances
    (fill o) (empty o)   a Bag (class 9, defines __len__) gets an item / loses its items: it is falsy when empty
    (attach r o)   root_r.knows.append(o): a plain list field (strong reference, unknown to the registry)
    (detach r)     root_r.knows.clear()
    (queryf c)     r = let(C, None); u = flatten(r.knows); list(an(entity(u, u.label >= 0)).evaluate())
    (queryfd c o ...)  the same with r = let(C, [o, ...]) and an(set_of([r, u], u.label >= 0))
    (loop n (pre <op> ...) <op> ...)   C20: the pre operations run once; labels 900..999 name the long-lived instances
                   they create (kept until the end of the loop, never shifted)
    (manage o g)   chair_o.manages = org_g (Manages < Employer: the super-property lives on the role taker, no inverse)
    (newholder o r)  Holder(o, item=<Rec r>)
    (clone o s how)  a new instance labelled o made from the live instance s by one of the creation paths the library /
                   Python offer: how = copy | deepcopy | pickle | dao (to_dao(s).from_dao()); for a Holder the item is shared
                   (copy) or re-created with label o+1 (the other paths)
    (adopt o s f)  C(o, f=<the container of field f of instance s>) for the class C of s (what dataclasses.replace does),
                   then the harness drops s; if s survives (the container stays shared) the observation is `skip`
    (qdrain k)     next(it_k) until it ends; after every consumed evaluation (qdrain, evalq, query) the wrappers of the
                   registry whose instance is dead are counted (C20: dead=<maximum seen>)
    (newrole o e)  Chair(o, emp=<instance e>): a Role[Emp] whose role taker is e     (head o g)  chair_o.head_of = org_g
    (qfail c)      the(entity(let(C, None))).evaluate() with the exception handled: an evaluation that ENDS ABNORMALLY
                   (MultipleSolutionFound / NoSolutionFound) unless exactly one instance of C is known
    (qabandon c)   it = iter(an(entity(x, x.label >= 0)).evaluate()) with x = let(C, None); one next(it); the iterator and
                   the query are dropped: an evaluation that is ABANDONED after its first result
                   (for the registry both are evaluations: they sweep when they start to run and pin nothing afterwards)
    (queryp c e)   x, y = let(C, None), let(C, None); list(an(set_of([x, y], P(x, y))).evaluate()) where P is a user-defined
                   `Predicate` subclass (e = 0), one flagged `is_expensive = True` (e = 1), or a `@symbolic_function` (e = 2)
                   over the labels of its two arguments      (querypd c e o ...)  the same with x, y = let(C, [o, ...])
    (queryr c s)   a RULE query with a conclusion: x = let(C, None); p = let(View, None) (s = 0) or the inferred variable
                   inference(View)() (s = 1); q = an(entity(p, x.label >= 0)); with q: Add(p, inference(Item)(a=x));
                   list(q.evaluate()), then everything (the Items the evaluation created included) is dropped
                   (for the registry all of these are evaluations over C: they sweep when they start to run; the predicate
                   instances / Items they create are temporaries of krrood's own and are not probed as dead wrappers)
Objects are only ever named by harness-assigned labels (never ids or reprs).

Class indices: 0 Thing, 1 Org(Thing), 2 Emp(Thing), 3 Mgr(Emp), 4 A(Thing), 5 B(A), 6 C(A), 7 D(B, C),
8 Chair(Role[Emp], Thing), 9 Bag(Thing) with __len__ (falsy when empty), 10 Rec(Symbol), 11 RecSub(Rec), 12 Holder(Symbol) (a module of their own
with an ORM interface generated by the current ORMatic); indices >= 20 are classes defined by the history itself.
Field indices: 0 Emp.works_for (WorksFor < MemberOf), 1 Emp.member_of (MemberOf <-> Member), 2 Org.members (Member),
3 Org.sub_of (SubOf, transitive), 4 Thing.knows, 5 Thing.likes (plain dataclass fields, direct relations only),
6 Chair.head_of, 7 Chair.manages, 8 Emp.employer, (9: no field: the model's plain strong reference), 10 Org.children
(ParentOf, a LIST whose inverse is the SCALAR) 11 Org.parent (ChildOf): `p.children.append(c)` infers `c.parent = p` and
overwrites the parent `c` had.
"""
from __future__ import annotations

import gc
import os
import sys
import weakref
from typing import Any, Dict, List, Optional, Tuple

N_CLASSES = 13
SUBS = {0: [1, 2, 4, 8, 9], 2: [3], 4: [5, 6], 5: [7], 6: [7], 10: [11]}
FIRST_DYNAMIC_CLASS = 20
# descriptor-managed fields are WRITTEN BY THE USER on instances of the declaring class and of its subclasses (Mgr < Emp).
# Until fix 0bfe625 krrood keyed the inferred inverse of a subclass instance by a different WrappedField (Mgr.member_of vs
# Emp.member_of), recorded the relation twice and appended the item twice (mgr.member_of == [org, org]) on a fresh graph
# (F-C14-3, repaired: the relation index is keyed by the descriptor's field in add_relation / relation_exists / remove_node).
EMP_LIKE = (2, 3)
EMP_TARGETS = (2, 3)
ORG_LIKE = (1,)
# index 9 is the model's "strong reference that is no relation" (Chair.emp, Holder.item, attach): no field of that name
FIELD_NAMES = ["works_for", "member_of", "members", "sub_of", "knows", "likes", "head_of", "manages", "employer",
               "<reference>", "children", "parent"]
FIELD_KIND = ["scalar", "list", "set", "list", "plain", "plain", "scalar", "scalar", "scalar", "plain", "list", "scalar"]
MANAGED_FIELDS = (0, 1, 2, 3, 6, 7, 8, 10, 11)
# container fields whose inference writes a SCALAR field (children -> parent of the item): the value it overwrites may
# become garbage (cyclic garbage as well), so the harness collects after the assignment as it does after a scalar one
OVERWRITING_CONTAINERS = (10,)


def below(c: int) -> List[int]:
    """[type_] + recursive_subclasses(type_) as a set (used by the generators only)"""
    out, todo = [], [c]
    while todo:
        x = todo.pop()
        if x not in out:
            out.append(x)
            todo.extend(SUBS.get(x, []))
    return out


# ------------------------------------------------------------------------------------------------ S-expressions

def parse(line: str):
    toks = line.replace("(", " ( ").replace(")", " ) ").split()

    def rd(i):
        if toks[i] == "(":
            out = []
            i += 1
            while toks[i] != ")":
                x, i = rd(i)
                out.append(x)
            return out, i + 1
        return toks[i], i + 1

    return rd(0)[0]


def show(ops) -> str:
    def one(x):
        return "(" + " ".join(one(y) for y in x) + ")" if isinstance(x, (list, tuple)) else str(x)

    return " ".join(one(op) for op in ops)


# ------------------------------------------------------------------------------------------------ real code side

_SCHEMA = None

RECORDS_MODULE = "krrood_verif_sg_records"
ORM_MODULE = "krrood_verif_sg_orm"
RECORDS_SOURCE = '''from __future__ import annotations
from dataclasses import dataclass
from krrood.entity_query_language.predicate import Symbol


@dataclass(eq=False)
class Rec(Symbol):
    label: int
    value: float = 0.0


@dataclass(eq=False)
class RecSub(Rec):
    extra: int = 0


@dataclass(eq=False)
class Holder(Symbol):
    label: int
    item: Rec = None
'''
_GEN_ORM = '''import sys, warnings
warnings.filterwarnings("ignore")
sys.path.insert(0, sys.argv[1]); sys.path.insert(0, sys.argv[2])
from krrood.class_diagrams.class_diagram import ClassDiagram
from krrood.entity_query_language.predicate import Symbol
from krrood.ormatic.ormatic import ORMatic
import krrood_verif_sg_records as m
classes = [m.Rec, m.RecSub, m.Holder, Symbol]
o = ORMatic(class_dependency_graph=ClassDiagram(sorted(classes, key=lambda c: c.__name__, reverse=True)))
o.make_all_tables()
with open(sys.argv[2] + "/krrood_verif_sg_orm.py", "w") as f:
    o.to_sqlalchemy_file(f)
'''
_DIR_ENV = "KRROOD_VERIF_SG_DIR"


def records_dir(with_orm: bool = False) -> str:
    """A temp directory (outside /repo and /verif, removed at exit by the process that made it) with the module of the
    DAO-able Symbol classes and - on demand - their ORM interface, generated by the CURRENT ORMatic in a fresh
    interpreter. Worker processes inherit the directory through the environment."""
    import atexit
    import shutil
    import subprocess
    import tempfile

    d = os.environ.get(_DIR_ENV)
    if not d or not os.path.isdir(d):
        d = tempfile.mkdtemp(prefix="krrood_verif_sg_")
        atexit.register(shutil.rmtree, d, True)
        with open(os.path.join(d, RECORDS_MODULE + ".py"), "w") as f:
            f.write(RECORDS_SOURCE)
        os.environ[_DIR_ENV] = d
    if with_orm and not os.path.exists(os.path.join(d, ORM_MODULE + ".py")):
        from core import REPO
        try:
            subprocess.run([sys.executable, "-c", _GEN_ORM, str(REPO / "src"), d], capture_output=True, timeout=300,
                           cwd=d)
        except Exception:
            pass
    return d


def _records_module():
    import importlib
    d = records_dir()
    if d not in sys.path:
        sys.path.insert(0, d)
    return importlib.import_module(RECORDS_MODULE)


_ORM = {}


def orm_ready() -> bool:
    """import the generated ORM interface once per process (False when the current ORMatic could not generate it)"""
    if "ok" not in _ORM:
        try:
            import importlib
            d = records_dir(with_orm=True)
            if d not in sys.path:
                sys.path.insert(0, d)
            importlib.import_module(ORM_MODULE)
            from sqlalchemy.orm import configure_mappers
            configure_mappers()
            _ORM["ok"] = True
        except Exception:
            _ORM["ok"] = False
    return _ORM["ok"]


def schema():
    """Define the harness's Symbol classes and descriptors once per process (after krrood is importable)."""
    global _SCHEMA
    if _SCHEMA is not None:
        return _SCHEMA
    from dataclasses import dataclass, field, fields
    from typing_extensions import List as TList, Set as TSet, Optional as TOptional

    from krrood.entity_query_language.predicate import Symbol
    from krrood.class_diagrams.class_diagram import WrappedClass
    from krrood.class_diagrams.wrapped_field import WrappedField
    from krrood.ontomatic.property_descriptor.mixins import HasInverseProperty, TransitiveProperty
    from krrood.ontomatic.property_descriptor.property_descriptor import PropertyDescriptor

    ns: Dict[str, Any] = {}
    src = '''
from __future__ import annotations
from dataclasses import dataclass, field
from typing_extensions import List, Set, Optional, Type

@dataclass(eq=False)
class Thing(Symbol):
    label: int
    knows: List[Thing] = field(default_factory=list)
    likes: List[Thing] = field(default_factory=list)

@dataclass(eq=False)
class Org(Thing):
    members: Set[Emp] = field(default_factory=set)
    sub_of: List[Org] = field(default_factory=list)
    children: List[Org] = field(default_factory=list)
    parent: Optional[Org] = None

@dataclass(eq=False)
class Emp(Thing):
    works_for: Optional[Org] = None
    member_of: List[Org] = field(default_factory=list)
    employer: Optional[Org] = None

@dataclass(eq=False)
class Mgr(Emp):
    pass

@dataclass(eq=False)
class A(Thing):
    pass

@dataclass(eq=False)
class B(A):
    pass

@dataclass(eq=False)
class C(A):
    pass

@dataclass(eq=False)
class D(B, C):
    pass

@dataclass(eq=False)
class Chair(Role[Emp], Thing):
    emp: Emp = field(kw_only=True)
    head_of: Org = None
    manages: Org = None

    # Role is a dataclass with value equality (hence unhashable); instances are compared by identity here
    def __eq__(self, other):
        return self is other

    def __hash__(self):
        return id(self)

@dataclass(eq=False)
class Bag(Thing):
    stuff: List[int] = field(default_factory=list)

    # a container-like Symbol: falsy while it is empty
    def __len__(self):
        return len(self.stuff)

@dataclass
class Member(PropertyDescriptor, HasInverseProperty):
    @classmethod
    def get_inverse(cls):
        return MemberOf

@dataclass
class MemberOf(PropertyDescriptor, HasInverseProperty):
    @classmethod
    def get_inverse(cls):
        return Member

@dataclass
class WorksFor(MemberOf):
    pass

@dataclass
class HeadOf(WorksFor):
    pass

@dataclass
class Employer(PropertyDescriptor):
    pass

@dataclass
class Manages(Employer):
    pass

@dataclass
class SubOf(PropertyDescriptor, TransitiveProperty):
    pass

@dataclass
class ParentOf(PropertyDescriptor, HasInverseProperty):
    @classmethod
    def get_inverse(cls):
        return ChildOf

@dataclass
class ChildOf(PropertyDescriptor, HasInverseProperty):
    @classmethod
    def get_inverse(cls):
        return ParentOf

Org.children = ParentOf(Org, "children")
Org.parent = ChildOf(Org, "parent")
Emp.works_for = WorksFor(Emp, "works_for")
Emp.member_of = MemberOf(Emp, "member_of")
Org.members = Member(Org, "members")
Org.sub_of = SubOf(Org, "sub_of")
Chair.head_of = HeadOf(Chair, "head_of")
Emp.employer = Employer(Emp, "employer")
Chair.manages = Manages(Chair, "manages")
'''
    # the classes live in a real module so that typing.get_type_hints can resolve the forward references
    import types

    mod = types.ModuleType("krrood_verif_sg_schema")
    from krrood.class_diagrams.utils import Role

    mod.__dict__.update(Symbol=Symbol, PropertyDescriptor=PropertyDescriptor, HasInverseProperty=HasInverseProperty,
                        TransitiveProperty=TransitiveProperty, Role=Role)
    sys.modules["krrood_verif_sg_schema"] = mod
    exec(compile(src, "krrood_verif_sg_schema", "exec"), mod.__dict__)
    rec = _records_module()
    classes = [mod.Thing, mod.Org, mod.Emp, mod.Mgr, mod.A, mod.B, mod.C, mod.D, mod.Chair, mod.Bag,
               rec.Rec, rec.RecSub, rec.Holder]
    plain = {}
    for fid in (4, 5):
        f = [x for x in fields(mod.Thing) if x.name == FIELD_NAMES[fid]][0]
        plain[fid] = WrappedField(WrappedClass(mod.Thing), f)
    _SCHEMA = {"classes": classes, "plain": plain, "mod": mod}
    return _SCHEMA


_EXTRAS = None

EXTRAS_SOURCE = '''
from __future__ import annotations
from dataclasses import dataclass
from typing_extensions import ClassVar, Any

@dataclass(eq=False)
class Near(Predicate):
    """an ordinary user-defined predicate"""
    left: Any
    right: Any

    def __call__(self) -> bool:
        return abs(self.left.label - self.right.label) <= 1

@dataclass(eq=False)
class NearCostly(Predicate):
    """a user-defined predicate its author flags as costly"""
    is_expensive: ClassVar[bool] = True
    left: Any
    right: Any

    def __call__(self) -> bool:
        return abs(self.left.label - self.right.label) <= 1

@symbolic_function
def near(left, right) -> bool:
    return abs(left.label - right.label) <= 1

@dataclass(eq=False)
class View(Symbol):
    pass

@dataclass(eq=False)
class Item(View):
    a: Any = None
'''


def extras():
    """user-defined predicates (plain / flagged expensive / a symbolic function) and the classes a rule query infers; defined
    on first use, once per process"""
    global _EXTRAS
    if _EXTRAS is None:
        import types
        from krrood.entity_query_language.predicate import Symbol, Predicate, symbolic_function
        mod = types.ModuleType("krrood_verif_sg_extras")
        mod.__dict__.update(Symbol=Symbol, Predicate=Predicate, symbolic_function=symbolic_function)
        sys.modules["krrood_verif_sg_extras"] = mod
        exec(compile(EXTRAS_SOURCE, "krrood_verif_sg_extras", "exec"), mod.__dict__)
        _EXTRAS = mod
    return _EXTRAS


def _structure_sizes():
    """sizes of the krrood-held structures the properties name (absent structure = size 0)"""
    from krrood.entity_query_language.symbol_graph import SymbolGraph
    from krrood.entity_query_language.symbolic import SymbolicExpression
    from krrood.entity_query_language.rxnode import RWXNode

    sg = SymbolGraph()
    nodes = len(sg.wrapped_instances)
    ctw = getattr(sg, "_class_to_wrapped_instances", {})
    cls = sum(len(v) for v in ctw.values())
    edges = sum(1 for _ in sg.relations())
    ri = getattr(sg, "_relation_index", {})
    rel = sum(len(v) for v in ri.values())
    graph = getattr(sg, "_instance_graph", None)
    rel_stale = False
    if graph is not None and ri:
        have = set()
        for (i, j, e) in graph.weighted_edge_list():
            have.add((e.wrapped_field, i, j))
        for f, pairs in ri.items():
            for (i, j) in pairs:
                if (f, i, j) not in have:
                    rel_stale = True
    ii = getattr(sg, "_instance_index", {})
    inst_stale = any(w.instance is None for w in ii.values())
    expr = len(getattr(SymbolicExpression, "_id_expression_map_", {}))
    g = getattr(RWXNode, "_graph", None)
    rx = g.num_nodes() if g is not None else 0
    return dict(nodes=nodes, cls=cls, edges=edges, rel=rel, rel_stale=rel_stale, inst_stale=inst_stale, expr=expr, rx=rx)


def reset_process_state():
    """between cases: a new SymbolGraph, an empty expression table, an empty expression graph"""
    from krrood.entity_query_language.symbol_graph import SymbolGraph
    from krrood.entity_query_language.symbolic import SymbolicExpression
    from krrood.entity_query_language import rxnode
    import rustworkx as rx

    SymbolGraph().clear()
    try:
        SymbolicExpression._id_expression_map_.clear()
        SymbolicExpression._symbolic_expression_stack_.clear()
        rxnode.RWXNode._graph = rx.PyDAG()
        todo = [SymbolicExpression]
        seen = set()
        while todo:
            c = todo.pop()
            if c in seen:
                continue
            seen.add(c)
            todo.extend(c.__subclasses__())
            for v in vars(c).values():
                cc = getattr(v, "cache_clear", None)
                if cc is not None:
                    try:
                        cc()
                    except Exception:
                        pass
    except Exception:
        pass
    # lru_cache'd methods keep every ClassDiagram (one per SymbolGraph) they were called on: without this the
    # worker's heap, and with it every gc.collect(), grows with the number of cases
    try:
        from krrood.class_diagrams.class_diagram import ClassDiagram
        from krrood.ontomatic.property_descriptor.property_descriptor import PropertyDescriptor

        todo = [ClassDiagram, PropertyDescriptor]
        seen = set()
        while todo:
            c = todo.pop()
            if c in seen:
                continue
            seen.add(c)
            todo.extend(c.__subclasses__())
            for v in list(vars(c).values()):
                v = getattr(v, "__func__", v)
                cc = getattr(v, "cache_clear", None)
                if cc is not None:
                    try:
                        cc()
                    except Exception:
                        pass
    except Exception:
        pass
    gc.collect()
    SymbolGraph()


class Runner:
    """Executes operations on the real code; keeps the harness's own census (weak references by label)."""

    def __init__(self):
        self.S = schema()
        self.objs: Dict[int, Any] = {}
        self.wrefs: Dict[int, weakref.ref] = {}
        self.cls_of: Dict[int, int] = {}
        self.qs: Dict[int, Any] = {}
        self.qinfo: Dict[int, Tuple[int, bool]] = {}
        self.epoch: set = set()
        self.outs: List[Tuple[List[Any], List[int]]] = []
        self.raised: Optional[str] = None
        self.auto = 0
        # stepwise evaluations: key -> dict(it, q, cls, started, expected, yielded, status)
        self.iters: Dict[int, Dict[str, Any]] = {}
        self.aliased = False
        self.dead_seen = 0
        # class index -> class; the classes a history defines itself live only as long as the runner
        self.classes: Dict[int, Any] = dict(enumerate(self.S["classes"]))

    # -- helpers (every temporary strong reference dies when the helper returns)
    def _alive(self, o: int) -> bool:
        r = self.wrefs.get(o)
        return r is not None and r() is not None

    def op_new(self, o: int, c: int):
        if o in self.wrefs:
            return
        x = self.classes[c](o)
        self.objs[o] = x
        self.wrefs[o] = weakref.ref(x)
        self.cls_of[o] = c
        self.epoch.add(o)

    def op_defclass(self, c: int, parent: int, name: Optional[str] = None):
        from dataclasses import dataclass
        if c in self.classes:
            return
        base = self.classes[parent]
        new = type(name or f"Dyn{c}", (base,), {"__module__": base.__module__})
        self.classes[c] = dataclass(eq=False)(new)

    def op_churn(self, o: int, n: int, c: int):
        cls = self.classes[c]
        wrefs, cls_of, epoch, ref = self.wrefs, self.cls_of, self.epoch, weakref.ref
        for i in range(n):
            x = cls(o + i)
            wrefs[o + i] = ref(x)
            cls_of[o + i] = c
            epoch.add(o + i)
            del x

    def op_relchurn(self, o: int, n: int, c: int, f: int, t: int):
        from krrood.entity_query_language.symbol_graph import PredicateClassRelation
        if not self._alive(t):
            return
        cls, tgt = self.classes[c], self.wrefs[t]()
        wrefs, cls_of, epoch, ref = self.wrefs, self.cls_of, self.epoch, weakref.ref
        kind, name = FIELD_KIND[f], FIELD_NAMES[f]
        epoch.add(t)
        for i in range(n):
            x = cls(o + i)
            wrefs[o + i] = ref(x)
            cls_of[o + i] = c
            epoch.add(o + i)
            if kind == "plain":
                PredicateClassRelation(x, tgt, self.S["plain"][f]).add_to_graph()
            elif kind == "scalar":
                setattr(x, name, tgt)
            elif kind == "list":
                getattr(x, name).append(tgt)
            else:
                getattr(x, name).add(tgt)
            if i + 1 == n:
                self.objs[o + i] = x
            del x
        del tgt

    def op_fill(self, o: int):
        if self._alive(o) and hasattr(self.wrefs[o](), "stuff"):
            self.wrefs[o]().stuff.append(1)

    def op_empty(self, o: int):
        if self._alive(o) and hasattr(self.wrefs[o](), "stuff"):
            self.wrefs[o]().stuff.clear()

    def op_attach(self, r: int, o: int):
        if self._alive(r) and self._alive(o):
            self.wrefs[r]().knows.append(self.wrefs[o]())

    def op_detach(self, r: int):
        if self._alive(r):
            self.wrefs[r]().knows.clear()

    def op_queryf(self, c: int, dom: Optional[List[int]]):
        from krrood.entity_query_language.entity import entity, let, flatten, set_of
        from krrood.entity_query_language.quantify_entity import an
        cls = self.classes[c]
        if dom is None:
            r = let(cls, None)
            u = flatten(r.knows)
            res = list(an(entity(u, u.label >= 0)).evaluate())
        else:
            d = [self.wrefs[o]() for o in dom if self._alive(o)]
            r = let(cls, d)
            u = flatten(r.knows)
            res = [(row[r], row[u]) for row in an(set_of([r, u], u.label >= 0)).evaluate()]
            del d
        del res, r, u
        gc.collect()
        self.op_probe()

    def op_queryp(self, c: int, e: int, dom: Optional[List[int]]):
        from krrood.entity_query_language.entity import let, set_of
        from krrood.entity_query_language.quantify_entity import an
        X = extras()
        pred = (X.Near, X.NearCostly, X.near)[e]
        cls = self.classes[c]
        d = None if dom is None else [self.wrefs[o]() for o in dom if self._alive(o)]
        x = let(cls, d)
        y = let(cls, None if d is None else list(d))
        q = an(set_of([x, y], pred(x, y)))
        res = list(q.evaluate())
        del res, q, x, y, d
        gc.collect()

    def op_queryr(self, c: int, s: int):
        from krrood.entity_query_language.entity import entity, let, inference
        from krrood.entity_query_language.quantify_entity import an
        from krrood.entity_query_language.conclusion import Add
        X = extras()
        x = let(self.classes[c], None)
        p = inference(X.View)() if s else let(X.View, None)
        q = an(entity(p, x.label >= 0))
        with q:
            Add(p, inference(X.Item)(a=x))
        res = list(q.evaluate())
        del res, q, x, p
        gc.collect()

    def op_manage(self, o: int, g: int):
        if not (self._alive(o) and self._alive(g)):
            return
        a, b = self.wrefs[o](), self.wrefs[g]()
        self._wrapped_by_role_assertion(o, g, a)
        a.manages = b
        del a, b
        gc.collect()

    def _wrapped_by_role_assertion(self, o: int, g: int, role):
        # own census: the assertion wraps the role and the organisation, its inference through the super-property on
        # the role taker wraps the role taker (matters after clear(), when live instances are unknown to the registry)
        self.epoch.add(o)
        self.epoch.add(g)
        taker = getattr(role, "emp", None)
        if taker is not None:
            self.epoch.add(taker.label)

    def op_newholder(self, o: int, r: int):
        if o in self.wrefs or not self._alive(r):
            return
        x = self.classes[12](o, self.wrefs[r]())
        self.objs[o] = x
        self.wrefs[o] = weakref.ref(x)
        self.cls_of[o] = 12
        self.epoch.add(o)

    def op_clone(self, o: int, s: int, how: str):
        import copy
        import pickle
        if o in self.wrefs or not self._alive(s):
            return
        src = self.wrefs[s]()
        if how == "copy":
            x = copy.copy(src)
        elif how == "deepcopy":
            x = copy.deepcopy(src)
        elif how == "pickle":
            x = pickle.loads(pickle.dumps(src))
        elif how == "dao":
            if not orm_ready():
                raise RuntimeError("no ORM interface")
            from krrood.ormatic.dao import to_dao
            x = to_dao(src).from_dao()
        else:
            raise ValueError(how)
        c = self.cls_of[s]
        x.label = o
        self.objs[o] = x
        self.wrefs[o] = weakref.ref(x)
        self.cls_of[o] = c
        self.epoch.add(o)
        if c == 12 and how != "copy" and x.item is not None:
            x.item.label = o + 1
            self.wrefs[o + 1] = weakref.ref(x.item)
            self.cls_of[o + 1] = 11 if type(x.item).__name__ == "RecSub" else 10
            self.epoch.add(o + 1)
        del x, src

    def op_adopt(self, o: int, s: int, f: int):
        if o in self.wrefs or not self._alive(s):
            return
        old = self.wrefs[s]()
        c = self.cls_of[s]
        # own census: the setter asserts every item for the new owner, which wraps the items (matters after clear())
        self.epoch.update(i.label for i in getattr(old, FIELD_NAMES[f]))
        x = self.classes[c](o, **{FIELD_NAMES[f]: getattr(old, FIELD_NAMES[f])})
        self.objs[o] = x
        self.wrefs[o] = weakref.ref(x)
        self.cls_of[o] = c
        self.epoch.add(o)
        self.objs.pop(s, None)
        del old, x
        gc.collect()
        if self._alive(s):
            self.aliased = True

    def op_qdrain(self, k: int):
        st = self.iters.get(k)
        bound = 10000
        # an evaluation that was suspended (qnext) before it is drained may legitimately leave wrappers of instances behind
        # that died while it was suspended (until the next sweep): the dead wrappers are counted only when the drain runs
        # the evaluation from its start
        fresh = st is not None and not st["started"]
        while st is not None and st["status"] == "open" and bound:
            self.op_qnext(k)
            bound -= 1
        if fresh:
            self.op_probe()

    def op_probe(self):
        from krrood.entity_query_language.symbol_graph import SymbolGraph
        dead = sum(1 for w in SymbolGraph().wrapped_instances if w.instance is None)
        self.dead_seen = max(self.dead_seen, dead)

    def op_newrole(self, o: int, e: int):
        if o in self.wrefs or not self._alive(e):
            return
        x = self.classes[8](o, emp=self.wrefs[e]())
        self.objs[o] = x
        self.wrefs[o] = weakref.ref(x)
        self.cls_of[o] = 8
        self.epoch.add(o)

    def op_head(self, o: int, g: int):
        if not (self._alive(o) and self._alive(g)):
            return
        a, b = self.wrefs[o](), self.wrefs[g]()
        self._wrapped_by_role_assertion(o, g, a)
        a.head_of = b
        del a, b
        gc.collect()

    def op_drop(self, o: int):
        self.objs.pop(o, None)
        gc.collect()

    def op_sweep(self):
        from krrood.entity_query_language.symbol_graph import SymbolGraph
        SymbolGraph().remove_dead_instances()

    def op_clear(self):
        from krrood.entity_query_language.symbol_graph import SymbolGraph
        SymbolGraph().clear()
        SymbolGraph()
        self.epoch = set()

    def op_rel(self, f: int, s: int, t: int):
        from krrood.entity_query_language.symbol_graph import PredicateClassRelation
        if not (self._alive(s) and self._alive(t)):
            return
        a, b = self.wrefs[s](), self.wrefs[t]()
        self.epoch.add(s)
        self.epoch.add(t)
        PredicateClassRelation(a, b, self.S["plain"][f]).add_to_graph()

    def op_set(self, f: int, s: int, t: int):
        if not (self._alive(s) and self._alive(t)):
            return
        a, b = self.wrefs[s](), self.wrefs[t]()
        self.epoch.add(s)
        self.epoch.add(t)
        kind = FIELD_KIND[f]
        if kind == "scalar":
            setattr(a, FIELD_NAMES[f], b)
            del a, b
            gc.collect()  # the overwritten value may have become (cyclic) garbage
        elif kind == "list":
            getattr(a, FIELD_NAMES[f]).append(b)
        else:
            getattr(a, FIELD_NAMES[f]).add(b)
        if f in OVERWRITING_CONTAINERS:
            del a, b
            gc.collect()  # the inferred scalar inverse overwrote a value, which may have become (cyclic) garbage

    def op_unlist(self, how: str, f: int, s: int, t: int):
        """the item t the user put into the managed LIST field f of s leaves it by one of the list operations MonitoredList
        inherits unchanged from `list` (lrm: remove(t) / ldel: del lst[i] / lpop: pop(i), i the position of the first
        occurrence of t): the container is not told, the relation stays in the graph. (An item put there by inference is also
        held by the container's `_inferred_items`: it stays alive as long as the owner does.)"""
        if FIELD_KIND[f] != "list" or not (self._alive(s) and self._alive(t)):
            return
        a, b = self.wrefs[s](), self.wrefs[t]()
        lst = getattr(a, FIELD_NAMES[f], None)
        pos = [i for i, x in enumerate(lst)] if lst is not None else []
        pos = [i for i in pos if lst[i] is b]
        if pos:
            if how == "lrm":
                list.remove(lst, b)
            elif how == "ldel":
                del lst[pos[0]]
            else:
                lst.pop(pos[0])
        del a, b, lst
        gc.collect()  # the item that left may have become (cyclic) garbage

    def op_mkq(self, k: int, c: int, dom: Optional[List[int]]):
        from krrood.entity_query_language.entity import entity, let
        from krrood.entity_query_language.quantify_entity import an
        if k in self.qinfo:
            return
        cls = self.classes[c]
        if dom is None:
            self.qs[k] = an(entity(let(cls, None)))
        else:
            d = [self.wrefs[o]() for o in dom if self._alive(o)]
            self.qs[k] = an(entity(let(cls, d)))
        self.qinfo[k] = (c, dom is not None)

    def op_evalq(self, k: int):
        q = self.qs.get(k)
        if q is None:
            return
        c, explicit = self.qinfo[k]
        res = list(q.evaluate())
        labels = [(x.label if x is not None else "none") for x in res]
        if explicit:
            exp = sorted(set(l for l in labels if l != "none"))
        else:
            cls = self.classes[c]
            exp = []
            for l in sorted(self.epoch):
                x = self.wrefs[l]()
                if x is not None and isinstance(x, cls):
                    exp.append(l)
                del x
        self.outs.append((labels, exp))
        del res
        gc.collect()
        self.op_probe()

    def op_qstart(self, k: int, c: int):
        from krrood.entity_query_language.entity import entity, let
        from krrood.entity_query_language.quantify_entity import an
        if k in self.iters:
            return
        x = let(self.classes[c], None)
        q = an(entity(x, x.label >= 0))  # a condition makes the variable lazily consumed
        self.iters[k] = dict(q=q, it=iter(q.evaluate()), cls=c, started=False, expected=[], yielded=[], status="open")

    def _census_of(self, c: int) -> List[int]:
        cls = self.classes[c]
        exp = []
        for l in sorted(self.epoch):
            x = self.wrefs[l]()
            if x is not None and isinstance(x, cls):
                exp.append(l)
            del x
        return exp

    def op_qnext(self, k: int):
        st = self.iters.get(k)
        if st is None or st["status"] != "open":
            return
        if not st["started"]:
            st["started"] = True
            st["expected"] = self._census_of(st["cls"])
        try:
            r = next(st["it"])
            st["yielded"].append(r.label if r is not None else "none")
            del r
        except StopIteration:
            st["status"] = "stop"
        except Exception as e:  # noqa: BLE001
            st["status"] = "raised"
            e.__traceback__ = None
            del e
        gc.collect()

    def op_dropq(self, k: int):
        self.qs.pop(k, None)
        gc.collect()

    def op_qfail(self, c: int):
        """`the(...)` over a class with zero or several known instances: the evaluation raises, the caller handles it"""
        from krrood.entity_query_language.entity import entity, let
        from krrood.entity_query_language.quantify_entity import the
        try:
            r = the(entity(let(self.classes[c], None))).evaluate()
            del r
        except Exception as e:  # noqa: BLE001
            e.__traceback__ = None
            del e
        gc.collect()

    def op_qabandon(self, c: int):
        """a lazily consumed evaluation that is dropped after its first result"""
        from krrood.entity_query_language.entity import entity, let
        from krrood.entity_query_language.quantify_entity import an
        x = let(self.classes[c], None)
        q = an(entity(x, x.label >= 0))
        it = iter(q.evaluate())
        try:
            r = next(it)
            del r
        except StopIteration:
            pass
        except Exception as e:  # noqa: BLE001
            e.__traceback__ = None
            del e
        del it, q, x
        gc.collect()

    def run_op(self, op) -> None:
        name = op[0]
        if name == "new":
            self.op_new(int(op[1]), int(op[2]))
        elif name == "drop":
            self.op_drop(int(op[1]))
        elif name == "defclass":
            self.op_defclass(int(op[1]), int(op[2]))
        elif name == "defclassn":
            self.op_defclass(int(op[1]), int(op[2]), f"Same{op[3]}")
        elif name == "churn":
            self.op_churn(int(op[1]), int(op[2]), int(op[3]))
        elif name == "relchurn":
            self.op_relchurn(int(op[1]), int(op[2]), int(op[3]), int(op[4]), int(op[5]))
        elif name == "fill":
            self.op_fill(int(op[1]))
        elif name == "empty":
            self.op_empty(int(op[1]))
        elif name == "attach":
            self.op_attach(int(op[1]), int(op[2]))
        elif name == "detach":
            self.op_detach(int(op[1]))
        elif name == "queryf":
            self.op_queryf(int(op[1]), None)
        elif name == "queryfd":
            self.op_queryf(int(op[1]), [int(x) for x in op[2:]])
        elif name == "queryp":
            self.op_queryp(int(op[1]), int(op[2]), None)
        elif name == "querypd":
            self.op_queryp(int(op[1]), int(op[2]), [int(x) for x in op[3:]])
        elif name == "queryr":
            self.op_queryr(int(op[1]), int(op[2]))
        elif name == "manage":
            self.op_manage(int(op[1]), int(op[2]))
        elif name == "newholder":
            self.op_newholder(int(op[1]), int(op[2]))
        elif name == "clone":
            self.op_clone(int(op[1]), int(op[2]), op[3])
        elif name == "adopt":
            self.op_adopt(int(op[1]), int(op[2]), int(op[3]))
        elif name == "qdrain":
            self.op_qdrain(int(op[1]))
        elif name == "newrole":
            self.op_newrole(int(op[1]), int(op[2]))
        elif name == "head":
            self.op_head(int(op[1]), int(op[2]))
        elif name == "sweep":
            self.op_sweep()
        elif name == "clear":
            self.op_clear()
        elif name == "rel":
            self.op_rel(int(op[1]), int(op[2]), int(op[3]))
        elif name == "set":
            self.op_set(int(op[1]), int(op[2]), int(op[3]))
        elif name in ("lrm", "ldel", "lpop"):
            self.op_unlist(name, int(op[1]), int(op[2]), int(op[3]))
        elif name == "mkq":
            self.op_mkq(int(op[1]), int(op[2]), None)
        elif name == "mkqd":
            self.op_mkq(int(op[1]), int(op[2]), [int(x) for x in op[3:]])
        elif name == "evalq":
            self.op_evalq(int(op[1]))
        elif name == "dropq":
            self.op_dropq(int(op[1]))
        elif name == "qstart":
            self.op_qstart(int(op[1]), int(op[2]))
        elif name == "qnext":
            self.op_qnext(int(op[1]))
        elif name == "qfail":
            self.op_qfail(int(op[1]))
        elif name == "qabandon":
            self.op_qabandon(int(op[1]))
        elif name in ("query", "queryd"):
            self.auto += 1
            k = 10 ** 9 + self.auto
            self.op_mkq(k, int(op[1]), None if name == "query" else [int(x) for x in op[2:]])
            self.op_evalq(k)
            self.op_dropq(k)
            self.qinfo.pop(k, None)
        else:
            raise ValueError(f"unknown op {op}")

    def run_ops(self, ops, shift: int = 0) -> None:
        """stops at the first operation that raises (the model does the same)"""
        for op in ops:
            if self.raised is not None:
                return
            if shift:
                op = shift_op(op, shift)
            try:
                self.run_op(op)
            except Exception as e:  # noqa: BLE001
                self.raised = type(e).__name__
                e.__traceback__ = None
                del e
        gc.collect()

    # -- observations
    def obs_census(self) -> str:
        diffs = []
        for i, (labels, exp) in enumerate(self.outs):
            nums = [l for l in labels if l != "none"]
            missing = [l for l in exp if l not in nums]
            extra = sorted(set(l for l in nums if l not in exp))
            extra = [str(x) for x in extra] + (["none"] if "none" in labels else [])
            dup = sorted(set(l for l in nums if nums.count(l) > 1))
            if missing or extra or dup:
                diffs.append(f"q{i}:missing={fmt(missing)},extra=[{','.join(extra)}],dup={fmt(dup)}")
        parts = [fmt(sorted(l for l in labels if l != "none")) for labels, _ in self.outs]
        for i, (k, st) in enumerate(self.iters.items()):
            nums = [l for l in st["yielded"] if l != "none"]
            missing = []
            if st["status"] == "stop":
                missing = [l for l in st["expected"] if self._alive(l) and l not in nums]
            extra = [str(x) for x in sorted(set(l for l in nums if l not in st["expected"]))]
            extra += ["none"] if "none" in st["yielded"] else []
            dup = sorted(set(l for l in nums if nums.count(l) > 1))
            if missing or extra or dup or st["status"] == "raised":
                diffs.append(f"s{i}:missing={fmt(missing)},extra=[{','.join(extra)}],dup={fmt(dup)}"
                             + (",raised" if st["status"] == "raised" else ""))
            parts.append(f"it{k}={fmt(sorted(nums))}/{st['status']}")
        a = "ok" if not diffs else ";".join(diffs)
        return a + "|" + ";".join(parts)

    def obs_relations(self) -> str:
        from krrood.entity_query_language.symbol_graph import SymbolGraph
        if self.raised is not None:
            return "exc"
        if self.aliased:
            return "skip"
        rels = []
        for r in SymbolGraph().relations():
            s, t = r.source.instance, r.target.instance
            if s is None or t is None:
                continue
            name = getattr(r.wrapped_field, "public_name", None) or r.wrapped_field.name
            rels.append((FIELD_NAMES.index(name), s.label, t.label))
            del s, t
        flds = []
        for l in sorted(self.wrefs):
            x = self.wrefs[l]()
            if x is None:
                continue
            for fid in MANAGED_FIELDS:
                if not hasattr(x, FIELD_NAMES[fid]):
                    continue
                v = getattr(x, FIELD_NAMES[fid])
                items = [] if v is None else (list(v) if FIELD_KIND[fid] != "scalar" else [v])
                for it in items:
                    if isinstance(it, weakref.ref):
                        it = it()
                    flds.append((l, fid, it.label if it is not None else -1))
            del x
        rels.sort()
        flds.sort()
        return ("rels=[" + ",".join(f"{a}:{b}>{c}" for a, b, c in rels) + "] fields=["
                + ",".join(f"{a}.{b}={c}" for a, b, c in flds) + "]")


def fmt(xs) -> str:
    return "[" + ",".join(str(x) for x in xs) + "]"


def _sh(l, d: int) -> int:
    """labels 900..999 name the long-lived instances of a C20 loop: they are not shifted"""
    l = int(l)
    return l if 900 <= l < 1000 else l + d


def shift_op(op, d: int):
    n = op[0]
    if n == "new":
        return [n, _sh(op[1], d), op[2]]
    if n in ("drop", "fill", "empty", "detach"):
        return [n, _sh(op[1], d)]
    if n in ("evalq", "dropq", "qnext", "qdrain"):
        return [n, int(op[1]) + d]
    if n == "adopt":
        return [n, _sh(op[1], d), _sh(op[2], d), op[3]]
    if n == "qstart":
        return [n, int(op[1]) + d, op[2]]
    if n in ("rel", "set", "lrm", "ldel", "lpop"):
        return [n, op[1], _sh(op[2], d), _sh(op[3], d)]
    if n == "mkq":
        return [n, int(op[1]) + d, op[2]]
    if n == "churn":
        return [n, _sh(op[1], d), op[2], op[3]]
    if n == "relchurn":
        return [n, _sh(op[1], d), op[2], op[3], op[4], _sh(op[5], d)]
    if n in ("newrole", "head", "attach", "manage", "newholder"):
        return [n, _sh(op[1], d), _sh(op[2], d)]
    if n == "clone":
        return [n, _sh(op[1], d), _sh(op[2], d), op[3]]
    if n == "mkqd":
        return [n, int(op[1]) + d, op[2]] + [_sh(x, d) for x in op[3:]]
    if n in ("queryd", "queryfd"):
        return [n, op[1]] + [_sh(x, d) for x in op[2:]]
    if n == "querypd":
        return [n, op[1], op[2]] + [_sh(x, d) for x in op[3:]]
    return op


def classify(series: List[int]) -> str:
    if len(series) < 3:
        return "short"
    a, b, c = series[-3:]
    if a < b < c:
        return "grow"
    if a == b == c:
        return "flat"
    return "mixed"


def run_case(kind: str, line: str) -> str:
    """one case on the real code, from a clean process state"""
    from krrood.entity_query_language.symbol_graph import SymbolGraph

    s = parse(line)
    schema()  # the descriptors are Symbols themselves: create them before the registry is reset
    reset_process_state()
    r = Runner()
    try:
        if s[0] == "h":
            r.run_ops(s[1:])
            out = r.obs_census() if kind == "C13" else r.obs_relations()
        elif s[0] == "loop":
            n = int(s[1])
            body = s[2:]
            pre = []
            if body and isinstance(body[0], list) and body[0] and body[0][0] == "pre":
                pre, body = body[0][1:], body[1:]
            base = _structure_sizes()
            series = []
            raised_any = False
            r.run_ops(pre)
            names = [op[0] for op in body if isinstance(op, list) and op]
            decl_only = any(nm in ("mkq", "mkqd") for nm in names) and not any(
                nm in ("evalq", "query", "queryd", "qstart", "qnext", "qdrain", "queryf", "queryfd", "qfail", "qabandon", "queryp",
                       "querypd", "queryr")
                for nm in names)
            pin_seen = 0
            for i in range(n):
                r.run_ops(body, shift=1000 * i)
                if decl_only:
                    # the body only DECLARED queries: the user drops the instances first; what is still alive while the
                    # declared (never evaluated) query objects are held is pinned by krrood
                    mine = [l for l in r.objs if not 900 <= l < 1000]
                    for l in mine:
                        del r.objs[l]
                    gc.collect()
                    pin_seen = max(pin_seen, sum(1 for l in mine if l in r.wrefs and r.wrefs[l]() is not None))
                r.qs.clear()
                raised_any = raised_any or any(st["status"] == "raised" for st in r.iters.values())
                r.iters.clear()
                for l in [l for l in r.objs if not 900 <= l < 1000]:
                    del r.objs[l]
                gc.collect()
                SymbolGraph().remove_dead_instances()
                series.append(_structure_sizes())
            r.objs.clear()
            gc.collect()
            SymbolGraph().remove_dead_instances()
            if r.raised is not None:
                out = "exc"
            else:
                surv = sorted(l for l in r.wrefs if r.wrefs[l]() is not None)
                last = series[-1]

                def g(key):
                    return classify([x[key] - base[key] for x in series])

                out = (f"surv={fmt(surv)} nodes={g('nodes')} cls={g('cls')} edges={g('edges')} "
                       f"rel={g('rel')}/{'stale' if last['rel_stale'] else 'clean'} "
                       f"inst={'stale' if last['inst_stale'] else 'clean'} expr={g('expr')} rx={g('rx')}"
                       f" dead={r.dead_seen} pin={pin_seen}")
                if raised_any:
                    out += " raised"
        else:
            out = "bad-case"
    except Exception as e:  # noqa: BLE001
        out = "exc:" + type(e).__name__
    finally:
        r.objs.clear()
        r.qs.clear()
        r.iters.clear()
        del r
        gc.collect()
    return out


# ------------------------------------------------------------------------------------------------ worker pool

_POOL = None


def _worker_init(repo_src: str, harness_dir: str):
    import warnings

    warnings.filterwarnings("ignore")
    for p in (harness_dir, repo_src):
        if p not in sys.path:
            sys.path.insert(0, p)
    os.environ.setdefault("KRROOD_VERIF", "1")
    schema()
    reset_process_state()
    # everything imported so far is permanent: keeps the many gc.collect() calls of a history cheap
    gc.collect()
    gc.freeze()


def _worker_batch(args):
    kind, lines = args
    out = []
    for line in lines:
        try:
            out.append(run_case(kind, line))
        except BaseException as e:  # noqa: BLE001
            out.append("exc:" + type(e).__name__)
    return out


def _pool():
    global _POOL
    if _POOL is None:
        import atexit
        import multiprocessing as mp
        from core import REPO

        harness_dir = os.path.dirname(os.path.dirname(os.path.abspath(__file__)))
        n = max(2, min(16, (os.cpu_count() or 4)))
        _POOL = mp.get_context("spawn").Pool(n, initializer=_worker_init, initargs=(str(REPO / "src"), harness_dir))
        atexit.register(_close_pool)
    return _POOL


def _close_pool():
    global _POOL
    if _POOL is not None:
        try:
            _POOL.terminate()
        except Exception:
            pass
        _POOL = None


def run_impl(kind: str, cases) -> List[str]:
    """Each case runs in a worker process of a spawn pool, from an explicitly reset process state."""
    lines = [c.line for c in cases]
    if not lines:
        return []
    records_dir(with_orm=(kind == "C13"))  # before the workers are spawned: they inherit the directory
    pool = _pool()
    nw = getattr(pool, "_processes", 8)
    chunk = max(1, min(40, (len(lines) + nw - 1) // nw))
    batches = [(kind, lines[i:i + chunk]) for i in range(0, len(lines), chunk)]
    res: List[str] = []
    for part in pool.map(_worker_batch, batches):
        res.extend(part)
    return res


# ------------------------------------------------------------------------------------------------ generators

class Gen:
    """random well-typed histories; labels are handed out in increasing order and never reused"""

    def __init__(self, rng, classes=(1, 2, 3), first_label: int = 0):
        self.rng = rng
        self.classes = list(classes)
        self.next = first_label
        self.held: Dict[int, int] = {}   # label -> class, the harness still holds a reference
        self.known: Dict[int, int] = {}  # every label created (maybe still alive through fields or caches)
        self.qkeys: List[int] = []
        self.evaluated: set = set()
        self.nextq = 1
        self.iter_keys: List[int] = []
        self.targets: set = set()  # labels that some relation / reference points to
        self.next_class = FIRST_DYNAMIC_CLASS
        self.parents: Dict[int, int] = {}  # classes defined by the history: class index -> parent
        self.direct: List[Tuple[int, int, int]] = []    # (f, s, t): items the user put into a managed list field
        self.inferred: List[Tuple[int, int, int]] = []  # (f, s, t): items (maybe) put into a list field by inference
        self.sub_targets = False  # instances of a SUBCLASS (Mgr) as targets of Org.members.add

    def defclass(self):
        """a new subclass (of one of the classes in use, or of one defined earlier) comes into existence"""
        parent = self.rng.choice([c for c in set(self.classes) | set(self.parents) if c != 8])
        c = self.next_class
        self.next_class += 1
        self.parents[c] = parent
        self.classes.append(c)
        if self.rng.random() < 0.4:
            # distinct classes that share module and __name__
            return ["defclassn", c, parent, self.rng.choice([1, 1, 2])]
        return ["defclass", c, parent]

    def adopt_op(self):
        """a new Org built with the sub_of CONTAINER of a held Org nothing points to (so that the donor dies when the
        harness drops it right afterwards and the sharing of the container cannot be observed)"""
        donors = [x for x, c in self.held.items() if c == 1 and x not in self.targets]
        if not donors:
            return None
        d = self.rng.choice(donors)
        lab = self.next
        self.next += 1
        del self.held[d]
        self.held[lab] = 1
        self.known[lab] = 1
        return ["adopt", lab, d, 3]

    def role_op(self):
        """roles (Chair(Role[Emp])): created for a held Emp, related to an Org through head_of (inverse on the Org, super-
        properties on the role taker) or manages (super-property employer on the role taker, no inverse)"""
        e, o, ch = self.pick((2,)), self.pick(ORG_LIKE), self.pick((8,))
        r = self.rng.random()
        if (ch is None or r < 0.3) and e is not None:
            lab = self.next
            self.next += 1
            self.held[lab] = 8
            self.known[lab] = 8
            return ["newrole", lab, e]
        if ch is not None and o is not None:
            if r < 0.75:
                return ["manage", ch, o]
            return ["head", ch, o]
        if e is not None and o is not None:
            return ["set", 8, e, o]
        return None

    def clone_op(self):
        """another creation path for an instance of a class without managed fields"""
        def base(c):
            while c in self.parents:
                c = self.parents[c]
            return c

        src = [x for x, c in self.held.items() if base(c) in (0, 4, 5, 6, 7, 9, 10, 11, 12)]
        recs = [x for x, c in self.held.items() if c in (10, 11)]
        if recs and self.rng.random() < 0.25:
            lab = self.next
            self.next += 1
            self.held[lab] = 12
            self.known[lab] = 12
            return ["newholder", lab, self.rng.choice(recs)]
        if not src:
            return None
        s_ = self.rng.choice(src)
        c = self.held[s_]
        hows = ["copy", "deepcopy"]
        if c < FIRST_DYNAMIC_CLASS:
            hows.append("pickle")
        if c in (10, 11, 12):
            hows += ["dao", "dao"]
        lab = self.next
        self.next += 2  # a re-created Holder brings its item along (label + 1)
        self.held[lab] = c
        self.known[lab] = c
        return ["clone", lab, s_, self.rng.choice(hows)]

    def unlist_op(self):
        """an item the user put into a managed list field leaves it by a plain (un-hooked) list operation; now and then
        aimed at an item that is there by inference only, or not at all (nothing happens then)"""
        how = self.rng.choice(["lrm", "lrm", "ldel", "lpop"])
        mine = [x for x in self.direct if x[1] in self.held]
        if mine and self.rng.random() < 0.8:
            x = self.rng.choice(mine)
            self.direct.remove(x)
            return [how, x[0], x[1], x[2]]
        other = [x for x in self.inferred if x[1] in self.held and x[2] in self.known]
        if other:
            x = self.rng.choice(other)
            return [how, x[0], x[1], x[2]]
        return None

    def relchurn(self):
        """related temporaries discarded back to back, the last one kept: sources that die at once (no inverse field
        on the target holds them): Org.sub_of towards an Org, or a direct relation among non-Org instances"""
        r = self.rng.random()
        org = self.pick(ORG_LIKE)
        non_org = [x for x, c in self.held.items() if c not in ORG_LIKE and c != 8]
        if r < 0.5 and org is not None:
            c, f, t = 1, 3, org
        elif non_org:
            c, f, t = self.rng.choice([2, 3, 4]), self.rng.choice([4, 5]), self.rng.choice(non_org)
        else:
            return None
        n = self.rng.randint(2, 6)
        o = self.next
        self.next += n
        for i in range(n):
            self.known[o + i] = c
        self.held[o + n - 1] = c
        return ["relchurn", o, n, c, f, t]

    def churn(self):
        n = self.rng.randint(2, 8)
        c = self.rng.choice(self.classes)
        o = self.next
        self.next += n
        for i in range(n):
            self.known[o + i] = c
        return ["churn", o, n, c]

    def new(self, c=None):
        c = self.rng.choice(self.classes) if c is None else c
        o = self.next
        self.next += 1
        self.held[o] = c
        self.known[o] = c
        return ["new", o, c]

    def pick(self, group, pool=None):
        pool = self.held if pool is None else pool
        xs = [o for o, c in pool.items() if c in group]
        return self.rng.choice(xs) if xs else None

    def relation(self, allow_plain=True):
        """a well-typed relation assertion among objects the harness holds"""
        r = self.rng.random()
        e, o = self.pick(EMP_LIKE), self.pick(ORG_LIKE)
        # direct relations stay away from Org instances: the transitive inference of Org.sub_of reads
        # `property_descriptor_cls` of every edge at an Org and a plain PredicateClassRelation has none
        # (AttributeError on a fresh graph as well: not a matter of history, so not C14's subject; see build report)
        non_org = [x for x, c in self.held.items() if c not in ORG_LIKE]
        if allow_plain and r < 0.2 and non_org:
            a = self.rng.choice(non_org)
            b = self.rng.choice(non_org)
            return ["rel", self.rng.choice([4, 5]), a, b]
        if r < 0.42 and e is not None and o is not None:
            return ["set", 0, e, o]
        if r < 0.55 and e is not None and o is not None:
            return ["set", 1, e, o]
        if r < 0.68 and e is not None and o is not None:
            if self.sub_targets:
                e = self.pick(EMP_TARGETS)
            return ["set", 2, o, e]
        o2 = self.pick(ORG_LIKE)
        if o is not None and o2 is not None and o != o2:
            # o.children.append(o2) infers o2.parent = o (a scalar: the parent o2 had is overwritten);
            # o.parent = o2 infers o2.children ∋ o
            if 0.68 <= r < 0.82:
                return ["set", 10, o, o2]
            if 0.82 <= r < 0.87:
                return ["set", 11, o, o2]
            return ["set", 3, o, o2]
        if e is not None and o is not None:
            return ["set", 0, e, o]
        return None

    def drop(self):
        if not self.held:
            return None
        o = self.rng.choice(list(self.held))
        del self.held[o]
        return ["drop", o]

    def query_ops(self, explicit_ok=True):
        """one query-related operation"""
        r = self.rng.random()
        pending = [k for k in self.qkeys if k not in self.evaluated]
        if r < 0.45 or (not self.qkeys and r < 0.7):
            return ["query", self.rng.choice([0, 0, 1, 2, 2, 3, 4, 5] + list(self.parents) + list(self.parents.values()))]
        if r < 0.6 and explicit_ok and self.held:
            dom = self.rng.sample(list(self.held), min(len(self.held), self.rng.randint(1, 3)))
            return ["queryd", self.rng.choice([0, 2, 1])] + dom
        if r < 0.75 or not self.qkeys:
            k = self.nextq
            self.nextq += 1
            self.qkeys.append(k)
            return ["mkq", k, self.rng.choice([0, 1, 2, 2, 3, 4] + list(self.parents.values()))]
        if r < 0.93:
            k = self.rng.choice(pending or self.qkeys)
            self.evaluated.add(k)
            return ["evalq", k]
        k = self.rng.choice(self.qkeys)
        self.qkeys.remove(k)
        self.evaluated.discard(k)
        return ["dropq", k]

    def history(self, length: int, w_new=3.0, w_drop=2.0, w_rel=2.0, w_sweep=1.0, w_clear=0.3, w_query=2.0,
                plain=True, w_defclass=0.0, w_churn=0.0, w_step=0.0, w_relchurn=0.0, w_bag=0.0, w_role=0.0,
                w_clone=0.0, w_adopt=0.0, w_unlist=0.0):
        ops = []
        kinds = ["new", "drop", "rel", "sweep", "clear", "query", "defclass", "churn", "step", "relchurn", "bag",
                 "role", "clone"]
        weights = [w_new, w_drop, w_rel, w_sweep, w_clear, w_query, w_defclass, w_churn, w_step, w_relchurn, w_bag,
                   w_role, w_clone, w_adopt]
        kinds.append("adopt")
        kinds.append("unlist")
        weights.append(w_unlist)
        while len(ops) < length:
            k = self.rng.choices(kinds, weights)[0]
            op = None
            if k == "new":
                op = self.new()
            elif k == "drop":
                op = self.drop()
            elif k == "rel":
                op = self.relation(plain)
            elif k == "sweep":
                op = ["sweep"]
            elif k == "defclass":
                op = self.defclass()
            elif k == "churn":
                op = self.churn()
            elif k == "relchurn":
                op = self.relchurn()
            elif k == "adopt":
                op = self.adopt_op()
            elif k == "unlist":
                op = self.unlist_op()
            elif k == "role":
                op = self.role_op()
            elif k == "clone":
                op = self.clone_op()
            elif k == "bag":
                bags = [o for o, c in self.held.items() if c == 9]
                if bags and self.rng.random() < 0.7:
                    op = [self.rng.choice(["fill", "fill", "empty"]), self.rng.choice(bags)]
                else:
                    op = self.new(9)
            elif k == "step":
                # a lazily consumed evaluation: started once, advanced one next() at a time between other operations
                if not self.iter_keys or self.rng.random() < 0.2:
                    key = len(self.iter_keys) + 1
                    self.iter_keys.append(key)
                    op = ["qstart", key, self.rng.choice([0, 2, 2, 4, 1] + list(self.parents.values()))]
                else:
                    op = ["qnext", self.rng.choice(self.iter_keys)]
            elif k == "clear":
                # a query object created but not yet evaluated (or a suspended evaluation) holds a generator over the
                # OLD registry: not modelled
                if all(q in self.evaluated for q in self.qkeys) and not self.iter_keys:
                    op = ["clear"]
            else:
                op = self.query_ops()
            if op is not None:
                ops.append(op)
                if op[0] == "set":
                    f_, s_, t_ = int(op[1]), int(op[2]), int(op[3])
                    if FIELD_KIND[f_] == "list":
                        self.direct.append((f_, s_, t_))
                    if f_ in (0, 2):
                        self.inferred.append((1, s_, t_) if f_ == 0 else (1, t_, s_))
                    elif f_ == 11:
                        self.inferred.append((10, t_, s_))
                if op[0] in ("set", "rel"):
                    self.targets.add(int(op[3]))
                    if op[0] == "set" and int(op[1]) in (0, 1, 2, 10, 11):
                        self.targets.add(int(op[2]))  # the inverse field of the target points back to the source
                elif op[0] in ("head", "manage", "newrole", "newholder", "attach"):
                    self.targets.add(int(op[2]))
                elif op[0] == "relchurn":
                    self.targets.add(int(op[5]))
        return ops


def unlist_families():
    """histories in which an item the user put into a managed LIST field leaves it by a plain list operation, dies, new
    instances are created (CPython hands them the addresses of the dead ones) and a relation is asserted whose INFERENCE
    targets that list: Emp.member_of (inferred from org.members.add), Org.children (inferred from child.parent = p),
    Org.sub_of (inferred transitively); also: the removed item lives on and is asserted / inferred again"""
    out = []
    for how in ("lrm", "ldel", "lpop"):
        for k, n in ((1, 1), (2, 3), (5, 6)):
            # field 1: e.member_of.append(o_i); plain removal; o_i dies; new orgs take e as a member
            ops = [["new", 0, 2]]
            for i in range(k):
                ops += [["new", 10 + i, 1], ["set", 1, 0, 10 + i], [how, 1, 0, 10 + i], ["drop", 10 + i]]
            ops += [["sweep"]] if k == 2 else []
            for i in range(n):
                ops += [["new", 50 + i, 1], ["set", 2, 50 + i, 0]]
            out.append(ops)
            # field 10: p.children.append(c_i); plain removal; c_i dies; new children name p their parent
            ops = [["new", 0, 1]]
            for i in range(k):
                ops += [["new", 10 + i, 1], ["set", 10, 0, 10 + i], [how, 10, 0, 10 + i], ["drop", 10 + i]]
            for i in range(n):
                ops += [["new", 50 + i, 1], ["set", 11, 50 + i, 0]]
            out.append(ops)
            # field 3: a.sub_of.append(b_i); plain removal; b_i dies; a.sub_of.append(m), m.sub_of.append(new c_j)
            ops = [["new", 0, 1], ["new", 1, 1]]
            for i in range(k):
                ops += [["new", 10 + i, 1], ["set", 3, 0, 10 + i], [how, 3, 0, 10 + i], ["drop", 10 + i]]
            ops += [["set", 3, 0, 1]]
            for i in range(n):
                ops += [["new", 50 + i, 1], ["set", 3, 1, 50 + i]]
            out.append(ops)
        # the removed item lives on: asserted again from either side, inferred again
        out.append([["new", 0, 2], ["new", 1, 1], ["set", 1, 0, 1], [how, 1, 0, 1], ["set", 2, 1, 0], ["set", 1, 0, 1],
                    [how, 1, 0, 1], [how, 1, 0, 1], ["drop", 1], ["sweep"], ["new", 2, 1], ["set", 2, 2, 0]])
        # an item that is there by inference only leaves the list: the container still holds it (_inferred_items)
        out.append([["new", 0, 2], ["new", 1, 1], ["set", 2, 1, 0], [how, 1, 0, 1], ["drop", 1], ["new", 2, 1],
                    ["set", 2, 2, 0], ["set", 1, 0, 2], [how, 1, 0, 2], ["drop", 2], ["new", 3, 1], ["set", 0, 0, 3]])
    return out


def subclass_families():
    """instances of a SUBCLASS (Mgr < Emp) that inherit managed fields, as targets of org.members.add: their relations are
    inferred through the subclass's view of the field; they die, are swept, new instances (of the subclass or of the
    declaring class) get the recycled node indices and are related to the same / a new Org"""
    out = []
    for c1 in (3, 2):
        for c2 in (2, 3):
            for sweep in (True, False):
                for keep_org in (True, False):
                    for order in (0, 1):
                        tail = [["sweep"]] if sweep else []
                        pre = [["new", 0, c1], ["new", 1, 1]] if order == 0 else [["new", 1, 1], ["new", 0, c1]]
                        pre += [["set", 2, 1, 0], ["drop", 0]]
                        if keep_org:
                            # the Org lives on; its member is only reachable through it: cut by a new member set? no: the
                            # Org is dropped too and a second Org survives
                            pre = [["new", 5, 1]] + pre + [["drop", 1]] + tail
                            suf = [["new", 100, c2], ["new", 101, 1], ["set", 2, 101, 100], ["set", 2, 5, 100]]
                        else:
                            pre = pre + [["drop", 1]] + tail
                            suf = ([["new", 100, c2], ["new", 101, 1]] if order == 0 else
                                   [["new", 101, 1], ["new", 100, c2]]) + [["set", 2, 101, 100]]
                        out.append(pre + suf)
    return out


def overwrite_families():
    """histories (Org instances only, no query) in which the inference started on a CONTAINER field (children) overwrites a
    SCALAR field (parent of the item) whose old value is referenced by nothing else — plain, as cyclic garbage, swept or not,
    after clear(), next to transitive relations, and through the scalar side"""
    out = []
    base = [["new", 0, 1], ["new", 1, 1], ["new", 2, 1]]
    for sweep in (False, True):
        tail = [["sweep"]] if sweep else []
        # p0.children = [c]; the user drops p0 (alive through c.parent); p1.children.append(c): p0 dies at once
        out.append(base + [["set", 10, 0, 2], ["drop", 0], ["set", 10, 1, 2]] + tail)
        # the same with a second child that only p0 holds: p0 <-> d is cyclic garbage after the overwrite
        out.append(base + [["new", 3, 1], ["set", 10, 0, 2], ["set", 10, 0, 3], ["drop", 0], ["drop", 3],
                           ["set", 10, 1, 2]] + tail)
        # a chain of parents only reachable upwards from the leaf: grandparent -> parent -> leaf
        out.append(base + [["new", 3, 1], ["set", 10, 0, 1], ["set", 10, 1, 2], ["drop", 0], ["drop", 1],
                           ["set", 10, 3, 2]] + tail + [["new", 4, 1], ["set", 10, 4, 3]])
        # the scalar side: c.parent = p0, then c.parent = p1 (a scalar assignment), then p0.children.append(c) again
        out.append(base + [["set", 11, 2, 0], ["drop", 0], ["set", 11, 2, 1]] + tail + [["set", 10, 1, 2]])
        out.append(base + [["set", 11, 2, 0], ["set", 11, 2, 1], ["drop", 1], ["set", 10, 0, 2]] + tail)
        # the overwritten parent has transitive relations; the dead, unswept parent is met by the next inference
        out.append(base + [["new", 3, 1], ["set", 3, 0, 1], ["set", 10, 0, 2], ["drop", 0], ["set", 10, 3, 2]] + tail
                   + [["set", 3, 1, 3], ["set", 3, 3, 2]])
        # the registry is cleared in between: the live instances are wrapped again by the assertion
        out.append(base + [["set", 10, 0, 2], ["drop", 0], ["clear"], ["set", 10, 1, 2]] + tail + [["set", 10, 1, 2]])
        # the same item appended twice to the same parent, then moved; mutual parents
        out.append(base + [["set", 10, 0, 2], ["set", 10, 0, 2], ["drop", 0], ["set", 10, 1, 2]] + tail)
        out.append([["new", 0, 1], ["new", 1, 1], ["set", 10, 0, 1], ["set", 10, 1, 0], ["drop", 0]] + tail
                   + [["new", 2, 1], ["set", 10, 2, 1], ["drop", 1]])
    return out


def enumerate_histories(depth: int, menu, state0):
    """all operation sequences of length <= depth; `menu(state)` lists (op, next_state) pairs"""
    out = []

    def go(prefix, state, d):
        out.append(list(prefix))
        if d == 0:
            return
        for op, nxt in menu(state):
            prefix.append(op)
            go(prefix, nxt, d - 1)
            prefix.pop()

    go([], state0, depth)
    return out


def shrink_ops(ops):
    """one-step smaller histories: drop one operation (dangling labels are no-ops on both sides; class definitions
    stay, an instance of an undefined class means nothing)"""
    for i in range(len(ops)):
        if ops[i][0] in ("defclass", "defclassn"):
            continue
        yield ops[:i] + ops[i + 1:]
    for i in range(len(ops)):
        if ops[i][0] == "churn" and int(ops[i][2]) > 1:
            yield ops[:i] + [[ops[i][0], ops[i][1], int(ops[i][2]) - 1, ops[i][3]]] + ops[i + 1:]
