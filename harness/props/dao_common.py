"""Shared machinery of C04 and C05 (model M-DAO).

* SCHEMA       the mapped example classes of ``$KRROOD_VERIF_REPO/test/dataset/example_classes.py`` the generator
               ranges over (field kinds, alternative mappings, DAO table chains) -- a *parameter* of the checks.
* abstract heap ``oid -> (cls, scalars, refs)`` <-> case line (S-expression understood by Drive/C04.lean, C05.lean)
* builder      the same heap as REAL objects of the repository's classes (``__new__`` + ``setattr``: the heap is
               reproduced exactly, no constructor side effects)
* canon        canonical form of a rooted object graph (DFS numbering from the roots; classes, scalar values with
               exact types, reference structure with sharing) -- the observation function of both properties
* ORM          the ORM interface of the dataset is REGENERATED with the current ORMatic on every run into a temp
               package (fresh subprocess) and imported only inside spawn workers
"""
from __future__ import annotations

import atexit
import os
import shutil
import sys
import tempfile
from typing import Any, Dict, List, Optional, Tuple

REPO = os.environ.get("KRROOD_VERIF_REPO", "/repo")

# ------------------------------------------------------------------------------------------------------------------
# schema (what the harness assumes about the dataset; validated against the real classes in the workers)
# scalar kinds: f float | of optional float | i int | s str | ls list[str] | enum Element | dt datetime | uuid | luuid
#               | json JSONSerializableClass | ljson list of them | type | dii dict int->int (v:v) | concept
# ref: (attribute on the object, 'one'|'many', target base class, may be None, DAO class declaring it, DAO attribute,
#       inferred ONETOMANY by SQLAlchemy today (reference into the source's own table hierarchy, no remote_side))


def R(name, kind, target, nullable, decl, dao_name=None, star=False, lens=None):
    return dict(name=name, kind=kind, target=target, nullable=nullable, decl=decl, dao_name=dao_name or name, star=star,
                lens=lens or [0, 1, 1, 2, 2, 3, 4])


POS = [("x", "f"), ("y", "f"), ("z", "f")]
SCHEMA: Dict[str, Dict[str, Any]] = {
    "Position": dict(scal=POS, refs=[], chain=["PositionDAO", "SymbolDAO"]),
    "Position4D": dict(scal=POS + [("w", "f")], refs=[], chain=["Position4DDAO", "PositionDAO", "SymbolDAO"]),
    "Position5D": dict(scal=POS + [("w", "f"), ("v", "f")], refs=[],
                       chain=["Position5DDAO", "Position4DDAO", "PositionDAO", "SymbolDAO"]),
    "Orientation": dict(scal=POS + [("w", "of")], refs=[], chain=["OrientationDAO", "SymbolDAO"]),
    "Pose": dict(scal=[], refs=[R("position", "one", "Position", False, "PoseDAO"),
                                R("orientation", "one", "Orientation", False, "PoseDAO")],
                 chain=["PoseDAO", "SymbolDAO"]),
    "Positions": dict(scal=[("some_strings", "ls")], refs=[R("positions", "many", "Position", False, "PositionsDAO")],
                      chain=["PositionsDAO", "SymbolDAO"]),
    "PositionsSubclassWithAnotherPosition": dict(
        scal=[("some_strings", "ls")],
        refs=[R("positions", "many", "Position", False, "PositionsDAO"),
              R("positions2", "one", "Position", False, "PositionsSubclassWithAnotherPositionDAO")],
        chain=["PositionsSubclassWithAnotherPositionDAO", "PositionsDAO", "SymbolDAO"]),
    "DoublePositionAggregator": dict(
        scal=[], refs=[R("positions1", "many", "Position", False, "DoublePositionAggregatorDAO"),
                       R("positions2", "many", "Position", False, "DoublePositionAggregatorDAO")],
        chain=["DoublePositionAggregatorDAO", "SymbolDAO"]),
    "Node": dict(scal=[], refs=[R("parent", "one", "Node", True, "NodeDAO", star=True)], chain=["NodeDAO", "SymbolDAO"]),
    "Atom": dict(scal=[("element", "enum"), ("type", "i"), ("charge", "f"), ("timestamp", "dt")], refs=[],
                 chain=["AtomDAO", "SymbolDAO"]),
    "KinematicChain": dict(scal=[("name", "s")], refs=[], chain=["KinematicChainDAO", "SymbolDAO"]),
    "Torso": dict(scal=[("name", "s")], refs=[R("kinematic_chains", "many", "KinematicChain", False, "TorsoDAO")],
                  chain=["TorsoDAO", "KinematicChainDAO", "SymbolDAO"]),
    "Parent": dict(scal=[("name", "s")], refs=[], chain=["ParentDAO", "SymbolDAO"]),
    "ChildMapped": dict(scal=[("name", "s"), ("attribute1", "i")], refs=[],
                        chain=["ChildMappedDAO", "ParentDAO", "SymbolDAO"]),
    "Entity": dict(scal=[("name", "s"), ("attribute_that_shouldnt_appear_at_all", "f0")], refs=[],
                   chain=["CustomEntityDAO", "SymbolDAO"], kind="alt", mapping="CustomEntity"),
    "DerivedEntity": dict(scal=[("name", "s"), ("attribute_that_shouldnt_appear_at_all", "f0"), ("description", "s")],
                          refs=[], chain=["DerivedEntityDAO", "CustomEntityDAO", "SymbolDAO"], kind="sub",
                          mapping="DerivedEntityDAO", pf=(2, 0)),
    "EntityAssociation": dict(scal=[("a", "ls")], refs=[R("entity", "one", "Entity", False, "EntityAssociationDAO")],
                              chain=["EntityAssociationDAO", "SymbolDAO"]),
    "Reference": dict(scal=[("value", "i")], refs=[R("backreference", "one", "Backreference", True, "ReferenceDAO")],
                      chain=["ReferenceDAO", "SymbolDAO"]),
    "Backreference": dict(scal=[("unmappable", "dii")],
                          refs=[R("reference", "one", "Reference", True, "BackreferenceMappingDAO")],
                          chain=["BackreferenceMappingDAO", "SymbolDAO"], kind="alt", mapping="BackreferenceMapping"),
    "AlternativeMappingAggregator": dict(
        scal=[], refs=[R("entities1", "many", "Entity", False, "AlternativeMappingAggregatorDAO"),
                       R("entities2", "many", "Entity", False, "AlternativeMappingAggregatorDAO")],
        chain=["AlternativeMappingAggregatorDAO", "SymbolDAO"]),
    "ItemWithBackreference": dict(
        scal=[("value", "i")], refs=[R("container", "one", "ContainerGeneration", True, "ItemWithBackreferenceDAO")],
        chain=["ItemWithBackreferenceDAO", "SymbolDAO"]),
    "ContainerGeneration": dict(
        scal=[], refs=[R("items", "many", "ItemWithBackreference", False, "ContainerGenerationDAO")],
        chain=["ContainerGenerationDAO", "SymbolDAO"]),
    "Vector": dict(scal=[("x", "f")], refs=[], chain=["VectorMappedDAO", "SymbolDAO"], kind="alt",
                   mapping="VectorMapped"),
    "Transformation": dict(
        scal=[], refs=[R("vector", "one", "Vector", False, "TransformationMappedDAO"),
                       R("rotation", "one", "Rotation", True, "TransformationMappedDAO")],
        chain=["TransformationMappedDAO", "SymbolDAO"], kind="alt", mapping="TransformationMapped"),
    "Shape": dict(scal=[("name", "s")], refs=[R("origin", "one", "Transformation", False, "ShapeDAO")],
                  chain=["ShapeDAO", "SymbolDAO"]),
    "Shapes": dict(scal=[], refs=[R("shapes", "many", "Shape", False, "ShapesDAO")], chain=["ShapesDAO", "SymbolDAO"]),
    "MoreShapes": dict(scal=[], refs=[R("shapes", "many", "Shapes", False, "MoreShapesDAO")],
                       chain=["MoreShapesDAO", "SymbolDAO"]),
    "VectorsWithProperty": dict(
        scal=[], refs=[R("_vectors", "many", "Vector", False, "VectorsWithPropertyMappedDAO", dao_name="vectors")],
        chain=["VectorsWithPropertyMappedDAO", "SymbolDAO"], kind="alt", mapping="VectorsWithPropertyMapped"),
    "RelationshipParent": dict(scal=[], refs=[R("positions", "one", "Position", False, "RelationshipParentDAO")],
                               chain=["RelationshipParentDAO", "SymbolDAO"]),
    "RelationshipChild": dict(scal=[], refs=[R("positions", "one", "Position", False, "RelationshipParentDAO")],
                              chain=["RelationshipChildDAO", "RelationshipParentDAO", "SymbolDAO"]),
    "OriginalSimulatedObject": dict(scal=[("concept", "concept"), ("placeholder", "f")], refs=[],
                                    chain=["OriginalSimulatedObjectDAO", "SymbolDAO"]),
    "ObjectAnnotation": dict(
        scal=[], refs=[R("object_reference", "one", "OriginalSimulatedObject", False, "ObjectAnnotationDAO")],
        chain=["ObjectAnnotationDAO", "SymbolDAO"]),
    "UUIDWrapper": dict(scal=[("identification", "uuid"), ("other_identifications", "luuid")], refs=[],
                        chain=["UUIDWrapperDAO"]),
    "JSONWrapper": dict(scal=[("json_serializable_object", "json"), ("more_objects", "ljson")], refs=[],
                        chain=["JSONWrapperDAO"]),
    "PositionTypeWrapper": dict(scal=[("position_type", "type")], refs=[], chain=["PositionTypeWrapperDAO", "SymbolDAO"]),
    "MultipleInheritance": dict(scal=[("primary_attribute", "s"), ("mixin_attribute", "s"), ("extra_attribute", "s")],
                                refs=[], chain=["MultipleInheritanceDAO", "PrimaryBaseDAO"]),
    "PrivateDefaultFactory": dict(scal=[("public_value", "i"), ("_private_list", "li0")], refs=[],
                                  chain=["PrivateDefaultFactoryDAO", "SymbolDAO"]),
}
# Auxiliary model of the harness itself (written next to the regenerated interface and generated together with the
# dataset by the current ORMatic): shapes the repository's dataset does not contain.
#  * AuxPolyline: alternatively mapped, its `create_instance` materialises FRESH mapped sub-objects (AuxPoint) nobody
#    else references -- they must stay alive while the ToDAOState lives (memo keyed by id()).
#  * AuxTrajectory: a mapped class with `__len__` (falsy while it has no waypoints) in single-valued and collection
#    fields -- `None` tests must be identity tests.
AUX_MODULE = "verif_aux_model"
AUX_SOURCE = '''"""auxiliary mapped classes of the krrood verification harness (generated file)"""
from __future__ import annotations

import enum
from dataclasses import dataclass, field
from types import FunctionType

from typing_extensions import List, Optional, Type

import verif_aux_geometry
import verif_aux_storage
from krrood.ormatic.dao import AlternativeMapping


@dataclass
class AuxPoint:
    x: float
    y: float


@dataclass
class AuxPolyline:
    """stores its vertices in a flat, interleaved coordinate list"""

    name: str
    coordinates: List[float] = field(default_factory=list)


@dataclass
class AuxPolylineMapping(AlternativeMapping[AuxPolyline]):
    """persists a polyline as a list of points created on the fly"""

    name: str
    points: List[AuxPoint]

    @classmethod
    def create_instance(cls, obj: AuxPolyline):
        c = obj.coordinates
        return cls(obj.name, [AuxPoint(c[i], c[i + 1]) for i in range(0, len(c), 2)])

    def create_from_dao(self) -> AuxPolyline:
        return AuxPolyline(self.name, [v for p in self.points for v in (p.x, p.y)])


@dataclass
class AuxDrawing:
    lines: List[AuxPolyline] = field(default_factory=list)


@dataclass
class AuxWaypoint:
    x: float
    y: float


@dataclass
class AuxTrajectory:
    """a named sequence of waypoints that behaves like a sized container (falsy while empty)"""

    name: str
    waypoints: List[AuxWaypoint] = field(default_factory=list)

    def __len__(self) -> int:
        return len(self.waypoints)


@dataclass
class AuxMission:
    label: str
    trajectory: AuxTrajectory
    fallback: Optional[AuxTrajectory] = None


@dataclass
class AuxSchedule:
    missions: List[AuxMission] = field(default_factory=list)
    spares: List[AuxTrajectory] = field(default_factory=list)


@dataclass
class AuxFrame:
    name: str


@dataclass
class AuxTag:
    text: str


@dataclass
class AuxSensor:
    name: str
    mount: AuxFrame
    tags: List[AuxTag] = field(default_factory=list)


@dataclass
class AuxSensorMapping(AlternativeMapping[AuxSensor]):
    """stores its relationships under other names than the domain attributes"""

    identifier: str
    mounting_frame: AuxFrame
    labels: List[AuxTag]

    @classmethod
    def create_instance(cls, obj: AuxSensor):
        return cls(obj.name, obj.mount, obj.tags)

    def create_from_dao(self) -> AuxSensor:
        return AuxSensor(self.identifier, self.mounting_frame, self.labels)


@dataclass
class AuxCamera(AuxSensor):
    """a NORMALLY mapped subclass of an alternatively mapped class whose mapping holds relationships"""

    resolution: int = 480
    housing: Optional[AuxFrame] = None


@dataclass
class AuxRig:
    sensors: List[AuxSensor] = field(default_factory=list)
    main: Optional[AuxSensor] = None


# function-valued fields (alternatively mapped by krrood's FunctionMapping): same __name__ on different owners
def run():
    return "module.run"


def step():
    return "module.step"


def aux_unique():
    return "module.aux_unique"


class AuxLoader:
    @staticmethod
    def run():
        return "AuxLoader.run"

    def step(self=None):
        return "AuxLoader.step"


class AuxSaver:
    @staticmethod
    def run():
        return "AuxSaver.run"

    @staticmethod
    def step():
        return "AuxSaver.step"


@dataclass
class AuxJob:
    name: str
    action: FunctionType
    fallback: Optional[FunctionType] = None


@dataclass
class AuxPipeline:
    jobs: List[AuxJob] = field(default_factory=list)
    on_error: Optional[FunctionType] = None


# a mapped root whose mapped descendants are reached only through classes that are NOT given to ORMatic
@dataclass
class AuxDevice:
    name: str
    serial: int


@dataclass
class AuxCalibrated(AuxDevice):
    """behaviour only; not part of the persisted model"""

    def describe(self) -> str:
        return f"{self.name}#{self.serial}"


@dataclass
class AuxScanner(AuxCalibrated):
    resolution: int


@dataclass
class AuxTuned(AuxScanner):
    """not part of the persisted model either"""

    def tuned(self) -> bool:
        return True


@dataclass
class AuxTurboScanner(AuxTuned):
    wavelength: float


@dataclass
class AuxWorkbench:
    label: str
    devices: List[AuxDevice] = field(default_factory=list)
    primary: Optional[AuxDevice] = None


# two levels below an alternatively mapped class whose mapping RENAMES its attributes (see finding F-C04-3)
@dataclass
class AuxStereoCamera(AuxCamera):
    baseline: float = 0.1


# chains two levels below an alternatively mapped class whose mapping keeps the attribute names; the MIDDLE class
# declares a collection and a single-valued relationship
@dataclass
class AuxGadget:
    name: str
    runtime_handle: int = 0


@dataclass
class AuxGadgetMapping(AlternativeMapping[AuxGadget]):
    name: str

    @classmethod
    def create_instance(cls, obj: AuxGadget):
        return cls(name=obj.name)

    def create_from_dao(self) -> AuxGadget:
        return AuxGadget(name=self.name)


@dataclass
class AuxLensCam(AuxGadget):
    lenses: List[AuxTag] = field(default_factory=list)
    bracket: Optional[AuxFrame] = None


@dataclass
class AuxStereoCam(AuxLensCam):
    baseline: float = 0.1
    partner: Optional[AuxFrame] = None


@dataclass
class AuxKit:
    gadgets: List[AuxGadget] = field(default_factory=list)
    main: Optional[AuxGadget] = None


# scalar columns of every kind, each also Optional: None must stay None and a FALSY value (0, 0.0, "", False, the
# enumeration member with value 0, an empty list) must stay itself -- `is None` tests, never truthiness tests
class AuxMode(enum.IntEnum):
    OFF = 0
    ON = 1
    AUTO = 2


@dataclass
class AuxSwitch:
    label: str
    enabled: bool
    level: int
    gain: float
    mode: AuxMode
    frame_type: Type[AuxFrame]
    opt_label: Optional[str] = None
    opt_enabled: Optional[bool] = None
    opt_level: Optional[int] = None
    opt_gain: Optional[float] = None
    opt_mode: Optional[AuxMode] = None
    notes: List[str] = field(default_factory=list)
    # Optional scalars whose default is NOT None: an explicit None must survive (it must be passed to the constructor
    # explicitly, and the generated column must not complete it)
    retries: Optional[int] = 3
    trim: Optional[float] = 1.0
    note: Optional[str] = "n/a"
    armed: Optional[bool] = True
    fallback_mode: Optional[AuxMode] = AuxMode.ON


@dataclass
class AuxPanel:
    switches: List[AuxSwitch] = field(default_factory=list)
    master: Optional[AuxSwitch] = None


# several alternatively mapped objects on ONE reference cycle, and a plain holder that references them through one
# collection: all of them can be in progress when the collection is parsed
@dataclass
class AuxClub:
    name: str
    link: Optional[AuxLink] = None


@dataclass
class AuxClubMapping(AlternativeMapping[AuxClub]):
    name: str
    link: Optional[AuxLink]

    @classmethod
    def create_instance(cls, obj: AuxClub):
        return cls(obj.name, obj.link)

    def create_from_dao(self) -> AuxClub:
        return AuxClub(self.name, self.link)


@dataclass
class AuxLink:
    label: str
    club: Optional[AuxClub] = None
    registry: Optional[AuxRegistry] = None


@dataclass
class AuxRegistry:
    clubs: List[AuxClub] = field(default_factory=list)
    chair: Optional[AuxClub] = None


# JSON columns whose value classes have the same simple name in two modules
@dataclass
class AuxShelf:
    name: str
    outline: verif_aux_geometry.Box
    lid: verif_aux_storage.Box
    bins: List[verif_aux_storage.Box] = field(default_factory=list)
    plates: List[verif_aux_geometry.Box] = field(default_factory=list)
'''
AUX_JSON_MODULES = {
    "verif_aux_geometry": '''from dataclasses import dataclass

from krrood.adapters.json_serializer import SubclassJSONSerializer


@dataclass
class Box(SubclassJSONSerializer):
    width: float = 1.0
    height: float = 1.0

    def to_json(self):
        return {**super().to_json(), "width": self.width, "height": self.height}

    @classmethod
    def _from_json(cls, data, **kwargs):
        return cls(width=data["width"], height=data["height"])
''',
    "verif_aux_storage": '''from dataclasses import dataclass

from krrood.adapters.json_serializer import SubclassJSONSerializer


@dataclass
class Box(SubclassJSONSerializer):
    label: str = ""
    capacity: int = 0

    def to_json(self):
        return {**super().to_json(), "label": self.label, "capacity": self.capacity}

    @classmethod
    def _from_json(cls, data, **kwargs):
        return cls(label=data["label"], capacity=data["capacity"])
''',
}
AUX_CLASSES = ["AuxPoint", "AuxPolyline", "AuxDrawing", "AuxWaypoint", "AuxTrajectory", "AuxMission", "AuxSchedule",
               "AuxFrame", "AuxTag", "AuxSensor", "AuxCamera", "AuxRig", "AuxJob", "AuxPipeline",
               "AuxDevice", "AuxScanner", "AuxTurboScanner", "AuxWorkbench",  # NOT AuxCalibrated, AuxTuned
               "AuxStereoCamera", "AuxGadget", "AuxLensCam", "AuxStereoCam", "AuxKit", "AuxShelf", "AuxSwitch", "AuxPanel",
               "AuxClub", "AuxLink", "AuxRegistry"]
FUNCTION_POOL = ["run", "AuxLoader.run", "AuxSaver.run", "step", "AuxLoader.step", "AuxSaver.step", "aux_unique"]
SCHEMA.update({
    "AuxPolyline": dict(scal=[("name", "s"), ("coordinates", "lf2")], refs=[], chain=["AuxPolylineMappingDAO"],
                        kind="alt", mapping="AuxPolylineMapping"),
    "AuxDrawing": dict(scal=[], refs=[R("lines", "many", "AuxPolyline", False, "AuxDrawingDAO", lens=[2, 3, 4, 5, 6])],
                       chain=["AuxDrawingDAO"]),
    "AuxWaypoint": dict(scal=[("x", "f"), ("y", "f")], refs=[], chain=["AuxWaypointDAO"]),
    "AuxTrajectory": dict(scal=[("name", "s")],
                          refs=[R("waypoints", "many", "AuxWaypoint", False, "AuxTrajectoryDAO", lens=[0, 0, 0, 1, 2])],
                          chain=["AuxTrajectoryDAO"]),
    "AuxMission": dict(scal=[("label", "s")],
                       refs=[R("trajectory", "one", "AuxTrajectory", False, "AuxMissionDAO"),
                             R("fallback", "one", "AuxTrajectory", True, "AuxMissionDAO")],
                       chain=["AuxMissionDAO"]),
    "AuxSchedule": dict(scal=[], refs=[R("missions", "many", "AuxMission", False, "AuxScheduleDAO", lens=[1, 2, 3, 4]),
                                       R("spares", "many", "AuxTrajectory", False, "AuxScheduleDAO", lens=[0, 1, 2])],
                        chain=["AuxScheduleDAO"]),
    # an alternatively mapped class whose mapping stores RELATIONSHIPS under other names, and a normally mapped
    # subclass of it (from_dao rebuilds the parent through a temporary parent DAO to get mount / tags back)
    "AuxFrame": dict(scal=[("name", "s")], refs=[], chain=["AuxFrameDAO"]),
    "AuxTag": dict(scal=[("text", "s")], refs=[], chain=["AuxTagDAO"]),
    "AuxSensor": dict(scal=[("name", "s")],
                      refs=[R("mount", "one", "AuxFrame", False, "AuxSensorMappingDAO", dao_name="mounting_frame"),
                            R("tags", "many", "AuxTag", False, "AuxSensorMappingDAO", dao_name="labels", lens=[0, 1, 2, 2, 3])],
                      chain=["AuxSensorMappingDAO"], kind="alt", mapping="AuxSensorMapping"),
    "AuxCamera": dict(scal=[("name", "s"), ("resolution", "i")],
                      refs=[R("mount", "one", "AuxFrame", False, "AuxSensorMappingDAO", dao_name="mounting_frame"),
                            R("tags", "many", "AuxTag", False, "AuxSensorMappingDAO", dao_name="labels", lens=[0, 1, 2, 2, 3]),
                            R("housing", "one", "AuxFrame", True, "AuxCameraDAO")],
                      chain=["AuxCameraDAO", "AuxSensorMappingDAO"], kind="sub", mapping="AuxCameraDAO", pf=(1, 2)),
    "AuxRig": dict(scal=[], refs=[R("sensors", "many", "AuxSensor", False, "AuxRigDAO", lens=[1, 2, 2, 3, 4]),
                                  R("main", "one", "AuxSensor", True, "AuxRigDAO")],
                   chain=["AuxRigDAO"]),
    # function objects: alternatively mapped by krrood's own FunctionMapping (module, name, owning class); a function
    # is ONE object however often it is referenced, so a heap holds at most one node per function
    "function": dict(scal=[("qualname", "fn")], refs=[], chain=["FunctionMappingDAO"], kind="alt",
                     mapping="FunctionMapping"),
    "AuxJob": dict(scal=[("name", "s")], refs=[R("action", "one", "function", False, "AuxJobDAO"),
                                               R("fallback", "one", "function", True, "AuxJobDAO")],
                   chain=["AuxJobDAO"]),
    "AuxPipeline": dict(scal=[], refs=[R("jobs", "many", "AuxJob", False, "AuxPipelineDAO", lens=[1, 2, 3, 4]),
                                       R("on_error", "one", "function", True, "AuxPipelineDAO")],
                        chain=["AuxPipelineDAO"]),
    # mapped root <- unmapped class <- mapped class <- unmapped class <- mapped class
    "AuxDevice": dict(scal=[("name", "s"), ("serial", "i")], refs=[], chain=["AuxDeviceDAO"]),
    "AuxScanner": dict(scal=[("name", "s"), ("serial", "i"), ("resolution", "i")], refs=[],
                       chain=["AuxScannerDAO", "AuxDeviceDAO"]),
    "AuxTurboScanner": dict(scal=[("name", "s"), ("serial", "i"), ("resolution", "i"), ("wavelength", "f")], refs=[],
                            chain=["AuxTurboScannerDAO", "AuxScannerDAO", "AuxDeviceDAO"]),
    # F-C04-3: two levels below the renaming AuxSensorMapping: from_dao only looks at the DIRECT base for the
    # alternatively mapped parent, so name / mount / tags never reach the constructor (deep=True)
    "AuxStereoCamera": dict(scal=[("name", "s"), ("resolution", "i"), ("baseline", "f")],
                            refs=[R("mount", "one", "AuxFrame", False, "AuxSensorMappingDAO", dao_name="mounting_frame"),
                                  R("tags", "many", "AuxTag", False, "AuxSensorMappingDAO", dao_name="labels", lens=[0, 1, 2, 2, 3]),
                                  R("housing", "one", "AuxFrame", True, "AuxCameraDAO")],
                            chain=["AuxStereoCameraDAO", "AuxCameraDAO", "AuxSensorMappingDAO"], kind="sub",
                            mapping="AuxStereoCameraDAO", pf=(1, 2), deep=True),
    # name-preserving mapping; the middle class AuxLensCam declares the relationships
    "AuxGadget": dict(scal=[("name", "s"), ("runtime_handle", "i0")], refs=[], chain=["AuxGadgetMappingDAO"],
                      kind="alt", mapping="AuxGadgetMapping"),
    "AuxLensCam": dict(scal=[("name", "s"), ("runtime_handle", "i0")],
                       refs=[R("lenses", "many", "AuxTag", False, "AuxLensCamDAO", lens=[0, 1, 2, 2, 3]),
                             R("bracket", "one", "AuxFrame", True, "AuxLensCamDAO")],
                       chain=["AuxLensCamDAO", "AuxGadgetMappingDAO"], kind="sub", mapping="AuxLensCamDAO", pf=(0, 0)),
    "AuxStereoCam": dict(scal=[("name", "s"), ("runtime_handle", "i0"), ("baseline", "f")],
                         refs=[R("lenses", "many", "AuxTag", False, "AuxLensCamDAO", lens=[0, 1, 2, 2, 3]),
                               R("bracket", "one", "AuxFrame", True, "AuxLensCamDAO"),
                               R("partner", "one", "AuxFrame", True, "AuxStereoCamDAO")],
                         chain=["AuxStereoCamDAO", "AuxLensCamDAO", "AuxGadgetMappingDAO"], kind="sub",
                         mapping="AuxStereoCamDAO", pf=(0, 0), deep=True),
    "AuxKit": dict(scal=[], refs=[R("gadgets", "many", "AuxGadget", False, "AuxKitDAO", lens=[1, 2, 2, 3, 4]),
                                  R("main", "one", "AuxGadget", True, "AuxKitDAO")],
                   chain=["AuxKitDAO"]),
    # JSON columns with same-named value classes from two modules
    "AuxShelf": dict(scal=[("name", "s"), ("outline", "xg"), ("lid", "xs"), ("bins", "lxs"), ("plates", "lxg")], refs=[],
                     chain=["AuxShelfDAO"]),
    # every scalar column kind, plain and Optional (None / falsy / truthy values)
    "AuxSwitch": dict(scal=[("label", "s"), ("enabled", "b"), ("level", "i"), ("gain", "f"), ("mode", "xenum"),
                            ("frame_type", "xtype"), ("opt_label", "os"), ("opt_enabled", "ob"), ("opt_level", "oi"),
                            ("opt_gain", "of"), ("opt_mode", "oxenum"), ("notes", "ls0"), ("retries", "oi"), ("trim", "of"),
                            ("note", "os"), ("armed", "ob"), ("fallback_mode", "oxenum")],
                      refs=[], chain=["AuxSwitchDAO"]),
    "AuxPanel": dict(scal=[], refs=[R("switches", "many", "AuxSwitch", False, "AuxPanelDAO", lens=[1, 2, 2, 3]),
                                    R("master", "one", "AuxSwitch", True, "AuxPanelDAO")],
                     chain=["AuxPanelDAO"]),
    "AuxClub": dict(scal=[("name", "s")], refs=[R("link", "one", "AuxLink", True, "AuxClubMappingDAO")],
                    chain=["AuxClubMappingDAO"], kind="alt", mapping="AuxClubMapping"),
    "AuxLink": dict(scal=[("label", "s")], refs=[R("club", "one", "AuxClub", True, "AuxLinkDAO"),
                                                 R("registry", "one", "AuxRegistry", True, "AuxLinkDAO")],
                    chain=["AuxLinkDAO"]),
    "AuxRegistry": dict(scal=[], refs=[R("clubs", "many", "AuxClub", False, "AuxRegistryDAO", lens=[2, 2, 3, 3, 4]),
                                       R("chair", "one", "AuxClub", True, "AuxRegistryDAO")],
                        chain=["AuxRegistryDAO"]),
    "AuxWorkbench": dict(scal=[("label", "s")],
                         refs=[R("devices", "many", "AuxDevice", False, "AuxWorkbenchDAO", lens=[1, 2, 3, 4]),
                               R("primary", "one", "AuxDevice", True, "AuxWorkbenchDAO")],
                         chain=["AuxWorkbenchDAO"]),
})


def extras_of(cls: str, scal: str) -> List[Tuple[str, int]]:
    """rows an object contributes beyond its own chain: the sub-objects its mapping creates on the fly"""
    if cls == "AuxPolyline":
        text = dict(parse_scal(scal)).get("coordinates", "[]")
        k = 0 if text == "[]" else (text.count(";") + 1) // 2
        return [("AuxPointDAO", k), ("auxpolylinemappingdao_points_association", k)] if k else []
    return []


# the intermediate mapping instances (only ever visible in a result when F-C04-1 strikes)
MAPPING_SCHEMA: Dict[str, Dict[str, Any]] = {
    "CustomEntity": dict(scal=[("overwritten_name", "s")], refs=[]),
    "BackreferenceMapping": dict(scal=[("values", "li")], refs=[R("reference", "one", "Reference", True, "")]),
    "VectorMapped": dict(scal=[("x", "f")], refs=[]),
    "TransformationMapped": dict(scal=[], refs=[R("vector", "one", "Vector", False, ""), R("rotation", "one", "Rotation", True, "")]),
    "VectorsWithPropertyMapped": dict(scal=[], refs=[R("vectors", "many", "Vector", False, "")]),
    "AuxGadgetMapping": dict(scal=[("name", "s")], refs=[]),
    "AuxClubMapping": dict(scal=[("name", "s")], refs=[R("link", "one", "AuxLink", True, "")]),
    "FunctionMapping": dict(scal=[("module_name", "s"), ("function_name", "s"), ("class_name", "s")], refs=[]),
    "AuxSensorMapping": dict(scal=[("identifier", "s")], refs=[R("mounting_frame", "one", "AuxFrame", False, ""),
                                                               R("labels", "many", "AuxTag", False, "")]),
}
for _c, _d in SCHEMA.items():
    _d.setdefault("kind", "plain")
    _d.setdefault("mapping", "-")

SUBCLASSES = {
    "Position": ["Position", "Position4D", "Position5D"],
    "KinematicChain": ["KinematicChain", "Torso"],
    "Entity": ["Entity", "DerivedEntity"],
    "Rotation": [],  # RotationMapped.create_from_dao returns None in the dataset: not a round-tripping pair
    "AuxSensor": ["AuxSensor", "AuxCamera", "AuxCamera", "AuxCamera", "AuxCamera", "AuxCamera", "AuxStereoCamera"],
    "AuxGadget": ["AuxGadget", "AuxLensCam", "AuxStereoCam", "AuxStereoCam"],
    "AuxDevice": ["AuxDevice", "AuxScanner", "AuxTurboScanner"],
}


def concrete(target: str) -> List[str]:
    return SUBCLASSES.get(target, [target])


def view_scalars(cls: str, scal: Dict[str, Any]) -> Dict[str, Any]:
    """what ``create_instance`` of the dataset's mapping shows as DAO columns (a parameter of the model)"""
    if cls == "Entity":
        return {"overwritten_name": scal["name"]}
    if cls == "DerivedEntity":
        return {"overwritten_name": scal["name"], "description": scal["description"]}
    if cls == "Backreference":
        return {"values": list(scal["unmappable"].values())}
    if cls == "Vector":
        return {"x": scal["x"]}
    if cls == "function":
        q = scal["qualname"][1]
        return {"module_name": AUX_MODULE, "function_name": q.split(".")[-1],
                "class_name": q.split(".")[0] if "." in q else None}
    if cls == "AuxSensor":
        return {"identifier": scal["name"]}
    if cls == "AuxCamera":
        return {"identifier": scal["name"], "resolution": scal["resolution"]}
    if cls == "AuxStereoCamera":
        return {"identifier": scal["name"], "resolution": scal["resolution"], "baseline": scal["baseline"]}
    if cls in ("AuxGadget", "AuxLensCam", "AuxClub"):
        return {"name": scal["name"]}
    if cls == "AuxStereoCam":
        return {"name": scal["name"], "baseline": scal["baseline"]}
    if cls == "AuxPolyline":
        c = scal["coordinates"]
        return {"name": scal["name"], "points": [[c[i], c[i + 1]] for i in range(0, len(c), 2)]}
    return {}


# ------------------------------------------------------------------------------------------------------------------
# scalar codec: value <-> text with exact types (the observation compares values AND types)

import datetime as _dt
import uuid as _uuid

# (hex strings with letters: an all-digit hex string is coerced to a number by SQLite's column affinity -- a
# SQLAlchemy/SQLite matter outside krrood, with probability (10/16)^32 for a random UUID)
_UUIDS = [_uuid.UUID(h) for h in ("a1b2c3d4e5f60718293a4b5c6d7e8f90", "0f1e2d3c4b5a69788796a5b4c3d2e1f0",
                                   "deadbeefdeadbeefdeadbeefdeadbeef", "00000000000000000000000000000abc")]
_DTS = [_dt.datetime(2020, 1, 2, 3, 4, 5), _dt.datetime(1999, 12, 31, 23, 59, 59, 123456), _dt.datetime(2031, 6, 15, 0, 0, 0)]
_STRS = ["", "a", "b", "Ab9", "torso_1"]
_FLOATS = [0.0, 1.0, -2.5, 3.25, 1e10, 0.1]
_INTS = [0, 1, -3, 7, 123456789]
_TYPES = ["Position", "Position4D", "Orientation", "Pose"]
_AUX_TYPES = ["AuxFrame", "AuxTag", "AuxWaypoint"]


def enc(v: Any) -> str:
    import enum
    import types
    if v is None:
        return "N"
    if v is True:
        return "bT"
    if v is False:
        return "bF"
    if type(v) is int:
        return f"i{v}"
    if type(v) is float:
        return "f" + repr(v)
    if type(v) is str:
        return "s" + v
    if isinstance(v, enum.Enum):
        return f"e{type(v).__name__}.{v.name}"
    if type(v) is _dt.datetime:
        return "d" + v.isoformat()
    if type(v) is _uuid.UUID:
        return "u" + v.hex
    if isinstance(v, type):
        return "T" + v.__name__
    if isinstance(v, list):
        return "[" + ";".join(enc(x) for x in v) + "]"
    if isinstance(v, (tuple, set, frozenset)):
        return type(v).__name__ + "[" + ";".join(enc(x) for x in v) + "]"
    if isinstance(v, dict):
        return "{" + ";".join(f"{enc(k)}:{enc(x)}" for k, x in v.items()) + "}"
    if type(v).__name__ != "JSONSerializableClass" and any(b.__name__ == "SubclassJSONSerializer" for b in type(v).__mro__):
        import dataclasses as _dc
        if _dc.is_dataclass(v):  # module-qualified: two classes may share their simple name
            return ("X" + type(v).__module__ + "." + type(v).__name__ + "{"
                    + ";".join(f"{f.name}:{enc(getattr(v, f.name, None))}" for f in _dc.fields(v)) + "}")
    if type(v).__name__ == "JSONSerializableClass":
        return f"J{enc(v.a)}/{enc(v.b)}"
    if type(v).__name__ in ("Cup", "Bowl", "PhysicalObject"):
        return "P" + type(v).__name__
    if isinstance(v, types.FunctionType):
        return "F" + v.__qualname__
    return "?" + type(v).__name__


def dec(s: str, ex) -> Any:
    """inverse of enc on the values the generator produces (ex = the example_classes module)"""
    v, rest = _dec(s, ex)
    if rest:
        raise ValueError(f"trailing text in scalar {s!r}")
    return v


def _dec_atom_end(s: str) -> int:
    i = 0
    while i < len(s) and s[i] not in ";]}:/":
        i += 1
    return i


def _dec(s: str, ex):
    c = s[0]
    if c == "[":
        out = []
        s = s[1:]
        while s[0] != "]":
            v, s = _dec(s, ex)
            out.append(v)
            if s[0] == ";":
                s = s[1:]
        return out, s[1:]
    if c == "{":
        out = {}
        s = s[1:]
        while s[0] != "}":
            k, s = _dec(s, ex)
            v, s = _dec(s[1:], ex)
            out[k] = v
            if s[0] == ";":
                s = s[1:]
        return out, s[1:]
    if c == "X":  # Xmodule.Class{field:value;...}
        j = s.index("{")
        mod_name, cls_name = s[1:j].rsplit(".", 1)
        kwargs = {}
        s = s[j + 1:]
        while s[0] != "}":
            k = s.index(":")
            name = s[:k]
            v, s = _dec(s[k + 1:], ex)
            kwargs[name] = v
            if s[0] == ";":
                s = s[1:]
        return getattr(sys.modules[mod_name], cls_name)(**kwargs), s[1:]
    if c == "J":
        a, s = _dec(s[1:], ex)
        b, s = _dec(s[1:], ex)
        return ex.JSONSerializableClass(a, b), s
    if c == "d":  # iso datetimes contain ':'
        j = 1
        while j < len(s) and s[j] not in ";]}/":
            j += 1
        return _dt.datetime.fromisoformat(s[1:j]), s[j:]
    j = _dec_atom_end(s)
    tok, rest = s[:j], s[j:]
    body = tok[1:]
    if tok == "N":
        return None, rest
    if tok == "bT":
        return True, rest
    if tok == "bF":
        return False, rest
    if c == "i":
        return int(body), rest
    if c == "f":
        return float(body), rest
    if c == "s":
        return body, rest
    if c == "e":
        cn, mn = body.split(".")
        return (getattr(ex, cn, None) or getattr(sys.modules[AUX_MODULE], cn))[mn], rest
    if c == "u":
        return _uuid.UUID(hex=body), rest
    if c == "F":  # a function of the auxiliary module, by qualified name
        target = sys.modules[AUX_MODULE]
        for part in body.split("."):
            target = getattr(target, part)
        return target, rest
    if c == "T" or c == "P":
        cls = getattr(ex, body, None) or getattr(sys.modules[AUX_MODULE], body)
        return (cls if c == "T" else cls()), rest
    raise ValueError(f"cannot decode scalar {s!r}")


def gen_scalar(rng, kind: str):
    if kind == "f":
        return rng.choice(_FLOATS)
    if kind == "f0":
        return 0  # the dataset's CustomEntity mapping drops this field: only its default (the int 0) round-trips
    if kind == "of":
        return rng.choice([None, None] + _FLOATS)
    if kind == "i":
        return rng.choice(_INTS)
    if kind == "s":
        return rng.choice(_STRS)
    if kind == "b":
        return rng.choice([False, True])
    if kind == "ob":
        return rng.choice([None, False, False, True])
    if kind == "oi":
        return rng.choice([None, 0, 0] + _INTS)
    if kind == "os":
        return rng.choice([None, "", ""] + _STRS)
    if kind == "xenum":
        return ("xenum", rng.choice(["OFF", "OFF", "ON", "AUTO"]))
    if kind == "oxenum":
        return rng.choice([None, ("xenum", "OFF"), ("xenum", "OFF"), ("xenum", "ON"), ("xenum", "AUTO")])
    if kind == "xtype":
        return ("type", rng.choice(_AUX_TYPES))
    if kind == "oxtype":
        return rng.choice([None, None] + [("type", t) for t in _AUX_TYPES])
    if kind == "ls0":  # a list of strings that may hold the empty string
        return [rng.choice(_STRS) for _ in range(rng.choice([0, 0, 1, 2, 3]))]
    if kind == "ls":
        return [rng.choice(_STRS[1:]) for _ in range(rng.choice([0, 0, 1, 2, 3]))]
    if kind == "li":
        return [rng.choice(_INTS) for _ in range(rng.choice([0, 1, 2]))]
    if kind == "li0":
        return []
    if kind == "fn":
        return ("fn", rng.choice(FUNCTION_POOL))
    if kind == "i0":
        return 0  # dropped by the (name-preserving) mapping: only its default round-trips
    if kind == "xg":
        return ("xg", rng.choice(_FLOATS), rng.choice(_FLOATS))
    if kind == "xs":
        return ("xs", rng.choice(_STRS), rng.choice(_INTS))
    if kind == "lxg":
        return [("xg", rng.choice(_FLOATS), rng.choice(_FLOATS)) for _ in range(rng.choice([0, 1, 2]))]
    if kind == "lxs":
        return [("xs", rng.choice(_STRS), rng.choice(_INTS)) for _ in range(rng.choice([0, 1, 2, 3]))]
    if kind == "lf2":  # flat list of 2k floats (k vertices)
        return [rng.choice(_FLOATS + [2.0, 5.5, -7.0]) for _ in range(2 * rng.choice([0, 1, 2, 2, 3, 4]))]
    if kind == "enum":
        return ("enum", rng.choice(["C", "H"]))
    if kind == "dt":
        return rng.choice(_DTS)
    if kind == "uuid":
        return rng.choice(_UUIDS)
    if kind == "luuid":
        return [rng.choice(_UUIDS) for _ in range(rng.choice([0, 1, 2]))]
    if kind == "json":
        return ("json", rng.choice(_FLOATS), rng.choice(_FLOATS))
    if kind == "ljson":
        return [("json", rng.choice(_FLOATS), rng.choice(_FLOATS)) for _ in range(rng.choice([0, 1, 2]))]
    if kind == "type":
        return ("type", rng.choice(_TYPES))
    if kind == "dii":
        ks = rng.sample([1, 2, 5, 9], rng.choice([0, 1, 2]))
        return {k: k for k in ks}
    if kind == "concept":
        return ("concept", rng.choice(["Cup", "Bowl"]))
    raise ValueError(kind)


def enc_gen(v: Any) -> str:
    """encode a generator-side value (tuples stand for values whose classes live in the dataset module)"""
    if isinstance(v, tuple):
        if v[0] == "enum":
            return f"eElement.{v[1]}"
        if v[0] == "xenum":
            return f"eAuxMode.{v[1]}"
        if v[0] == "json":
            return f"J{enc(v[1])}/{enc(v[2])}"
        if v[0] == "type":
            return "T" + v[1]
        if v[0] == "concept":
            return "P" + v[1]
        if v[0] == "fn":
            return "F" + v[1]
        if v[0] == "xg":
            return "Xverif_aux_geometry.Box{width:%s;height:%s}" % (enc(v[1]), enc(v[2]))
        if v[0] == "xs":
            return "Xverif_aux_storage.Box{label:%s;capacity:%s}" % (enc(v[1]), enc(v[2]))
    if isinstance(v, list):
        return "[" + ";".join(enc_gen(x) for x in v) + "]"
    if isinstance(v, dict):
        return "{" + ";".join(f"{enc_gen(k)}:{enc_gen(x)}" for k, x in v.items()) + "}"
    return enc(v)


def scal_text(names_values: List[Tuple[str, str]]) -> str:
    return ",".join(f"{n}={t}" for n, t in names_values)


def parse_scal(text: str) -> List[Tuple[str, str]]:
    """split 'a=..,b=..' at top level commas (values never contain commas)"""
    if not text:
        return []
    out = []
    for part in text.split(","):
        n, t = part.split("=", 1)
        out.append((n, t))
    return out


# ------------------------------------------------------------------------------------------------------------------
# abstract heap + case lines
# heap: {"nodes": [ {cls, scal: text, refs: [None | int | [int...]]} ], "roots": [oid...], "via": k}


def node_line(i: int, n: Dict[str, Any]) -> str:
    sch = SCHEMA[n["cls"]]
    parts = [f"(n {i} {n['cls']} {sch['kind']} \"{n['scal']}\" {sch['mapping']} \"{n['view']}\"",
             "(tabs " + " ".join(sch["chain"]) + ")"]
    for t, k in extras_of(n["cls"], n["scal"]):
        parts.append(f"(extra {t} {k})")
    if "pf" in sch:  # kind sub: leading scalars / references that from_dao takes from the rebuilt parent
        parts.append(f"(pf {sch['pf'][0]} {sch['pf'][1]}" + (" deep" if sch.get("deep") else "") + ")")
    for spec, r in zip(sch["refs"], n["refs"]):
        star = f"! {spec['decl']}.{spec['dao_name']}_id" if spec["star"] else ""
        if spec["kind"] == "many":
            assoc = f"{spec['decl'].lower()}_{spec['dao_name']}_association"
            parts.append("(many " + assoc + "".join(f" {t}" for t in r) + ")")
        elif r is None:
            parts.append(f"(none{star})")
        else:
            parts.append(f"(one{star} {r})")
    return " ".join(parts) + ")"


def heap_line(heap: Dict[str, Any]) -> str:
    tries = f" (tries {heap['tries']})" if heap.get("tries", 1) > 1 else ""
    if heap.get("again", 0):
        tries += f" (again {heap['again']})"
    if heap.get("hist"):
        tries += " (hist " + " ".join("(" + " ".join(map(str, st)) + ")" for st in heap["hist"]) + ")"
    return ("(g (roots " + " ".join(map(str, heap["roots"])) + f") (via {heap.get('via', 0)}){tries} "
            + " ".join(node_line(i, n) for i, n in enumerate(heap["nodes"])) + ")")


def _sexp(line: str):
    toks = []
    i, n = 0, len(line)
    while i < n:
        c = line[i]
        if c in "()":
            toks.append(c)
            i += 1
        elif c.isspace():
            i += 1
        elif c == '"':
            j = line.index('"', i + 1)
            toks.append(("str", line[i + 1:j]))
            i = j + 1
        else:
            j = i
            while j < n and not line[j].isspace() and line[j] not in "()":
                j += 1
            toks.append(line[i:j])
            i = j

    def rd(k):
        if toks[k] == "(":
            out = []
            k += 1
            while toks[k] != ")":
                x, k = rd(k)
                out.append(x)
            return out, k + 1
        t = toks[k]
        return (t[1] if isinstance(t, tuple) else t), k + 1

    return rd(0)[0]


def parse_heap(line: str) -> Dict[str, Any]:
    s = _sexp(line)
    assert s[0] == "g"
    heap: Dict[str, Any] = {"nodes": [], "roots": [], "via": 0}
    for item in s[1:]:
        if item[0] == "roots":
            heap["roots"] = [int(x) for x in item[1:]]
        elif item[0] == "via":
            heap["via"] = int(item[1])
        elif item[0] == "tries":
            # harness only: repeat the conversion up to n times and report the first run that deviates from the input
            # (the way to observe an allocation dependent, i.e. nondeterministic, defect on a fixed witness)
            heap["tries"] = int(item[1])
        elif item[0] == "again":
            # harness only (C05): history after the first reload -- the application edits every mutable JSON-column
            # value of the reloaded objects IN MEMORY (nothing is written), then the same rows are loaded again in a
            # fresh session, n times. The database is unchanged, so the property demands the same graph every time.
            heap["again"] = int(item[1])
        elif item[0] == "hist":
            # harness only (see apply_history): conversions that ran in the same process BEFORE the observed one
            heap["hist"] = [[st[0]] + [int(x) for x in st[1:]] for st in item[1:]]
        elif item[0] == "n":
            _, oid, cls, _kind, scal, _mapping, view, _tabs, *refs = item
            assert int(oid) == len(heap["nodes"])
            rr = []
            for r in refs:
                tag = r[0].rstrip("!")
                if tag in ("extra", "pf"):  # derived from the class (and scalars)
                    continue
                if tag == "none":
                    rr.append(None)
                elif tag == "one":
                    rr.append(int(r[-1]))
                else:
                    rr.append([int(x) for x in r[2:]])
            heap["nodes"].append({"cls": cls, "scal": scal, "view": view, "refs": rr})
    return heap


def reachable(heap, roots=None) -> List[int]:
    """DFS preorder from the roots (the numbering the canonical form uses)"""
    seen: Dict[int, int] = {}
    order: List[int] = []
    stack = list(reversed(roots if roots is not None else heap["roots"]))
    # explicit preorder identical to the recursive definition: visit node, then its targets left to right
    def visit(o):
        work = [o]
        while work:
            x = work.pop()
            if x in seen:
                continue
            seen[x] = len(order)
            order.append(x)
            tg: List[int] = []
            for r in heap["nodes"][x]["refs"]:
                if r is None:
                    continue
                tg.extend([r] if isinstance(r, int) else r)
            work.extend(reversed(tg))
    for r in (roots if roots is not None else heap["roots"]):
        visit(r)
    return order


def prune(heap, roots=None, via=None) -> Dict[str, Any]:
    """sub-heap reachable from the roots, renumbered in DFS order"""
    roots = roots if roots is not None else heap["roots"]
    order = reachable(heap, roots)
    idx = {o: i for i, o in enumerate(order)}
    nodes = []
    for o in order:
        n = heap["nodes"][o]
        rr = []
        for r in n["refs"]:
            rr.append(None if r is None else idx[r] if isinstance(r, int) else [idx[t] for t in r])
        nodes.append({"cls": n["cls"], "scal": n["scal"], "view": n["view"], "refs": rr})
    out = {"nodes": nodes, "roots": [idx[r] for r in roots], "via": heap.get("via", 0) if via is None else via}
    if heap.get("tries", 1) > 1:
        out["tries"] = heap["tries"]
    if heap.get("again", 0):
        out["again"] = heap["again"]
    hist = [[st[0], idx[st[1]]] + list(st[2:]) for st in heap.get("hist", []) if st[1] in idx]
    if hist:
        out["hist"] = hist
    return out


# ------------------------------------------------------------------------------------------------------------------
# generator


ROOT_WEIGHTS = [
    ("Pose", 3), ("Positions", 3), ("PositionsSubclassWithAnotherPosition", 2), ("DoublePositionAggregator", 4),
    ("Node", 5), ("Torso", 6), ("EntityAssociation", 2), ("Reference", 4), ("Backreference", 4),
    ("AlternativeMappingAggregator", 4), ("ItemWithBackreference", 3), ("ContainerGeneration", 4), ("Shape", 2),
    ("Shapes", 2), ("MoreShapes", 3), ("VectorsWithProperty", 2), ("Transformation", 1), ("RelationshipChild", 1),
    ("RelationshipParent", 1), ("ObjectAnnotation", 1), ("Atom", 1), ("UUIDWrapper", 1), ("JSONWrapper", 1),
    ("PositionTypeWrapper", 1), ("MultipleInheritance", 1), ("PrivateDefaultFactory", 1), ("ChildMapped", 1),
    ("Parent", 1), ("OriginalSimulatedObject", 1), ("Position5D", 1), ("DerivedEntity", 1), ("Orientation", 1),
    ("AuxDrawing", 5), ("AuxSchedule", 5), ("AuxMission", 2), ("AuxTrajectory", 1), ("AuxPolyline", 1),
    ("AuxRig", 6), ("AuxCamera", 3), ("AuxSensor", 1),
    ("AuxPipeline", 6), ("AuxJob", 2), ("AuxWorkbench", 6), ("AuxScanner", 1), ("AuxTurboScanner", 1),
    ("AuxKit", 6), ("AuxStereoCam", 2), ("AuxLensCam", 1), ("AuxShelf", 4), ("AuxStereoCamera", 1),
    ("AuxPanel", 8), ("AuxClub", 5), ("AuxRegistry", 2), ("AuxLink", 2),
]


def _mk_node(rng, cls: str, twins: Optional[List[Dict[str, Any]]] = None) -> Dict[str, Any]:
    sch = SCHEMA[cls]
    same = [t for t in (twins or []) if t["cls"] == cls]
    if same and rng.random() < 0.3:
        # value-equal but distinct object (dataclass == cannot tell it from its twin; the memo tables must)
        t = rng.choice(same)
        return {"cls": cls, "scal": t["scal"], "view": t["view"],
                "refs": [None if r["kind"] == "one" else [] for r in sch["refs"]]}
    vals = {name: gen_scalar(rng, kind) for name, kind in sch["scal"]}
    scal = scal_text([(n, enc_gen(vals[n])) for n, _ in sch["scal"]])
    view = scal_text([(n, enc_gen(v)) for n, v in view_scalars(cls, vals).items()])
    return {"cls": cls, "scal": scal, "view": view, "refs": [None if r["kind"] == "one" else [] for r in sch["refs"]]}


MAX_SELFHIER = 6  # at most this many Node objects per heap (keeps the set of admissible flush orders small)
MAX_SUB = 4  # at most this many objects below an alternatively mapped DAO per heap (outcomes of F-C04-2: <= 4! = 24)


def gen_heap(rng, max_nodes: int = 12, p_reuse: float = 0.45, p_none: float = 0.3, seed_cls: Optional[str] = None,
             p_dup: float = 0.5) -> Dict[str, Any]:
    """A random heap over SCHEMA grown from one seed class: new targets are created until the node budget is spent,
    existing compatible nodes are re-used with probability p_reuse (sharing, back references, cycles, duplicates
    inside lists -- kept with probability p_dup per list), optional fields are None with probability p_none, lists
    may be empty."""
    names = [c for c, w in ROOT_WEIGHTS for _ in range(w)]
    nodes: List[Dict[str, Any]] = []
    todo: List[int] = []

    def new(cls):
        nodes.append(_mk_node(rng, cls, nodes))
        todo.append(len(nodes) - 1)
        return len(nodes) - 1

    def pick(target: str, forbid=()) -> Optional[int]:
        if target == "function":  # one node per function object
            fresh = _mk_node(rng, "function")
            for i, n in enumerate(nodes):
                if n["cls"] == "function" and n["scal"] == fresh["scal"]:
                    return i
            nodes.append(fresh)
            return len(nodes) - 1
        cands = [i for i, n in enumerate(nodes) if n["cls"] in concrete(target) and i not in forbid]
        full = len(nodes) >= max_nodes or (target == "Node" and len(cands) >= MAX_SELFHIER)
        if cands and (rng.random() < p_reuse or full):
            return rng.choice(cands)
        if full or not concrete(target):
            return None
        cls = rng.choice(concrete(target))
        if SCHEMA[cls]["kind"] == "sub" and sum(1 for n in nodes if SCHEMA[n["cls"]]["kind"] == "sub") >= MAX_SUB:
            subs = [i for i in cands if SCHEMA[nodes[i]["cls"]]["kind"] == "sub"]
            return rng.choice(subs) if subs else None
        return new(cls)

    new(seed_cls or rng.choice(names))
    # a second seed of the same family now and then (forests for Node, several aggregators over shared positions)
    while todo:
        i = todo.pop(rng.randrange(len(todo)))
        n = nodes[i]
        for k, spec in enumerate(SCHEMA[n["cls"]]["refs"]):
            if spec["kind"] == "one":
                if spec["nullable"] and rng.random() < p_none:
                    continue
                t = pick(spec["target"])
                if t is None and not spec["nullable"]:
                    cands = [j for j, m in enumerate(nodes) if m["cls"] in concrete(spec["target"])]
                    if cands:
                        t = rng.choice(cands)
                    elif concrete(spec["target"]):
                        t = new(rng.choice(concrete(spec["target"])))
                n["refs"][k] = t
            else:
                ln = rng.choice(spec["lens"])
                lst: List[int] = []
                for _ in range(ln):
                    if lst and rng.random() < 0.25:
                        lst.append(rng.choice(lst))  # duplicate inside the list
                        continue
                    t = pick(spec["target"])
                    if t is not None:
                        lst.append(t)
                n["refs"][k] = lst
    for n in nodes:
        for k, r in enumerate(n["refs"]):
            if isinstance(r, list) and len(set(r)) < len(r) and rng.random() >= p_dup:
                n["refs"][k] = list(dict.fromkeys(r))  # this list holds every object once
    _repair_invariants(rng, nodes)
    return {"nodes": nodes, "roots": [0], "via": 0}


def gen_alt_ring(rng) -> Dict[str, Any]:
    """k alternatively mapped objects chained through plain link objects (club_0 -> link_0 -> club_1 -> ... ), one or
    two plain holders hanging off some links that reference SEVERAL of the clubs through one collection (any subset of
    size >= 2 in any order, sometimes a duplicate or a club outside the chain) and optionally one of them through a
    single-valued field; the chain may close into a ring. Every node is later tried as entry point, so the clubs of a
    collection are finished / in progress in every combination when the collection is parsed."""
    k = rng.choice([2, 2, 3, 3, 4])
    nodes: List[Dict[str, Any]] = []

    def mk(cls):
        nodes.append(_mk_node(rng, cls))
        return len(nodes) - 1

    clubs = [mk("AuxClub") for _ in range(k)]
    links = [mk("AuxLink") for _ in range(k)]
    for i in range(k):
        nodes[clubs[i]]["refs"][0] = links[i]
        if i + 1 < k:
            nodes[links[i]]["refs"][0] = clubs[i + 1]
    if rng.random() < 0.4:
        nodes[links[-1]]["refs"][0] = clubs[rng.randrange(k)]  # close the ring somewhere
    holders = [mk("AuxRegistry") for _ in range(rng.choice([1, 1, 2]))]
    for hld in holders:
        pool = list(clubs)
        if rng.random() < 0.3:
            pool.append(mk("AuxClub"))  # a club outside the chain
        members = rng.sample(pool, rng.randint(2, len(pool)))
        rng.shuffle(members)
        if rng.random() < 0.2:
            members.append(rng.choice(members))
        nodes[hld]["refs"][0] = members
        if rng.random() < 0.4:
            nodes[hld]["refs"][1] = rng.choice(pool)
        at = rng.choice([links[-1], links[-1], rng.choice(links)])
        nodes[at]["refs"][1] = hld
    return {"nodes": nodes, "roots": [0], "via": 0}


def _repair_invariants(rng, nodes) -> None:
    """Class invariants established by the dataset's own constructors, which from_dao re-runs:
    ContainerGeneration.__post_init__ sets item.container = self for every item in items."""
    owner: Dict[int, int] = {}
    for i, n in enumerate(nodes):
        if n["cls"] == "ContainerGeneration":
            keep = []
            for t in n["refs"][0]:
                if owner.setdefault(t, i) == i:
                    keep.append(t)
            n["refs"][0] = keep
    for t, c in owner.items():
        nodes[t]["refs"][0] = c


def heap_ok(heap) -> bool:
    """the grammar the properties quantify over: well-typed references + the constructors' invariants"""
    nodes = heap["nodes"]
    for i, n in enumerate(nodes):
        sch = SCHEMA.get(n["cls"])
        if sch is None or len(sch["refs"]) != len(n["refs"]):
            return False
        for spec, r in zip(sch["refs"], n["refs"]):
            if spec["kind"] == "one":
                if r is None:
                    if not spec["nullable"]:
                        return False
                elif not (isinstance(r, int) and 0 <= r < len(nodes) and nodes[r]["cls"] in concrete(spec["target"])):
                    return False
            else:
                if not isinstance(r, list):
                    return False
                for t in r:
                    if not (0 <= t < len(nodes) and nodes[t]["cls"] in concrete(spec["target"])):
                        return False
        if n["cls"] == "ContainerGeneration":
            for t in n["refs"][0]:
                if nodes[t]["refs"][0] != i:
                    return False
    fns = [n["scal"] for n in nodes if n["cls"] == "function"]
    if len(set(fns)) != len(fns):  # a function is one object
        return False
    return all(0 <= r < len(nodes) for r in heap["roots"]) and bool(heap["roots"])


def shrink_heap(heap):
    """one-step smaller heaps (still inside the grammar): drop a list element, null an optional reference,
    redirect the root to a child, simplify scalars -- each followed by pruning to the reachable part"""
    import copy
    out = []
    nodes = heap["nodes"]
    for r in range(len(heap["roots"])):
        if len(heap["roots"]) > 1:
            h = copy.deepcopy(heap)
            del h["roots"][r]
            out.append(h)
    for i, n in enumerate(nodes):
        for k, r in enumerate(n["refs"]):
            if isinstance(r, list):
                for j in range(len(r)):
                    h = copy.deepcopy(heap)
                    del h["nodes"][i]["refs"][k][j]
                    out.append(h)
            elif r is not None and SCHEMA[n["cls"]]["refs"][k]["nullable"]:
                h = copy.deepcopy(heap)
                h["nodes"][i]["refs"][k] = None
                out.append(h)
    if len(heap["roots"]) == 1:
        for i in range(len(nodes)):
            if i != heap["roots"][0]:
                h = copy.deepcopy(heap)
                h["roots"] = [i]
                out.append(h)
    if heap.get("via", 0):
        h = copy.deepcopy(heap)
        h["via"] = 0
        out.append(h)
    if heap.get("again", 0):
        h = copy.deepcopy(heap)
        h["again"] = heap["again"] - 1
        out.append(h)
    for j in range(len(heap.get("hist", []))):
        h = copy.deepcopy(heap)
        del h["hist"][j]
        out.append(h)
    res = []
    seen = set()
    for h in out:
        h = prune(h)
        if heap_ok(h) and len(h["nodes"]) <= len(nodes):
            l = heap_line(h)
            if l not in seen and l != heap_line(heap):
                seen.add(l)
                res.append(h)
    res.sort(key=lambda h: (len(h["nodes"]), len(heap_line(h))))
    return res


def tags_of(heap) -> Tuple[str, ...]:
    nodes = heap["nodes"]
    tags = set()
    indeg: Dict[int, int] = {}
    for n in nodes:
        for spec, r in zip(SCHEMA[n["cls"]]["refs"], n["refs"]):
            if r is None:
                tags.add("none")
            elif isinstance(r, int):
                indeg[r] = indeg.get(r, 0) + 1
                if nodes[r]["cls"] != spec["target"]:
                    tags.add("subclass-in-base-field")
            else:
                if not r:
                    tags.add("empty-list")
                if len(set(r)) < len(r):
                    tags.add("dup-in-list")
                for t in set(r):
                    indeg[t] = indeg.get(t, 0) + 1
                    if nodes[t]["cls"] != spec["target"]:
                        tags.add("subclass-in-base-field")
                    if SCHEMA[nodes[t]["cls"]]["kind"] != "plain":
                        tags.add("alt-in-collection")
        if SCHEMA[n["cls"]]["kind"] == "sub":
            tags.add("below-alt-dao")
            if any(r not in (None, []) for r in n["refs"]):
                tags.add("below-alt-dao-with-relationships")
        if SCHEMA[n["cls"]]["kind"] == "alt":
            tags.add("alt-mapped")
    if sum(1 for n in nodes if n["cls"] == "AuxPolyline" and extras_of(n["cls"], n["scal"])) >= 2:
        tags.add("transient-subobjects")
    for n in nodes:
        for r in n["refs"]:
            if isinstance(r, int) and nodes[r]["cls"] == "AuxTrajectory" and not nodes[r]["refs"][0]:
                tags.add("falsy-in-single-ref")
            if isinstance(r, list) and any(nodes[t]["cls"] == "AuxTrajectory" and not nodes[t]["refs"][0] for t in r):
                tags.add("falsy-in-collection")
    fnames = [dict(parse_scal(n["scal"]))["qualname"].split(".")[-1] for n in nodes if n["cls"] == "function"]
    if fnames:
        tags.add("function-valued")
    if len(set(fnames)) < len(fnames):
        tags.add("same-name-functions")
    if any(n["cls"] in ("AuxScanner", "AuxTurboScanner") for n in nodes):
        tags.add("unmapped-intermediate-class")
    if any(v > 1 for v in indeg.values()):
        tags.add("shared")
    if has_cycle(heap):
        tags.add("cycle")
    seen = set()
    for i, a in enumerate(nodes):
        key = (a["cls"], a["scal"])
        if key in seen:
            tags.add("equal-but-distinct")
        seen.add(key)
    tags.add("depth%d" % min(depth(heap), 6))
    tags.add("root:" + nodes[heap["roots"][0]]["cls"])
    if len(heap["roots"]) > 1:
        tags.add("multi-root")
    for st in heap.get("hist", []):
        tags.add("history")
        tags.add("hist-" + st[0])
    return tuple(sorted(tags))


def _targets(n) -> List[int]:
    out: List[int] = []
    for r in n["refs"]:
        if r is None:
            continue
        out.extend([r] if isinstance(r, int) else r)
    return out


def has_cycle(heap) -> bool:
    color: Dict[int, int] = {}
    nodes = heap["nodes"]

    def dfs(o) -> bool:
        color[o] = 1
        for t in _targets(nodes[o]):
            if color.get(t) == 1:
                return True
            if t not in color and dfs(t):
                return True
        color[o] = 2
        return False

    return any(dfs(r) for r in heap["roots"] if r not in color)


def depth(heap) -> int:
    """longest simple DFS path from the first root (number of nodes)"""
    nodes = heap["nodes"]
    best = 0
    lvl = {heap["roots"][0]: 1}
    queue = [heap["roots"][0]]
    while queue:
        o = queue.pop(0)
        best = max(best, lvl[o])
        for t in _targets(nodes[o]):
            if t not in lvl:
                lvl[t] = lvl[o] + 1
                queue.append(t)
    return best


def altmapped_backedge(heap) -> bool:
    """python twin of the Lean trigger of F-C04-1 (only used to label the distribution, never for verdicts)"""
    nodes = heap["nodes"]
    color: Dict[int, int] = {}
    hit = False

    def dfs(o):
        nonlocal hit
        color[o] = 1
        for t in _targets(nodes[o]):
            if color.get(t) == 1 and SCHEMA[nodes[t]["cls"]]["kind"] == "alt":
                hit = True
            if t not in color:
                dfs(t)
        color[o] = 2

    for r in heap["roots"]:
        if r not in color:
            dfs(r)
    return hit


# ------------------------------------------------------------------------------------------------------------------
# histories: what happened in the process before the observed conversion.  `(hist step…)`, steps in order:
#   (abort i k)  `to_dao(first root)` (default state) is attempted while reference field k of node i holds an object
#                of a class WITHOUT a DAO (single reference: in place of its value; collection: appended), so the
#                conversion is aborted by an exception raised INSIDE it, after every object on the way to node i was
#                registered; the field is restored afterwards (the graph the observed conversion sees is the case's heap);
#   (conv i)     a completed `to_dao(node i)` (default state) whose result is dropped.
# Every top-level conversion of the code under test starts from a fresh ToDAOState, so the property demands - and the
# model (Drive/C04.lean ignores the item: `roundTrip` starts from the empty state) predicts - that a history changes
# nothing: the observed round trip must still be an isomorphic copy of the heap as it is NOW.


class HarnessUnmapped:
    """an object of a class no DAO exists for (never part of the class diagram the ORM is generated from)"""


def gen_history(rng, heap) -> Optional[List[List[Any]]]:
    """1-2 history steps over the nodes of a (pruned) heap"""
    nodes = heap["nodes"]
    spots = [(i, k) for i, n in enumerate(nodes) if n["cls"] != "function" for k in range(len(n["refs"]))]
    steps: List[List[Any]] = []
    for _ in range(rng.choice([1, 1, 2])):
        if spots and (not steps or rng.random() < 0.6) and rng.random() < 0.75:
            # prefer spots reached late (deep / last fields): more of the graph is registered when the exception is raised
            i, k = rng.choice(spots[len(spots) // 2:] if rng.random() < 0.5 else spots)
            steps.append(["abort", i, k])
        else:
            steps.append(["conv", rng.randrange(len(nodes))])
    return steps or None


def apply_history(heap, objs, to_dao) -> None:
    """run the history of the case on the real objects (see above); exceptions of the earlier conversions are theirs"""
    for st in heap.get("hist", []):
        if st[0] == "abort":
            n, o = heap["nodes"][st[1]], objs[st[1]]
            name = SCHEMA[n["cls"]]["refs"][st[2]]["name"]
            old = getattr(o, name)
            object.__setattr__(o, name, (list(old) + [HarnessUnmapped()]) if isinstance(old, list) else HarnessUnmapped())
            try:
                to_dao(objs[heap["roots"][0]])
            except Exception:  # noqa: BLE001  (the documented NoDAOFound… errors; whatever a mapping raises)
                pass
            finally:
                object.__setattr__(o, name, old)
        elif st[0] == "conv":
            try:
                to_dao(objs[st[1]])
            except Exception:  # noqa: BLE001
                pass


# ------------------------------------------------------------------------------------------------------------------
# the heap as real objects, and the canonical form of real object graphs


def build_objects(heap, ex) -> List[Any]:
    objs = []
    for n in heap["nodes"]:
        if n["cls"] == "function":
            objs.append(dec(dict(parse_scal(n["scal"]))["qualname"], ex))
            continue
        cls = getattr(ex, n["cls"], None) or getattr(sys.modules[AUX_MODULE], n["cls"])
        objs.append(cls.__new__(cls))
    for n, o in zip(heap["nodes"], objs):
        if n["cls"] == "function":
            continue
        for name, text in parse_scal(n["scal"]):
            object.__setattr__(o, name, dec(text, ex))
        for spec, r in zip(SCHEMA[n["cls"]]["refs"], n["refs"]):
            if r is None:
                v = None
            elif isinstance(r, int):
                v = objs[r]
            else:
                v = [objs[t] for t in r]
            object.__setattr__(o, spec["name"], v)
    return objs


def _schema_of(obj) -> Optional[Dict[str, Any]]:
    name = type(obj).__name__
    return SCHEMA.get(name) or MAPPING_SCHEMA.get(name)


def abstract(roots: List[Any]) -> Dict[str, Any]:
    """The object graph reachable from ``roots`` as an abstract heap: nodes numbered in DFS preorder (fields in
    declaration order, list elements in order); per node its exact class name, its scalar fields (values with exact
    types) and its reference fields as node numbers. Anything unexpected (missing attribute, a non-list container,
    a non-object in a reference field) is made visible in the scalar text, so it can never compare equal to a
    well-formed graph. Never uses dataclass ==."""
    import dataclasses
    num: Dict[int, int] = {}
    order: List[Any] = []

    import types as _types

    def is_node(v) -> bool:
        if isinstance(v, _types.FunctionType):
            return True
        if any(b.__name__ == "SubclassJSONSerializer" for b in type(v).__mro__):
            return False  # a JSON value, not a mapped object
        return dataclasses.is_dataclass(v) and not isinstance(v, type)

    _missing = object()

    def fields_of(o):
        if isinstance(o, _types.FunctionType):
            return [("qualname", o)], []
        sch = _schema_of(o)
        if sch is not None:
            scal = [(n, getattr(o, n, _missing)) for n, _ in sch["scal"]]
            refs = [(r["name"], getattr(o, r["name"], _missing)) for r in sch["refs"]]
            return scal, refs
        scal, refs = [], []
        for f in dataclasses.fields(o):
            v = getattr(o, f.name, _missing)
            if is_node(v) or (isinstance(v, (list, tuple)) and v and all(is_node(x) for x in v)):
                refs.append((f.name, v))
            else:
                scal.append((f.name, v))
        return scal, refs

    def split(o):
        """-> scalar text, [None | obj | [obj...]] per reference field"""
        scal, refs = fields_of(o)
        # an attribute the object does not have at all: scalar shown as `?`, reference as None plus a count
        text = [(n, "?" if v is _missing else enc(v)) for n, v in scal]
        rr = []
        lost = sum(1 for _, v in refs if v is _missing)
        for name, v in refs:
            if v is _missing:
                rr.append(None)
            elif v is None or is_node(v):
                rr.append(v)
            elif isinstance(v, (list, tuple)) and all(is_node(x) for x in v):
                if not isinstance(v, list):
                    text.append((name, "!" + type(v).__name__))
                rr.append(list(v))
            else:
                text.append((name, "!" + enc(v)))
                rr.append(None)
        if lost:
            text.append(("!missing", str(lost)))
        return scal_text(text), rr

    cache: Dict[int, Any] = {}
    for r in roots:
        work = [r]
        while work:
            x = work.pop()
            if id(x) in num:
                continue
            num[id(x)] = len(order)
            order.append(x)
            if is_node(x):
                cache[id(x)] = split(x)
                tg: List[Any] = []
                for v in cache[id(x)][1]:
                    if v is None:
                        continue
                    tg.extend(v if isinstance(v, list) else [v])
                work.extend(reversed(tg))
    nodes = []
    for o in order:
        if not is_node(o):
            nodes.append({"cls": type(o).__name__, "scal": "!" + enc(o), "view": "", "refs": []})
            continue
        text, rr = cache[id(o)]
        nodes.append({"cls": type(o).__name__, "scal": text, "view": "",
                      "refs": [None if v is None else [num[id(t)] for t in v] if isinstance(v, list) else num[id(v)]
                               for v in rr]})
    return {"nodes": nodes, "roots": [num[id(r)] for r in roots], "via": 0}


def canon(roots: List[Any]) -> str:
    """canonical text of a real object graph: equal strings <=> isomorphic rooted graphs (same classes, equal values
    with equal types, same order / multiplicity / sharing / cycles)"""
    return canon_heap(abstract(roots))


def canon_heap(heap) -> str:
    """the same canonical form computed on the abstract heap (python twin of Lean's `canon`, used by self tests and
    by the multiset matcher of C05)"""
    order = reachable(heap)
    idx = {o: i for i, o in enumerate(order)}
    parts = []
    for o in order:
        n = heap["nodes"][o]
        rs = []
        for r in n["refs"]:
            rs.append("-" if r is None else f"#{idx[r]}" if isinstance(r, int) else "(" + " ".join(f"#{idx[t]}" for t in r) + ")")
        parts.append(n["cls"] + "{" + n["scal"] + "}[" + "|".join(rs) + "]")
    return "r=" + ",".join(f"#{idx[r]}" for r in heap["roots"]) + " " + ";".join(parts)


# ------------------------------------------------------------------------------------------------------------------
# ORM interface: regenerated on every run with the CURRENT ORMatic, in a fresh interpreter

_ORM_DIR: Optional[str] = None
_POOL = None
ORM_MODULE = "verif_orm_interface"


def _gen_orm_main(repo: str, out_dir: str, q) -> None:
    """runs in a spawned process: build the ORM interface of the dataset's example classes with the current ORMatic"""
    try:
        import warnings
        warnings.filterwarnings("ignore")
        sys.path.insert(0, repo)
        sys.path.insert(0, os.path.join(repo, "src"))
        os.chdir(out_dir)
        import uuid
        from dataclasses import is_dataclass
        from types import FunctionType

        import sqlalchemy
        from sqlalchemy import JSON
        from krrood.class_diagrams.class_diagram import ClassDiagram
        from krrood.entity_query_language.predicate import Symbol
        import krrood.ormatic.alternative_mappings  # noqa: F401  (FunctionMapping)
        from krrood.ormatic.dao import AlternativeMapping
        from krrood.ormatic.ormatic import ORMatic
        from krrood.ormatic.utils import classes_of_module
        from krrood.utils import recursive_subclasses
        from test.dataset import example_classes as ex

        classes = set(classes_of_module(ex)) | {Symbol}
        classes -= {ex.NotMappedParent, ex.ChildNotMapped, ex.JSONSerializableClass}
        classes = {c for c in classes if is_dataclass(c) and not issubclass(c, AlternativeMapping)}
        classes |= {FunctionType}
        # the harness's auxiliary model, generated together with the dataset
        with open(os.path.join(out_dir, AUX_MODULE + ".py"), "w") as f:
            f.write(AUX_SOURCE)
        for mod_name, source in AUX_JSON_MODULES.items():
            with open(os.path.join(out_dir, mod_name + ".py"), "w") as f:
                f.write(source)
        sys.path.insert(0, out_dir)
        import importlib
        aux = importlib.import_module(AUX_MODULE)
        json_types = {importlib.import_module(m).Box: JSON for m in AUX_JSON_MODULES}
        classes |= {getattr(aux, c) for c in AUX_CLASSES}
        alts = [a for a in recursive_subclasses(AlternativeMapping) if a.original_class() in classes]
        diagram = ClassDiagram(list(sorted(classes, key=lambda c: c.__name__, reverse=True)))
        ormatic = ORMatic(
            class_dependency_graph=diagram,
            type_mappings={ex.PhysicalObject: ex.ConceptType, uuid.UUID: sqlalchemy.UUID, ex.JSONSerializableClass: JSON,
                           **json_types},
            alternative_mappings=alts,
        )
        ormatic.make_all_tables()
        with open(os.path.join(out_dir, ORM_MODULE + ".py"), "w") as f:
            ormatic.to_sqlalchemy_file(f)
        q.put("ok")
    except BaseException as e:  # noqa: BLE001
        import traceback
        q.put("error: " + type(e).__name__ + ": " + str(e)[:500] + "\n" + traceback.format_exc()[-1500:])


def orm_dir() -> str:
    """generate once per check run; the directory lives under the system temp dir and is removed at exit"""
    global _ORM_DIR
    if _ORM_DIR is None:
        import multiprocessing as mp
        d = tempfile.mkdtemp(prefix="krrood_verif_orm_")
        atexit.register(shutil.rmtree, d, True)
        ctx = mp.get_context("spawn")
        q = ctx.Queue()
        p = ctx.Process(target=_gen_orm_main, args=(REPO, d, q))
        p.start()
        import queue as _queue
        import time as _time
        msg, t_end = None, _time.time() + 300
        while msg is None and _time.time() < t_end:
            try:
                msg = q.get(timeout=0.5)
            except _queue.Empty:
                if not p.is_alive():
                    try:
                        msg = q.get(timeout=0.5)
                    except _queue.Empty:
                        msg = f"error: generator process died (exit code {p.exitcode})"
        if msg is None:
            msg = "error: ORM generation timed out"
            p.terminate()
        p.join(30)
        if msg != "ok":
            shutil.rmtree(d, True)
            raise RuntimeError("regenerating the dataset's ORM interface with the current ORMatic failed: " + msg)
        _ORM_DIR = d
    return _ORM_DIR


_W: Dict[str, Any] = {}


def _worker_init(repo: str, d: str) -> None:
    import warnings
    warnings.filterwarnings("ignore")
    import logging
    logging.disable(logging.WARNING)
    sys.path.insert(0, d)
    sys.path.insert(0, repo)
    sys.path.insert(0, os.path.join(repo, "src"))
    sys.setrecursionlimit(3000)
    try:
        import importlib
        from sqlalchemy.orm import configure_mappers
        from test.dataset import example_classes as ex
        importlib.import_module(AUX_MODULE)
        iface = importlib.import_module(ORM_MODULE)
        configure_mappers()
        _W["ex"] = ex
        _W["iface"] = iface
        _W["error"] = None
    except BaseException as e:  # noqa: BLE001
        _W["error"] = "setup:" + type(e).__name__


def pool():
    global _POOL
    if _POOL is None:
        import multiprocessing as mp
        d = orm_dir()
        n = max(1, min(16, (os.cpu_count() or 2)))
        _POOL = mp.get_context("spawn").Pool(n, initializer=_worker_init, initargs=(REPO, d))
        atexit.register(_close_pool)
    return _POOL


def _close_pool() -> None:
    global _POOL
    if _POOL is not None:
        try:
            _POOL.terminate()
            _POOL.join()
        except Exception:  # noqa: BLE001
            pass
        _POOL = None


def pmap(fn, lines: List[str]) -> List[str]:
    """run `fn` over the case lines in the spawn workers; never raises (a failure becomes the observation)"""
    if not lines:
        return []
    try:
        p = pool()
    except Exception as e:  # noqa: BLE001  -- the CURRENT ORMatic cannot generate the dataset's ORM layer
        sys.stderr.write(str(e)[:2000] + "\n")
        return ["exc:orm-generation-failed"] * len(lines)
    chunk = max(1, min(8, len(lines) // 64 + 1))
    import multiprocessing as mp
    try:
        return list(p.map_async(fn, lines, chunksize=chunk).get(timeout=900))
    except mp.TimeoutError:
        _close_pool()
        return ["exc:Timeout"] * len(lines)
    except Exception as e:  # noqa: BLE001  -- a worker died
        import traceback
        sys.stderr.write(traceback.format_exc()[-1500:])
        _close_pool()
        return ["exc:worker:" + type(e).__name__] * len(lines)


def _fresh_main(repo: str, d: str, fn, line: str, q) -> None:
    _worker_init(repo, d)
    q.put(fn(line))


def run_fresh(fn, line: str, timeout: int = 180) -> str:
    """one case in a brand-new interpreter (no state left behind by earlier conversions)"""
    import multiprocessing as mp
    import queue as _queue
    try:
        d = orm_dir()
    except Exception:  # noqa: BLE001
        return "exc:orm-generation-failed"
    ctx = mp.get_context("spawn")
    q = ctx.Queue()
    p = ctx.Process(target=_fresh_main, args=(REPO, d, fn, line, q))
    p.start()
    try:
        out = q.get(timeout=timeout)
    except _queue.Empty:
        out = "exc:Timeout"
        p.terminate()
    p.join(30)
    return out


def run_cases(fn, cases) -> List[str]:
    """the observation of every case; a shrink candidate that deviates in the long-lived workers is confirmed in a
    fresh interpreter, so that a minimised replay never depends on what the worker converted before (process-wide
    caches, allocator state)"""
    outs = pmap(fn, [c.line for c in cases])
    if len(cases) == 1 and getattr(cases[0], "origin", "") == "shrink":
        try:
            expected = canon_heap(prune(parse_heap(cases[0].line)))
        except Exception:  # noqa: BLE001
            return outs
        if outs[0].split(" rows:")[0] != expected:
            outs = [run_fresh(fn, cases[0].line)]
    return outs


def _exc_text(e: BaseException) -> str:
    return "exc:" + type(e).__name__


def _cleanup_symbols() -> None:
    try:
        from krrood.entity_query_language.symbol_graph import SymbolGraph
        SymbolGraph().clear()
    except Exception:  # noqa: BLE001
        pass


# ------------------------------------------------------------------------------------------------------------------
# graph isomorphism with collections as multisets (C05: association tables carry no order)


def iso_multiset(h1, h2, budget: int = 200000) -> bool:
    """is there a bijection between the nodes reachable from the roots that preserves class, scalars, single-valued
    references, and every collection as a multiset?  (backtracking; the graphs are small)"""
    n1, n2 = h1["nodes"], h2["nodes"]
    if len(h1["roots"]) != len(h2["roots"]):
        return False
    fwd: Dict[int, int] = {}
    bwd: Dict[int, int] = {}
    steps = [0]

    def compatible(a: int, b: int) -> bool:
        x, y = n1[a], n2[b]
        if x["cls"] != y["cls"] or x["scal"] != y["scal"] or len(x["refs"]) != len(y["refs"]):
            return False
        for r, s in zip(x["refs"], y["refs"]):
            if (r is None) != (s is None) or isinstance(r, list) != isinstance(s, list):
                return False
            if isinstance(r, list) and len(r) != len(s):
                return False
        return True

    def solve(goals: List[Tuple[int, int]]) -> bool:
        """goals: pairs that must be matched; collections are expanded lazily"""
        steps[0] += 1
        if steps[0] > budget:
            return False
        if not goals:
            return True
        (a, b), rest = goals[0], goals[1:]
        if a in fwd or b in bwd:
            return fwd.get(a) == b and bwd.get(b) == a and solve(rest)
        if not compatible(a, b):
            return False
        fwd[a] = b
        bwd[b] = a
        singles = [(r, s) for r, s in zip(n1[a]["refs"], n2[b]["refs"]) if isinstance(r, int)]
        colls = [(r, s) for r, s in zip(n1[a]["refs"], n2[b]["refs"]) if isinstance(r, list) and r]
        if assign(colls, singles + rest):
            return True
        del fwd[a]
        del bwd[b]
        return False

    def assign(colls, rest) -> bool:
        if not colls:
            return solve(rest)
        (r, s), more = colls[0], colls[1:]
        import itertools
        seen = set()
        for perm in itertools.permutations(s):
            if perm in seen:
                continue
            seen.add(perm)
            if all(n1[x]["cls"] == n2[y]["cls"] and n1[x]["scal"] == n2[y]["scal"] for x, y in zip(r, perm)):
                if assign(more, list(zip(r, perm)) + rest):
                    return True
        return False

    return solve(list(zip(h1["roots"], h2["roots"])))


# ------------------------------------------------------------------------------------------------------------------
# the two round trips on the REAL code (executed inside the spawn workers)


def work_c04(line: str) -> str:
    """to_dao(root).from_dao() on the real objects; observation = canonical form of the result graph"""
    if _W.get("error"):
        return _W["error"]
    try:
        ex = _W["ex"]
        heap = parse_heap(line)
        from krrood.ormatic.dao import FromDAOState, ToDAOState, to_dao
        expected = canon_heap(prune(heap))
        out = ""
        for _ in range(max(1, heap.get("tries", 1))):
            objs = build_objects(heap, ex)
            roots = [objs[r] for r in heap["roots"]]
            before = canon(roots)
            apply_history(heap, objs, to_dao)
            if len(roots) == 1:
                res = [to_dao(roots[0]).from_dao()]
            else:
                # several roots (the same one possibly twice): ONE ToDAOState, and ONE explicitly passed, initially
                # empty FromDAOState -- sharing across the roots must survive
                tstate, fstate = ToDAOState(), FromDAOState()
                daos = [to_dao(o, tstate) for o in roots]
                res = [d.from_dao(state=fstate) for d in daos]
            out = canon(res)
            if canon(roots) != before:
                return "input-mutated " + out
            if out != expected:
                break
        return out
    except RecursionError:
        return "exc:RecursionError"
    except BaseException as e:  # noqa: BLE001
        return _exc_text(e)
    finally:
        _cleanup_symbols()


def work_c05(line: str) -> str:
    """to_dao -> session A add/commit on a fresh in-memory SQLite -> session B loads the roots by primary key through
    the requested DAO (base) class -> from_dao; observation = canonical form + row count of every non-empty table"""
    if _W.get("error"):
        return _W["error"]
    engine = None
    try:
        ex, iface = _W["ex"], _W["iface"]
        heap = parse_heap(line)
        from sqlalchemy import func, select
        from sqlalchemy.orm import Session
        from krrood.ormatic.dao import FromDAOState, ToDAOState, to_dao
        from krrood.ormatic.utils import create_engine
        engine = create_engine("sqlite:///:memory:")
        iface.Base.metadata.create_all(engine)
        want = prune(heap)
        result = ""
        for attempt in range(max(1, heap.get("tries", 1))):
            if attempt:  # empty database again (same engine: create_all is the expensive part)
                with engine.begin() as conn:
                    for t in reversed(iface.Base.metadata.sorted_tables):
                        conn.execute(t.delete())
            text, result = _persist_reload_once(heap, want, ex, iface, engine, Session, select, func, FromDAOState,
                                                ToDAOState, to_dao)
            if text != canon_heap(want):
                break
        return result
    except RecursionError:
        return "exc:RecursionError"
    except BaseException as e:  # noqa: BLE001
        return _exc_text(e)
    finally:
        if engine is not None:
            try:
                engine.dispose()
            except Exception:  # noqa: BLE001
                pass
        _cleanup_symbols()


def mutable_slots(roots: List[Any]) -> List[Tuple[Any, str, Any]]:
    """(owner, path, value) for every MUTABLE scalar value (list, dict, JSON value object -- also as an element of
    such a list) held by the mapped objects reachable from ``roots``; a mapped object counts once (by identity)"""
    import dataclasses
    import enum as _enum
    import types as _types

    def is_json(v) -> bool:
        return (not isinstance(v, (type, _enum.Enum))
                and any(b.__name__ == "SubclassJSONSerializer" for b in type(v).__mro__))

    def is_node(v) -> bool:
        return dataclasses.is_dataclass(v) and not isinstance(v, type) and not is_json(v)

    out: List[Tuple[Any, str, Any]] = []
    seen: Dict[int, Any] = {}
    work = list(roots)
    while work:
        o = work.pop()
        if id(o) in seen or not is_node(o) or isinstance(o, _types.FunctionType):
            continue
        seen[id(o)] = o
        for f in dataclasses.fields(o):
            v = getattr(o, f.name, None)
            path = f"{type(o).__name__}.{f.name}"
            if is_node(v):
                work.append(v)
            elif isinstance(v, (list, tuple, set)) and v and all(is_node(x) for x in v):
                work.extend(v)
            elif isinstance(v, (list, dict)) or is_json(v):
                out.append((o, path, v))
                if isinstance(v, list):
                    out.extend((o, path + "[]", x) for x in v if isinstance(x, (list, dict)) or is_json(x))
    return out


def perturb_in_memory(slots, mode: int) -> int:
    """what an application may do with objects it loaded: edit their mutable values in place (never the database).
    -> number of values edited"""
    n = 0
    for _, _, v in slots:
        if isinstance(v, list):
            if v and mode % 2:
                v.clear()
            else:
                v.append(v[0] if v else "verif")
            n += 1
        elif isinstance(v, dict):
            v["verif"] = mode
            n += 1
        else:
            for k, x in list(vars(v).items()):
                if isinstance(x, bool):
                    continue
                if isinstance(x, (int, float)):
                    object.__setattr__(v, k, x + 1 + mode)
                    n += 1
                elif isinstance(x, str):
                    object.__setattr__(v, k, x + "~")
                    n += 1
    return n


def _persist_reload_once(heap, want, ex, iface, engine, Session, select, func, FromDAOState, ToDAOState, to_dao):
    if True:
        objs = build_objects(heap, ex)
        roots = [objs[r] for r in heap["roots"]]
        state = ToDAOState()
        daos = [to_dao(o, state) for o in roots]
        with Session(engine) as a:
            a.add_all(daos)
            a.commit()
            ids = [d.database_id for d in daos]
        via_classes = []
        for r in heap["roots"]:
            chain = SCHEMA[heap["nodes"][r]["cls"]]["chain"]
            via_classes.append(getattr(iface, chain[min(heap["via"], len(chain) - 1)]))
        keep = []  # everything reloaded so far stays alive: identities are compared across sessions
        owner_of: Dict[int, Tuple[int, str]] = {}  # id(mutable value) -> (id(owner), path) of the first holder
        text = result = ""
        for k in range(1 + heap.get("again", 0)):
            with Session(engine) as b:
                fstate = FromDAOState()
                res = []
                rows = []  # FromDAOState.memo is keyed by id(dao): the loaded DAOs must stay alive while it is shared
                for pk, via in zip(ids, via_classes):
                    row = b.scalars(select(via).where(via.database_id == pk)).one()
                    rows.append(row)
                    res.append(row.from_dao(fstate))
                got = abstract(res)
                counts = {}
                for t in iface.Base.metadata.sorted_tables:
                    c = b.execute(select(func.count()).select_from(t)).scalar()
                    if c:
                        counts[t.name] = c
            keep.append((rows, res))
            t_k = canon_heap(got)
            if t_k != canon_heap(want) and iso_multiset(want, got):
                t_k = canon_heap(want)  # same graph up to the order inside collections: what the property demands
            # distinct objects of the input hold distinct mutable values (build_objects decodes every field afresh):
            # a reloaded graph in which two holders -- of this or of an earlier session -- share one is not isomorphic
            slots = mutable_slots(res)
            shared = set()
            for o, path, v in slots:
                first = owner_of.setdefault(id(v), (id(o), path))
                if first != (id(o), path):
                    shared.add(path)
            if shared:
                t_k = "shared-mutable-value:" + ",".join(sorted(shared)) + " " + t_k
            r_k = t_k + " rows:" + ",".join(f"{n}={v}" for n, v in sorted(counts.items()))
            if k == 0:
                text, result = t_k, r_k
            elif r_k != result:  # the first later reload that does not return what the first one returned
                return f"reload#{k + 1}:" + t_k, f"reload#{k + 1}:" + r_k
            if t_k != canon_heap(want):
                break
            perturb_in_memory(slots, k)
        return text, result
