"""C19 — unresolvable JSON type tags fail with the documented serialisation errors only.

Implementation side: the real `from_json(json.loads(json.dumps(document)))` for documents whose `__json_type__`
entry is any JSON value (or absent), and for whole documents with tags at any depth.

Observation (DESIGN 2.3): the exception class — one of the five documented `JSONSerializationError` subclasses,
`jse:<Name>` for another subclass, `escape:<Name>` for anything outside the hierarchy — or, when the tag resolves,
the class the deserialisation was dispatched to (recorded by the harness classes' own `_from_json` / registered
deserializers) and the door it went through.

The model takes the import environment as DATA: for every way of splitting a string tag at a dot the harness asks the
running interpreter what `importlib.import_module(module)` does and what `getattr(module, name)` finds
(`isinstance(obj, type)`, `issubclass(obj, SubclassJSONSerializer)`, registry membership) and writes that into the
case line. impl vs model therefore compares the resolution *logic* of `from_json`, not the interpreter.

The oracle is no stronger than the property: `spec=jse*` (any documented error) except in the five canonical
situations and for a deserialisable class, where the specific outcome is required."""
from __future__ import annotations

import importlib
import json
import struct
from typing import Any, List, Tuple

from core import Case

from props import c18 as Z  # class zoo, probing, encoders (imports krrood from $KRROOD_VERIF_REPO/src)
from props.c18 import (DOC_ERRORS, EXT, KEY, LAST_DISPATCH, PayloadError, canon, dec_str, enc_env, enc_str, enc_val,
                       exc_name, float_bits, ident, parse_sexp)

from krrood.adapters.json_serializer import SubclassJSONSerializer, from_json  # noqa: E402

PID = "C19"
LEAN_MODULES = ["KrroodVerif.Props.C19"]
THEOREMS = [
    "KrroodVerif.Json.C19_total",
    "KrroodVerif.Json.C19_spec",
    "KrroodVerif.Json.C19_canonical",
    "KrroodVerif.Json.C19_partial",
    "KrroodVerif.Json.C19_partial_total",
    "KrroodVerif.Json.C19_document",
    "KrroodVerif.Json.C19_cex_nonstring",
    "KrroodVerif.Json.C19_cex_empty_module",
    "KrroodVerif.Json.C19_cex_relative",
    "KrroodVerif.Json.C19_cex_nonclass",
    "KrroodVerif.Json.C19_cex_import_error",
    "KrroodVerif.Json.C19_cex_abstract",
    "KrroodVerif.Json.resolve_eq_interp",
    "KrroodVerif.Json.fromJson_eq_interp",
    "KrroodVerif.Json.asFound_eq_interp",
    "KrroodVerif.Json.C19_total_stages",
]
TRANSLATED = ["KrroodVerif.Json.Translated.C19_stages_translated_eq_model",
              "KrroodVerif.Json.Translated.C19_translated_meets_property"]


def extra_obligations():
    """Second tie: regenerate the stage table of `SubclassJSONSerializer.from_json` from /repo's CURRENT source (Python
    ast) and have the kernel re-check that it equals the model's table (`Json.stageTable`, for which `resolve_eq_interp`
    proves `interp stageTable = resolve Quirks.current`)."""
    import os
    import re
    import subprocess
    import core
    from translate.c19_translate import generate as gen, TranslationError
    try:
        text = gen(core.REPO)
    except (TranslationError, SyntaxError, OSError, RecursionError) as e:
        return [{"name": n, "ok": False, "detail": f"translator rejected the source: {e}"} for n in TRANSLATED]
    tmp = core.LEAN_DIR / ".lake" / "audit"
    tmp.mkdir(parents=True, exist_ok=True)
    f = tmp / f"C19Translated_{os.getpid()}.lean"
    f.write_text(text + "".join(f"#print axioms {n}\n" for n in TRANSLATED))
    try:
        p = subprocess.run(["lake", "env", "lean", str(f)], cwd=str(core.LEAN_DIR), capture_output=True, text=True, timeout=600)
    finally:
        try:
            f.unlink()
        except OSError:
            pass
    out = " ".join(((p.stdout or "") + (p.stderr or "")).split())
    res = []
    for n in TRANSLATED:
        m = re.search(r"'" + re.escape(n) + r"' depends on axioms: \[([^\]]*)\]", out)
        none = re.search(r"'" + re.escape(n) + r"' does not depend on any axioms", out)
        ax = [a.strip() for a in m.group(1).split(",")] if m else ([] if none else None)
        ok = p.returncode == 0 and ax is not None and set(ax) <= core.ALLOWED_AXIOMS
        res.append({"name": n, "ok": ok, "axioms": ax,
                    "detail": "regenerated table:\n" + text[text.find("def stageTable"):text.find("/-- the decision")]
                              + (p.stdout or "")[-1500:] + (p.stderr or "")[-800:]})
    return res

MODEL_FUNCTION = "Json.resolve / Json.fromJson / Json.spec / Json.trigger (Model/Json.lean)"
TRUSTED = [
    "Lean 4.33 kernel; axioms of each theorem listed under coverage.theorems",
    "hand-written model Model/Json.lean (resolve = SubclassJSONSerializer.from_json up to the dispatch)",
    "this correspondence harness: tag table, environment probe of the running interpreter, observation of the dispatch "
    "through harness-defined classes, and the S-expression driver",
]
ASSUMPTIONS = [
    "the import environment is data: importlib.import_module(name) either returns, or raises ModuleNotFoundError, another "
    "ImportError, ValueError or TypeError; a module body raising anything else while being imported is outside the model",
    "getattr(module, name) returns or raises AttributeError; classes are hashable (registry lookup); issubclass on a class "
    "does not raise",
    "json.dumps/json.loads is the identity on the documents used (incl. NaN/Infinity with the default allow_nan)",
    "exceptions raised by a class's own _from_json / registered deserializer about its *payload* are not tag resolution",
]
RULE = ("corpus, then an exhaustive table: every JSON type under the tag key (absent, null, booleans, ints, floats incl. "
        "-0.0/NaN/inf, lists, dicts, empty string) and every (module, attribute) of a table of real importable names "
        "(modules, functions, type variables, constants, instances, non-serialisable classes, serialisable classes of "
        "subclass depth 1..5, registered types, an alias, never-registered classes that share __module__ + '.' + __name__ with a "
        "registered / serialisable class — the pure-Python twin of a registered C type, nested classes re-exported at module level, "
        "type(name, …) classes under another attribute, a subclass carrying its registered base's name, re-exports from another "
        "module —, a module whose import raises ImportError, missing modules and "
        "attributes) with 11 textual variants each (leading/trailing/double dots, case, spaces, extra component); then "
        "random strings over dots/identifiers/unicode and random documents with corrupted tags at any depth; "
        "non-trivial = a non-empty string tag with a dot, or a non-string truthy tag, or a document with >= 2 tags; "
        "distinct by case text")
EXHAUSTIVE = True

# ---------------------------------------------------------------------------------------------- encoding

ABSENT = object()
VALID_PAYLOAD = "12345678-1234-5678-1234-567812345678"  # so that uuid.UUID / Money / Fraction-less payloads are usable


def enc_json(j) -> str:
    t = type(j)
    if j is None:
        return "null"
    if t is bool:
        return "true" if j else "false"
    if t is int:
        return f"(int {j})"
    if t is float:
        # the exact bit pattern (the model needs the truthiness: only +0.0 and -0.0 are falsy)
        return f"(float {struct.unpack('<Q', struct.pack('<d', j))[0]})"
    if t is str:
        return f"(str {enc_str(j)})"
    if t is list:
        return "(arr" + "".join(" " + enc_json(x) for x in j) + ")"
    if t is dict:
        return "(obj" + "".join(f" ({enc_str(k)} {enc_json(v)})" for k, v in j.items()) + ")"
    raise TypeError(t)


def dec_json(x):
    if x == "null":
        return None
    if x == "true":
        return True
    if x == "false":
        return False
    h = x[0]
    if h == "int":
        return int(x[1])
    if h == "float":
        return struct.unpack("<d", struct.pack("<Q", int(x[1])))[0]
    if h == "str":
        return dec_str(x[1])
    if h == "arr":
        return [dec_json(y) for y in x[1:]]
    if h == "obj":
        return {dec_str(kv[0]): dec_json(kv[1]) for kv in x[1:]}
    raise ValueError(x)


def splits(tag) -> List[Tuple[str, str]]:
    """every (module, attribute) a resolver could derive from a string tag by splitting at one dot"""
    if type(tag) is not str:
        return []
    return [(tag[:i], tag[i + 1:]) for i, ch in enumerate(tag) if ch == "."]


def doc_tags(j, acc=None) -> list:
    acc = [] if acc is None else acc
    if type(j) is list:
        for x in j:
            doc_tags(x, acc)
    elif type(j) is dict:
        if KEY in j:
            acc.append(j[KEY])
        for v in j.values():
            doc_tags(v, acc)
    return acc


def tag_case(tag, tags=(), origin="exhaustive") -> Case:
    t = "absent" if tag is ABSENT else enc_json(tag)
    return Case(f"(resolve {t} {enc_env(splits(tag))})", tuple(tags) + (tag_class(tag),), origin, payload=("tag", tag))


def doc_case(j, tags=(), origin="random") -> Case:
    pairs = [p for t in doc_tags(j) for p in splits(t)]
    return Case(f"(doc {enc_env(pairs)} {enc_json(j)})", tuple(tags) + ("document",), origin, payload=("doc", j))


def revive(case: Case) -> Case:
    """rebuild the python document from the line and re-probe the environment from the running interpreter"""
    if case.payload is not None:
        return case
    s = parse_sexp(case.line)
    if s[0] == "resolve":
        tag = ABSENT if s[1] == "absent" else dec_json(s[1])
        return tag_case(tag, case.tags, case.origin)
    return doc_case(dec_json(s[2]), case.tags, case.origin)


def tag_class(tag) -> str:
    if tag is ABSENT:
        return "tag:absent"
    if type(tag) is not str:
        return "tag:" + type(tag).__name__ + (":truthy" if tag else ":falsy")
    if tag == "":
        return "tag:str:empty"
    return "tag:str:dots" + str(min(tag.count("."), 4))


# ---------------------------------------------------------------------------------------------- the table

NON_STRINGS = [ABSENT, None, True, False, 0, 1, 5, -1, 2 ** 70, 0.0, -0.0, 1.5, -1e308, float("inf"), float("nan"),
               [], [0], ["a.b"], [[]], {}, {"a": 1}, {KEY: "props.c18.Node"}, {"": None}]

PLAIN_STRINGS = ["", "nodot", "NotAQualifiedName", " ", ".", "..", "...", ".x", "x.", "..x", "x..", ".x.", "a..b", ".os.path",
                 "os.path.", " .x", "a b.c", "a.b c", "non.existent.Class", "ü.é", "a\x00b.c", "0.1", "1", "json..dumps",
                 "é", "\U0001F600.x", "a.\U0001F600", "x" * 200 + ".y", "a." + "b" * 200]

# (module, [attributes]) — real importable names of every kind, and names that are not there
M18 = "props.c18"
TABLE: List[Tuple[str, List[str]]] = [
    ("os", ["path", "getcwd", "sep", "environ", "PathLike", "nope", ""]),
    ("os.path", ["join", "sep", "nope"]),
    ("json", ["dumps", "JSONDecoder", "decoder", "nope"]),
    ("typing", ["TypeVar", "T", "Any", "List", "Optional", "TYPE_CHECKING"]),
    ("typing_extensions", ["T", "Self"]),
    ("uuid", ["UUID", "NAMESPACE_DNS", "uuid4", "SafeUUID"]),
    ("fractions", ["Fraction", "Decimal"]),
    ("collections", ["abc", "OrderedDict"]),
    ("collections.abc", ["Mapping"]),
    ("builtins", ["int", "str", "object", "type", "None", "len", "Exception"]),
    ("krrood", ["adapters", "nope"]),
    ("krrood.utils", ["get_full_class_name", "DoesNotExist"]),
    ("krrood.adapters.json_serializer",
     ["SubclassJSONSerializer", "JSONSerializationError", "MissingTypeError", "JSONSerializableTypeRegistry", "JSON_TYPE_NAME",
      "leaf_types", "list_like_classes", "from_json", "to_json", "serialize_uuid", "uuid", "importlib", "Nope", "Dict", "Self"]),
    (Z.MOD_A.__name__, ["Node", "Shape", "Dog", "Money", "Cat", "nope"]),
    (Z.MOD_B.__name__, ["Node", "Shape", "Dog", "Money", "NodeA", "nope"]),
    (M18, [c.__name__ for c in Z.SER_CLASSES if c.__module__ == M18] + ["Money", "Money2", "NotSerializable", "Mixin", "PayloadError", "NODE_INSTANCE",
                                                 "TrackingNumber", "ExpressNumber", "Coin", "RareCoin", "Token", "Ratio",
                                                 "AbstractNode", "AbstractLeaf", "ConcreteOfAbstract", "RegisteredNode",
                                                 "T_VAR", "a_function", "Alias", "Z", "json", "EXT", "KEY", "Fraction", "Case",
                                                 "node", "NODE"]),
    ("props", ["c18", "c19", "nope"]),
    ("decimal", ["Decimal", "Context", "getcontext"]),
    ("asyncio.windows_events", ["X", "ProactorEventLoop"]),  # the module raises ImportError("win32 only") when imported
    ("krrood.nonexistent", ["X"]),
    ("non.existent", ["Class"]),
    ("json.nope.deep", ["X"]),
    ("os.path.join", ["x"]),  # 'os.path' is not a package
    ("nonexistent_module_kv", ["X"]),
]


# never-registered classes that share module + "." + name with a registered one, under the attribute they are reachable as
_twin_table: dict = {}
for _m, _a, _t, _of in Z.TWINS:
    _twin_table.setdefault(_m, []).append(_a)
for _m, _as in _twin_table.items():
    for _i, (_tm, _tas) in enumerate(TABLE):
        if _tm == _m:
            TABLE[_i] = (_tm, _tas + [a for a in _as if a not in _tas])
            break
    else:
        TABLE.append((_m, _as))
TWIN_TAGS = [f"{m}.{a}" for m, a, _t, _of in Z.TWINS]


def variants(tag: str) -> List[str]:
    m, _, c = tag.rpartition(".")
    return [tag, tag + ".", "." + tag, ".." + tag, tag + " ", " " + tag, tag.upper(), m + ".." + c, tag + ".x",
            tag.replace(".", " .", 1), m + "." + c.swapcase()]


def table_cases() -> List[Case]:
    for m, _ in TABLE:  # warm-up: importing a submodule adds an attribute to its package; do it before any probe
        Z.probe_import(m)
    out = [tag_case(t) for t in NON_STRINGS] + [tag_case(t) for t in PLAIN_STRINGS]
    seen = set()
    for m, attrs in TABLE:
        for a in attrs:
            for t in variants(m + "." + a):
                if t not in seen:
                    seen.add(t)
                    out.append(tag_case(t, ("table",)))
        if m not in seen:  # the module name alone as a tag
            seen.add(m)
            out.append(tag_case(m, ("table",)))
    return out


# ---------------------------------------------------------------------------------------------- random

TOKENS = ["os", "path", "json", "dumps", "props", "c18", "Node", "NodeAAAA", "Money", "uuid", "UUID", "krrood", "utils",
          "typing", "T", "a", "b", "x", "", " ", "é", "0", "_", "A", "Alias", "adapters", "json_serializer",
          "SubclassJSONSerializer", "asyncio", "windows_events", "builtins", "int", "NODE_INSTANCE", "T_VAR", "a_function"]


def gen_tag_string(rng) -> str:
    r = rng.random()
    if r < 0.06:  # looks deserialisable but is not: unregistered subclass of a registered type / abstract serializer
        return rng.choice(NEAR_MISS_TAGS)
    if r < 0.16:  # a deserialisable class, verbatim
        return rng.choice(GOOD_TAGS + [c.__module__ + "." + c.__name__ for c in Z.FIXED] + ["uuid.UUID", "fractions.Fraction"])
    if r < 0.35:
        m, attrs = rng.choice(TABLE)
        return rng.choice(variants(m + "." + rng.choice(attrs)))
    if r < 0.8:
        return ".".join(rng.choice(TOKENS) for _ in range(rng.randrange(1, 5)))
    return "".join(rng.choice("ab.. _é\x00A0") for _ in range(rng.randrange(0, 7)))


def gen_tag(rng):
    if rng.random() < 0.15:
        return rng.choice(NON_STRINGS[1:] + [rng.randrange(-3, 4), rng.uniform(-1, 1), [rng.randrange(3)], {"k": None}])
    return gen_tag_string(rng)


NEAR_MISS_TAGS = [c.__module__ + "." + c.__name__ for c in Z.UNREGISTERED_SUBCLASSES + Z.ABSTRACT_SERIALIZERS] + \
    ["krrood.adapters.json_serializer.SubclassJSONSerializer", M18 + ".ConcreteOfAbstract", M18 + ".RegisteredNode"] + TWIN_TAGS
DOC_STRS = ["", "a", "Rex", "os.path", "12.50", "x y"]
DOC_CLASSES = Z.GENERIC
MONEY_TAGS = [c.__module__ + "." + c.__name__ for c in Z.EXT_MONEY]
GOOD_TAGS = [c.__module__ + "." + c.__name__ for c in DOC_CLASSES] + MONEY_TAGS + [M18 + ".Alias"]


def gen_doc_value(rng, depth: int):
    """a python JSON tree shaped like a serialised value (ASCII strings only), built without krrood's to_json"""
    if depth <= 0 or rng.random() < 0.2:
        k = rng.randrange(6)
        if k == 0:
            return rng.choice([None, True, False, 0, 7, -1, 1.5])
        if k == 1:
            return rng.choice(DOC_STRS)
        if k == 2:
            return {KEY: rng.choice(MONEY_TAGS), "value": rng.choice(DOC_STRS)}
        if k == 3:
            return {KEY: "uuid.UUID", "value": VALID_PAYLOAD}
        return rng.choice([[], 3, "s"])
    if rng.random() < 0.4:
        return [gen_doc_value(rng, depth - 1) for _ in range(rng.choice([0, 1, 2, 2, 3]))]
    cls = rng.choice(DOC_CLASSES)
    d = {KEY: cls.__module__ + "." + cls.__name__}
    for k in rng.sample(["a", "b", "x", "value", "name"], rng.choice([0, 1, 2, 2, 3])):
        d[k] = gen_doc_value(rng, depth - 1)
    return d


def corrupt(rng, j, p: float):
    """replace some tags by arbitrary JSON values / other names, drop some"""
    if type(j) is list:
        return [corrupt(rng, x, p) for x in j]
    if type(j) is dict:
        out = {}
        for k, v in j.items():
            if k == KEY and rng.random() < p:
                r = rng.random()
                if r < 0.15:
                    continue  # tag dropped
                out[k] = rng.choice(GOOD_TAGS) if r < 0.4 else rng.choice(NEAR_MISS_TAGS) if r < 0.5 else gen_tag(rng)
            else:
                out[k] = corrupt(rng, v, p)
        if j.get(KEY) == "uuid.UUID":  # keep krrood's own uuid deserializer on a valid payload
            out = dict(j)
        return out
    return j


PAYLOAD_AGNOSTIC = set(Z.GENERIC) | set(Z.EXT_MONEY)


def _target(tag):
    """the class a tag names, by the harness's own reading (generator-side filter only)"""
    if type(tag) is not str or "." not in tag:
        return None
    m, c = tag.rsplit(".", 1)
    if Z.probe_import(m) != "ok":
        return None
    obj = getattr(importlib.import_module(m), c, None)
    return obj if isinstance(obj, type) else None


def _needs_new_tag(d: dict) -> bool:
    cls = _target(d.get(KEY))
    if cls is None or not (issubclass(cls, SubclassJSONSerializer) or cls in EXT) or cls in PAYLOAD_AGNOSTIC:
        return False
    if issubclass(cls, SubclassJSONSerializer) and not Z.implements_from_json(cls):
        return False  # never gets as far as a payload
    import uuid as _uuid
    return not (cls is _uuid.UUID and d.get("value") == VALID_PAYLOAD)


def sanitize(rng, j):
    """documents only name deserialisable classes whose deserializer accepts any payload (Node family, Money) — or
    uuid.UUID on a valid payload: what a class does with an unusable payload is not tag resolution"""
    if type(j) is list:
        return [sanitize(rng, x) for x in j]
    if type(j) is dict:
        out = {k: (v if k == KEY else sanitize(rng, v)) for k, v in j.items()}
        if _needs_new_tag(out):
            out[KEY] = rng.choice(GOOD_TAGS)
        return out
    return j


def doc_valid(j) -> bool:
    if type(j) is list:
        return all(doc_valid(x) for x in j)
    if type(j) is dict:
        return not _needs_new_tag(j) and all(doc_valid(v) for k, v in j.items() if k != KEY)
    return True


def budget(tier: str) -> int:
    return 1500 if tier == "quick" else 30000


def generate(rng, tier, n):
    cases = table_cases()
    for i in range(n):
        if i % 3 == 2:
            j = gen_doc_value(rng, rng.randrange(1, 5))
            cases.append(doc_case(sanitize(rng, corrupt(rng, j, rng.choice([0.0, 0.3, 0.3, 0.7])))))
        else:
            cases.append(tag_case(gen_tag(rng), ("random",), "random"))
    return cases


def nontrivial(case: Case, spec: str) -> bool:
    kind, x = case.payload if case.payload is not None else revive(case).payload
    if kind == "doc":
        return len(doc_tags(x)) >= 2
    if x is ABSENT:
        return False
    if type(x) is str:
        return "." in x
    return bool(x)


def shrink(case: Case):
    kind, x = case.payload if case.payload is not None else revive(case).payload
    if kind == "tag":
        if type(x) is str:
            for i in range(len(x)):
                yield tag_case(x[:i] + x[i + 1:], ("shrink",), "shrink")
        return
    for y in _smaller(x):
        if doc_valid(y):
            yield doc_case(y, ("shrink",), "shrink")


def _smaller(j):
    if type(j) is list:
        for x in j:
            yield x
        for i in range(len(j)):
            yield j[:i] + j[i + 1:]
        for i, x in enumerate(j):
            for y in _smaller(x):
                yield j[:i] + [y] + j[i + 1:]
    elif type(j) is dict:
        for k, v in j.items():
            if k != KEY:
                yield v
                yield {a: b for a, b in j.items() if a != k}
                for y in _smaller(v):
                    yield {**j, k: y}


def compare(impl: str, other: str) -> bool:
    """`jse*` (specification only): any JSONSerializationError subclass is acceptable"""
    if other == "jse*":
        return impl in DOC_ERRORS or impl.startswith("jse:")
    return impl == other


# ---------------------------------------------------------------------------------------------- real code


def _dispatch_obs(r=None, exc=None) -> str:
    """who received the deserialisation: recorded by the harness classes; krrood's own base class and uuid by inspection"""
    if LAST_DISPATCH:
        cls, via = LAST_DISPATCH[-1]
        if exc is None and type(r) is not cls:
            return f"wrong-type:{ident(type(r))}"
        return f"dispatch:{ident(cls)}:{via}"
    if exc is None:
        t = type(r)
        return f"dispatch:{ident(t)}:" + ("_from_json" if issubclass(t, SubclassJSONSerializer) else "registry")
    return ""


def _classify(e: BaseException) -> str:
    if isinstance(e, PayloadError):
        return _dispatch_obs(exc=e) or "payload"
    return exc_name(e)


_PRELUDE_DONE = False


def _prelude() -> None:
    """Process history common to every run, replays included (see props/c18.py `_prelude`): every class of the zoo has
    been round-tripped and every name of the table has been resolved once, in a fixed order, before the first case —
    so a resolver that keeps state between calls misbehaves reproducibly on a single later document."""
    global _PRELUDE_DONE
    if _PRELUDE_DONE:
        return
    _PRELUDE_DONE = True
    Z._prelude()
    for m, attrs in TABLE:
        for a in attrs:
            try:
                from_json(json.loads(json.dumps({KEY: f"{m}.{a}", "value": VALID_PAYLOAD})))
            except Exception:  # noqa: BLE001  reported by the corresponding table case, not here
                pass


def _one(case: Case) -> str:
    _prelude()
    try:
        kind, x = case.payload if case.payload is not None else revive(case).payload
        del LAST_DISPATCH[:]
        if kind == "tag":
            doc = {"value": VALID_PAYLOAD}
            if x is not ABSENT:
                doc = {KEY: x, "value": VALID_PAYLOAD}
            data = json.loads(json.dumps(doc))
            try:
                r = from_json(data)
            except Exception as e:  # noqa: BLE001
                return _classify(e)
            return _dispatch_obs(r)
        data = json.loads(json.dumps(x))
        try:
            r = from_json(data)
        except PayloadError:
            return "payload"
        except Exception as e:  # noqa: BLE001
            return exc_name(e)
        return canon(r, raw=True)
    except Exception as e:  # noqa: BLE001
        return "harness-error:" + type(e).__name__


OBSERVED: dict = {}


def run_impl(cases):
    out = [_one(c) for c in cases]
    for c, o in zip(cases, out):
        kind = c.payload[0] if c.payload else "?"
        k = o.split(":")[0] if o.split(":")[0] in ("escape", "dispatch", "jse", "wrong-type", "harness-error") or o in DOC_ERRORS \
            or o == "payload" else "value"
        if k == "escape":
            k = o
        OBSERVED[f"{kind}:{k}"] = OBSERVED.get(f"{kind}:{k}", 0) + 1
    return out


def extra_coverage():
    return {"observations": dict(sorted(OBSERVED.items())), "table_modules": [m for m, _ in TABLE],
            "table_tags": sum(len(a) for _, a in TABLE)}
