"""C03 — evaluations are repeatable and do not interfere with each other.

Stream A (`sched`): 2-3 single-variable query objects over ONE shared variable whose domain is a one-shot generator;
an explicit schedule of start/next/abandon steps (all interleavings up to a length, exhaustively at small scope).
Observation per step: the element index returned, `stop`, or the exception class.
Stream B (`multi`): arbitrary generated queries (C01's generator) sharing their variables, evaluated one after the
other, each evaluation consuming k results before it is abandoned. Observation per evaluation: its row sequence.
Specification for both: what the same query yields when run alone on a fresh query object."""
from __future__ import annotations

import itertools
import random

import eqlgen as G
from core import Case

PID = "C03"
LEAN_MODULES = ["KrroodVerif.Props.C03"]
THEOREMS = [
    "KrroodVerif.Dom.C03_sequential_partial",
    "KrroodVerif.Dom.C03_nonoverlap_partial",
    "KrroodVerif.Dom.C03_full",
    "KrroodVerif.Dom.C03_repair_conservative",
    "KrroodVerif.Dom.C03_alone",
    "KrroodVerif.Dom.C03_alone_idx",
    "KrroodVerif.Dom.C03_abandon_irrelevant",
    "KrroodVerif.Dom.C03_cex_interleaved",
    "KrroodVerif.Dom.C03_cex_runtime_error",
    "KrroodVerif.Dom.C03_sequential_decidable_nonvacuous",
]
MODEL_FUNCTION = "Dom.run / Dom.step / Dom.qnext (Model/Dom.lean); Eql.evalQuery for isolated results"
TRUSTED = [
    "Lean 4.33 kernel; axioms of each theorem listed under coverage.theorems",
    "hand-written models Model/Dom.lean (HashedIterable cursors) and Model/Eql.lean",
    "this correspondence harness (schedule enumeration against real query iterators), the S-expression driver",
]
ASSUMPTIONS = [
    "single-threaded use (the engine and the property are single-threaded); CPython dict-view iteration raises "
    "RuntimeError when the dict grew since the view iterator was created",
    "domains contain pairwise distinct objects",
]
RULE = ("corpus; exhaustive interleavings of 2 iterators (domain sizes 1-3, up to 4 next() each, abandonment points) "
        "plus random schedules of 3 iterators; random sequential re-evaluation orders of 1-3 generated queries sharing "
        "variables with partial consumption; non-trivial = some iterator returns at least one element and the "
        "schedule has >=2 iterators or >=2 evaluations; distinct by case text")


def budget(tier: str) -> int:
    return 800 if tier == "quick" else 12000


# ---------------------------------------------------------------------------------------------- generation

def _sched_line(n, sats, ops, alias=None, tight=False):
    """alias {j: i}: iterator j evaluates the SAME query object as iterator i (their sats coincide);
    tight: every query carries the constraint AtMost(number of its solutions), which a correct count never violates"""
    s_sats = " ".join("(" + " ".join([str(i)] + [str(e) for e in es]) + ")" for i, es in sats.items())
    s_ops = " ".join(f"({o} {i})" for o, i in ops)
    extra = ""
    if alias:
        extra += " (alias " + " ".join(f"({j} {i})" for j, i in alias.items()) + ")"
    if tight:
        extra += " (tight)"
    return f"(sched (n {n}) (sats {s_sats}) (ops {s_ops}){extra})"


def _interleavings(a, b):
    """all merges of two op sequences"""
    if not a:
        yield list(b)
        return
    if not b:
        yield list(a)
        return
    for r in _interleavings(a[1:], b):
        yield [a[0]] + r
    for r in _interleavings(a, b[1:]):
        yield [b[0]] + r


def _exhaustive_scheds(tier):
    out = []
    sizes = [1, 2, 3] if tier == "quick" else [1, 2, 3, 4]
    for n in sizes:
        sat_choices = [list(range(n)), [i for i in range(n) if i % 2 == 0], [n - 1]]
        for s0, s1 in itertools.product(sat_choices[:2], sat_choices):
            k0, k1 = min(n + 1, 3), min(n + 1, 3)
            a = [("start", 0)] + [("next", 0)] * k0
            b = [("start", 1)] + [("next", 1)] * k1
            for ops in _interleavings(a, b):
                out.append(Case(_sched_line(n, {0: s0, 1: s1}, ops), ("sched", "exhaustive", f"n{n}"), "exhaustive"))
    return out


def _random_sched(rng):
    n = rng.randrange(1, 5)
    k = rng.choice([2, 3, 3])
    sats = {i: sorted(rng.sample(range(n), rng.randrange(0, n + 1))) for i in range(k)}
    ops, live, started = [], set(), 0
    for _ in range(rng.randrange(3, 14)):
        r = rng.random()
        if (r < 0.25 and started < k) or not live:
            if started < k:
                ops.append(("start", started)); live.add(started); started += 1
            continue
        i = rng.choice(sorted(live))
        if r < 0.9:
            ops.append(("next", i))
        else:
            ops.append(("abandon", i)); live.discard(i)
    return Case(_sched_line(n, sats, ops), ("sched", "random", f"iters{k}"), "random")


def _warm_shared_sched(rng):
    """one query object, fully evaluated once (so the domain is cached), then two or three evaluations of that SAME
    object consumed in an interleaved fashion, with a tight never-violated AtMost constraint"""
    n = rng.randrange(1, 5)
    sat = sorted(rng.sample(range(n), rng.randrange(1, n + 1)))
    k = rng.choice([2, 2, 3])
    sats = {0: sat}
    alias = {}
    for j in range(1, k + 1):
        sats[j] = sat
        alias[j] = 0
    ops = [("start", 0)] + [("next", 0)] * (len(sat) + 1)
    pend = {j: len(sat) + 1 for j in range(1, k + 1)}
    started = set()
    while pend:
        j = rng.choice(sorted(pend))
        if j not in started:
            ops.append(("start", j)); started.add(j)
            continue
        ops.append(("next", j))
        pend[j] -= 1
        if pend[j] <= 0:
            del pend[j]
    return Case(_sched_line(n, sats, ops, alias, tight=True), ("sched", "warm-shared", f"iters{k}"), "random")


def _sequential_sched(rng):
    """non-overlapping evaluations with abandonment and repetition (the fragment of C03_sequential_partial)"""
    n = rng.randrange(1, 5)
    k = rng.choice([1, 2, 3])
    sats = {i: sorted(rng.sample(range(n), rng.randrange(0, n + 1))) for i in range(k)}
    ops = []
    for _ in range(rng.randrange(2, 5)):
        i = rng.randrange(k)
        ops.append(("start", i))
        ops += [("next", i)] * rng.randrange(0, n + 2)
        if rng.random() < 0.5:
            ops.append(("abandon", i))
    return Case(_sched_line(n, sats, ops), ("sched", "sequential", f"iters{k}"), "random")


def _multi(rng):
    nq = rng.choice([1, 2, 2, 3])
    nv = rng.choice([1, 2, 2, 3])
    vs = ["x", "y", "z"][:nv]
    falsy = rng.random() < 0.4      # falsy values (0, False, empty collections) in domains and attributes
    kinds, objs, doms = G.gen_world(rng, vs, falsy=falsy)
    G.EXT["index_ok"] = False
    queries = []
    for _ in range(nq):
        cond = G.gen_cond(rng, vs, kinds, rng.randrange(0, 3), [], 0 if falsy else 1, allow_q=False)
        used = [v for v in vs if v in G.c_allvars(cond)] or [vs[0]]
        sel = [("var", v) for v in rng.sample(used, rng.randrange(1, len(used) + 1))]
        queries.append({"sel": sel, "cond": cond})
    order = []
    for _ in range(rng.randrange(2, 5)):
        order.append((rng.randrange(nq), rng.choice([-1, -1, 0, 1, 2])))
    world = {"objs": objs, "doms": doms, "kinds": kinds}
    return _multi_case(world, queries, order)


def _multi_subquery(rng):
    """a query with a nested sub-query operand (`an(entity(y, …))` inside a comparison), built ONCE and evaluated several
    times (partially, fully): the nested quantifier object lives as long as the query"""
    q = G.gen_subquery_query(rng)
    queries = [{"sel": q["sel"], "cond": q["cond"]}]
    world = {"objs": q["objs"], "doms": q["doms"], "kinds": q["kinds"]}
    if rng.random() < 0.4:
        # a second, plain query over the same variables, evaluated in between
        vs = [v for v in q["doms"] if q["kinds"][v] == "obj"]
        if vs:
            v = rng.choice(vs)
            queries.append({"sel": [("var", v)], "cond": ("cmp", rng.choice(list(G.OPS)), ("attr", ("var", v), "a"), ("lit", rng.randrange(1, 3)))})
    order = [(rng.randrange(len(queries)) if i else 0, rng.choice([-1, -1, 0, 1, 2])) for i in range(rng.randrange(2, 5))]
    case = _multi_case(world, queries, order)
    case.tags = ("multi", "subquery-operand", f"evals{len(order)}")
    return case


def _shared_condition(rng):
    """a compound condition object stored once and used in two queries: first alone (a conjunctive query, evaluated),
    then as an operand of or_/and_/not_ in a second query built afterwards"""
    nv = rng.choice([1, 1, 2])
    vs = ["x", "y"][:nv]
    kinds, objs, doms = G.gen_world(rng, vs, falsy=False)
    G.EXT["index_ok"] = False
    fl = G.EXT["flatten"]
    G.EXT["flatten"] = False
    try:
        def conj():
            parts = [G.gen_atom(rng, vs, kinds, 1, must=v) for v in vs] + [G.gen_atom(rng, vs, kinds, 1, must=rng.choice(vs))]
            c = parts[0]
            for p in parts[1:]:
                c = ("and", c, p)
            return c
        c, d = conj(), conj()
    finally:
        G.EXT["flatten"] = fl
    second = rng.choice([("or", c, d), ("or", d, c), ("and", c, d), ("not", c), ("or", c, ("not", d))])
    sel = [("var", v) for v in rng.sample(vs, rng.randrange(1, nv + 1))]
    queries = [{"sel": sel, "cond": c}, {"sel": sel, "cond": second}]
    order = [(0, rng.choice([-1, -1, 1])), (1, -1)] + ([(0, -1)] if rng.random() < 0.3 else [])
    case = _multi_case({"objs": objs, "doms": doms, "kinds": kinds}, queries, order, sharecond=True)
    case.tags = ("multi", "shared-condition", second[0])
    return case


def _shared_attribute(rng):
    """ONE attribute node object (`active = x.f`) used first as a plain comparison operand in a query that is evaluated,
    then as a boolean condition in a second query built afterwards"""
    kinds, objs, doms = G.gen_world(rng, ["x"], falsy=False, int_p=0.0)
    xf = ("attr", ("var", "x"), "f")
    xa = ("attr", ("var", "x"), "a")
    q1c = rng.choice([("cmp", "eq", xf, ("lit", False)), ("cmp", "ne", xf, ("lit", True)), ("cmp", "eq", xf, ("lit", True)),
                      ("and", ("cmp", "eq", xf, ("lit", False)), ("cmp", "ge", xa, ("lit", 1)))])
    # (the shared node is never the ROOT condition of the second query: a node caches its conditions root at first
    # use, which is a facet of the recorded finding F-C03-3)
    q2c = rng.choice([("and", ("truth", xf), ("cmp", "ge", xa, ("lit", rng.randrange(1, 4)))),
                      ("and", ("cmp", "le", xa, ("lit", rng.randrange(1, 4))), ("truth", xf)),
                      ("not", ("truth", xf))])
    sel = [("var", "x")]
    queries = [{"sel": sel, "cond": q1c}, {"sel": sel, "cond": q2c}]
    order = [(0, rng.choice([-1, -1, 0, 1])), (1, -1)]
    case = _multi_case({"objs": objs, "doms": doms, "kinds": kinds}, queries, order, shareattr=True)
    case.tags = ("multi", "shared-attribute-node", q2c[0])
    return case


def _multi_case(world, queries, order, sharecond=False, shareattr=False):
    q0 = {"sel": [], "cond": None, "objs": world["objs"], "doms": world["doms"]}
    full = G.sx_query({**q0, "sel": [("var", next(iter(world["doms"])))]})
    # reuse the printers of eqlgen for the world part
    objs_part = full[full.index("(objs"):full.index("(doms")].strip()
    doms_part = full[full.index("(doms"):-1].strip()
    qparts = []
    for q in queries:
        ids = G._LitIds()
        head = "qqx" if G.has_subq(q["cond"]) else "qq"
        qparts.append("(" + head + " (sel " + " ".join(G.sx_term(t, ids) for t in q["sel"]) + ") (cond " + G.sx_cond(q["cond"], ids) + "))")
    line = "(multi (order " + " ".join(f"({a} {b})" for a, b in order) + ") " + objs_part + " " + doms_part + \
           " (queries " + " ".join(qparts) + ")" + (" (sharecond)" if sharecond else "") + (" (shareattr)" if shareattr else "") + ")"
    return Case(line, ("multi", f"queries{len(queries)}", f"evals{len(order)}"), "random",
                {"world": world, "queries": queries, "order": order, "sharecond": sharecond, "shareattr": shareattr})


def generate(rng, tier, n):
    out = _exhaustive_scheds(tier)
    for i in range(n):
        r = rng.random()
        if r < 0.25:
            out.append(_random_sched(rng))
        elif r < 0.4:
            out.append(_sequential_sched(rng))
        elif r < 0.55:
            out.append(_warm_shared_sched(rng))
        elif r < 0.7:
            out.append(_shared_condition(rng))
        elif r < 0.78:
            out.append(_shared_attribute(rng))
        elif r < 0.86:
            out.append(_multi_subquery(rng))
        else:
            out.append(_multi(rng))
    return out


def revive(case: Case) -> Case:
    if case.payload is not None:
        return case
    s = G.parse_sexp(case.line)
    if s[0] in ("sched", "sharedsub", "rulereeval"):
        return case
    d = {(p[0] if isinstance(p, list) else p): (p[1:] if isinstance(p, list) else []) for p in s[1:]}
    fake = G.parse_query("(q (sel) (objs " + " ".join(_unparse(o) for o in d["objs"]) + ") (doms " +
                         " ".join(_unparse(x) for x in d["doms"]) + "))")
    world = {"objs": fake["objs"], "doms": fake["doms"]}
    queries = [{"sel": [G._p_term(t) for t in dict((p[0], p[1:]) for p in qq[1:])["sel"]],  # qq and qqx alike
                "cond": G._p_cond(dict((p[0], p[1:]) for p in qq[1:])["cond"][0])} for qq in d["queries"]]
    order = [(int(a), int(b)) for a, b in d["order"]]
    case.payload = {"world": world, "queries": queries, "order": order,
                    "sharecond": any(p == ["sharecond"] for p in s[1:]),
                    "shareattr": any(p == ["shareattr"] for p in s[1:])}
    return case


def _unparse(s) -> str:
    return s if isinstance(s, str) else "(" + " ".join(_unparse(x) for x in s) + ")"


def nontrivial(case: Case, spec: str) -> bool:
    if case.line in ("(sharedsub)", "(rulereeval)"):
        return False
    if case.line.startswith("(sched"):
        return any(t.isdigit() for t in spec.split()) and case.line.count("(start") >= 2
    return "(" in spec and spec.count(";") >= 1


def shrink(case: Case):
    s = G.parse_sexp(case.line)
    if s[0] != "sched":
        return
    d = {p[0]: p[1:] for p in s[1:]}
    ops = [(o[0], int(o[1])) for o in d["ops"]]
    n = int(d["n"][0])
    sats = {int(x[0]): [int(e) for e in x[1:]] for x in d["sats"]}
    alias = {int(a[0]): int(a[1]) for a in d.get("alias", [])}
    tight = any(p == ["tight"] for p in s[1:])
    for i in range(len(ops)):
        yield Case(_sched_line(n, sats, ops[:i] + ops[i + 1:], alias, tight), case.tags, "shrink")


# ---------------------------------------------------------------------------------------------- real code

class _Item:
    def __init__(self, i, a):
        self.i, self.a = i, a


def _run_sched(line: str) -> str:
    from krrood.entity_query_language.entity import let, entity, in_
    from krrood.entity_query_language.quantify_entity import an
    s = G.parse_sexp(line)
    d = {(p[0] if isinstance(p, list) else p): (p[1:] if isinstance(p, list) else []) for p in s[1:]}
    n = int(d["n"][0])
    sats = {int(x[0]): [int(e) for e in x[1:]] for x in d["sats"]}
    ops = [(o[0], int(o[1])) for o in d["ops"]]
    alias = {int(a[0]): int(a[1]) for a in d.get("alias", [])}
    tight = "tight" in d
    items = [_Item(i, i + 1) for i in range(n)]          # a = i+1: truthy values only
    x = let(_Item, (it for it in items), name="x")        # ONE shared variable, one-shot generator domain
    queries = {}
    for i, es in sats.items():
        if i in alias:
            continue
        kw = {}
        if tight:
            from krrood.entity_query_language.result_quantification_constraint import AtMost
            kw["quantification"] = AtMost(len(es))
        queries[i] = an(entity(x, in_(x.a, [e + 1 for e in es])), **kw)
    for j, i in alias.items():
        queries[j] = queries[i]
    its, out = {}, []
    for op, i in ops:
        if op == "start":
            its[i] = iter(queries[i].evaluate()) if i in queries else iter(())
            out.append("-")
        elif op == "abandon":
            it = its.pop(i, None)
            if it is not None and hasattr(it, "close"):
                it.close()
            out.append("-")
        else:
            it = its.get(i)
            if it is None:
                out.append("stop")
                continue
            try:
                out.append(str(next(it).i))
            except StopIteration:
                out.append("stop")
            except Exception as e:  # noqa: BLE001
                out.append(type(e).__name__)
    return " ".join(out)


def _run_multi(p) -> str:
    world, queries, order = p["world"], p["queries"], p["order"]
    q0 = {"objs": world["objs"], "doms": world["doms"], "kinds": world.get("kinds", {})}
    objs = G.make_objects(q0)
    V = G.make_vars(q0, objs, one_shot=True)
    memo = {} if p.get("sharecond") else None
    amemo = {} if p.get("shareattr") else None
    lazy = memo is not None or amemo is not None
    built = {} if lazy else {i: G.build_query({**q0, **q}, V, objs) for i, q in enumerate(queries)}
    outs = []
    for qi, k in order:
        if qi not in built:
            # shared-condition flavour: a query is built right before its first evaluation, re-using condition objects
            built[qi] = G.build_query({**q0, **queries[qi]}, V, objs, cond_memo=memo, attr_memo=amemo)
        query, sel, single = built[qi]
        rows = []
        try:
            it = iter(query.evaluate())
            while k < 0 or len(rows) < k:
                try:
                    r = next(it)
                except StopIteration:
                    break
                rows.append(G.show_row((r,)) if single else G.show_row(tuple(r[kk] for kk in sel)))
            if hasattr(it, "close"):
                it.close()
            outs.append("[" + " ".join(rows) + "]")
        except Exception as e:  # noqa: BLE001
            outs.append("exc:" + type(e).__name__)
    return " ; ".join(outs)


def _shared_sub() -> str:
    """F-C03-3: constructing a second query over a shared sub-expression node changes the first query's result"""
    from krrood.entity_query_language.entity import let, entity
    from krrood.entity_query_language.quantify_entity import an
    objs = [G.P(i, 0, {"f": f}) for i, f in enumerate([True, False, False])]
    x = let(object, objs, name="x")
    xf = x.f
    q1 = an(entity(x, xf))
    q2 = an(entity(x, xf == False))  # noqa: E712,F841  (construction only)
    return "[" + " ".join(G.show_row((r,)) for r in q1.evaluate()) + "]"


def _rule_reeval() -> str:
    """F-C03-2 (fixed, corpus case): a rule query with a conclusion selector (alternative) evaluated twice"""
    from dataclasses import dataclass
    from krrood.entity_query_language.entity import let, entity, inference
    from krrood.entity_query_language.quantify_entity import an
    from krrood.entity_query_language.rule import alternative
    from krrood.entity_query_language.conclusion import Add
    from krrood.entity_query_language.predicate import Symbol
    from krrood.entity_query_language.symbol_graph import SymbolGraph

    @dataclass(eq=False)
    class RSrc(Symbol):
        a: int

    @dataclass(eq=False)
    class RView(Symbol):
        src: RSrc = None

    @dataclass(eq=False)
    class RSpecial(RView):
        ...

    SymbolGraph().clear(); SymbolGraph()
    srcs = [RSrc(i) for i in (1, 2, 3)]
    x = let(RSrc, srcs, name="x")
    q = an(entity(views := let(RView, None), x.a >= 2))
    with q:
        Add(views, inference(RView)(src=x))
        with alternative(x.a == 1):
            Add(views, inference(RSpecial)(src=x))
    def obs():
        return sorted((type(v).__name__, v.src.a) for v in q.evaluate())
    first, second = obs(), obs()
    return "same" if first == second and first else f"first={first} second={second}"


def _one(case: Case) -> str:
    try:
        if case.line == "(rulereeval)":
            return _rule_reeval()
        if case.line == "(sharedsub)":
            return _shared_sub()
        if case.line.startswith("(sched"):
            return _run_sched(case.line)
        return _run_multi(revive(case).payload)
    except Exception as e:  # noqa: BLE001
        return "exc:" + type(e).__name__


def run_impl(cases):
    return [_one(c) for c in cases]
