"""C03 — evaluations are repeatable and do not interfere with each other.

Stream A (`sched`): 2-3 single-variable query objects over ONE shared variable whose domain is a one-shot generator;
an explicit schedule of start/next/abandon steps (all interleavings up to a length, exhaustively at small scope).
Observation per step: the element index returned, `stop`, or the exception class.
Stream B (`multi`): arbitrary generated queries (C01's generator) sharing their variables, evaluated one after the
other, each evaluation consuming k results before it is abandoned. Observation per evaluation: its row sequence.
Stream C (`rhist`): ONE rule query object (a C08 rule program: refinement / alternative / next_rule blocks, one
`Add(views, inference(K_c)(src=x))` per block) under a history of `start | next | abandon | full | grow` steps: evaluations
consumed step by step, abandoned at a `yield`, overlapping, and the rule tree grown by further `with query:` blocks between
evaluations. Observation per step RELATIVE to the isolated run (the same `with` blocks written on a fresh query, evaluated
alone): `=` / `!row` / `!stop` / `![rows]`. Model: `RuleHist.model` (Model/RuleHistory.lean).
Specification for all: what the same query yields when run alone on a fresh query object."""
from __future__ import annotations

import itertools
import random

import eqlgen as G
from core import Case

PID = "C03"
LEAN_MODULES = ["KrroodVerif.Props.C03", "KrroodVerif.Props.C03Shape", "KrroodVerif.Props.C03Rules"]
THEOREMS = [
    "KrroodVerif.Dom.C03_sequential_partial",
    "KrroodVerif.Dom.C03_nonoverlap_partial",
    "KrroodVerif.Dom.C03_full",
    "KrroodVerif.Dom.C03_repair_conservative",
    "KrroodVerif.Dom.C03_alone",
    "KrroodVerif.Dom.C03_alone_idx",
    "KrroodVerif.Dom.C03_abandon_irrelevant",
    "KrroodVerif.Dom.C03_cex_interleaved",
    "KrroodVerif.Dom.C03_cex_runtime_error",
    "KrroodVerif.Dom.C03_sequential_decidable_nonvacuous",
    "KrroodVerif.Dom.step_eq_interp",
    "KrroodVerif.Dom.stepIdx_eq_interp",
    "KrroodVerif.Dom.C03_shape_is_model",
    "KrroodVerif.Dom.C03_shape_is_model_idx",
    "KrroodVerif.Dom.C03_shape_nonoverlap",
    "KrroodVerif.Dom.C03_shape_full",
    "KrroodVerif.Dom.C03_shape_cex",
    "KrroodVerif.Dom.C03_shape_ok_tight",
    "KrroodVerif.Dom.C03_shape_handed_out_cached",
    "KrroodVerif.RuleHist.C03_rules_sequential",
    "KrroodVerif.RuleHist.C03_rules_interleaved",
    "KrroodVerif.RuleHist.C03_cex_rule_abandoned",
    "KrroodVerif.RuleHist.C03_cex_rule_suspended",
    "KrroodVerif.RuleHist.C03_cex_rule_stale_parent",
    # RULE_THEOREMS
]
MODEL_FUNCTION = ("Dom.run / Dom.step / Dom.qnext (Model/Dom.lean); Dom.runS / Dom.stepS over the regenerated IterShape "
                  "(Model/DomShape.lean); Eql.evalQuery for isolated results; "
                  "RuleHist.model = RuleHist.run/step/evalG/growStep (Model/RuleHistory.lean) for rule-query histories")
TRUSTED = [
    "Lean 4.33 kernel; axioms of each theorem listed under coverage.theorems",
    "hand-written models Model/Dom.lean (HashedIterable cursors), Model/Eql.lean and Model/RuleHistory.lean (resumable "
    "generators of the conclusion selectors over the node state of Model/Rule.lean, _reset_evaluation_state_, stale "
    "_eval_parent_ during tree surgery)",
    "this correspondence harness (schedule enumeration against real query iterators), the S-expression driver",
    "the translator harness/translate/c03_translate.py (HashedIterable.__iter__/__bool__/add/set_iterable/__post_init__ -> "
    "IterShape): strict (unrecognised statements are rejected); its reading of the recognised statements and the "
    "interpreter Dom.stepS of an IterShape are trusted, and validated in every run: the `model=` of every schedule case is "
    "the machine interpreted from the shape translated in that run (under the eight seeded changes to __iter__ the "
    "interpreted machine reproduced the real code on every explored schedule, see notes/build_reports/C03_shape.md)",
]
ASSUMPTIONS = [
    "single-threaded use (the engine and the property are single-threaded); CPython dict-view iteration raises "
    "RuntimeError when the dict grew since the view iterator was created",
    "domains contain pairwise distinct objects",
    "rule histories: the abstraction of C08 (one rule variable, conditions in_(x.a, [...]), one Add per block); the rule "
    "tree is grown only at the rule's own level (further `with query:` blocks) and only while no iterator of the query is "
    "suspended; in histories with overlapping evaluations the variable's domain is completely cached first (otherwise "
    "F-C03-1 acts on top of the selector state)",
]
RULE = ("corpus; exhaustive interleavings of 2 iterators (domain sizes 1-3, up to 4 next() each, abandonment points) "
        "plus random schedules of 3 iterators; random sequential re-evaluation orders of 1-3 generated queries sharing "
        "variables with partial consumption; 2-3 queries sharing ONE attribute node object in different roles (whole "
        "condition, conjunct, negated, comparison operand), written up front or right before their first evaluation; 1-2 queries over variables WITHOUT a domain (instances of the "
        "SymbolGraph, created between the evaluations) incl. selected mappings of a variable no condition mentions; rule-query histories (one in four random cases): generated C08 programs "
        "with <= 6 blocks under sequential histories with abandonment, histories that grow the tree between "
        "evaluations, overlapping histories of 2-3 iterators plus complete evaluations, and results handed out before "
        "/ read after another evaluation; non-trivial = some iterator returns at least one element and the "
        "schedule has >=2 iterators or >=2 evaluations; distinct by case text")


def budget(tier: str) -> int:
    return 800 if tier == "quick" else 12000


# ---------------------------------------------------------------------------------------------- second tie: translation

_SHAPE = {"done": False, "item": "", "shape": None, "error": None}


def _shape():
    """the IterShape of /repo's CURRENT HashedIterable.__iter__/__bool__ (once per process); `item` is the `(shape …)`
    text appended to every generated `sched` line ("" when the translator rejects the source: the driver then falls back
    to the hand-written machine of today's code)"""
    if not _SHAPE["done"]:
        import core
        from translate import c03_translate as T
        _SHAPE["done"] = True
        try:
            d = T.describe((core.REPO / T.FILE).read_text())
            _SHAPE["shape"], _SHAPE["item"] = d, " " + T.sexp_item(d)
        except (T.TranslationError, SyntaxError, OSError) as e:
            _SHAPE["error"] = str(e)
    return _SHAPE


def _check_generated(tag: str, text: str, names):
    """compile one generated Lean file; per obligation: does the kernel accept it, and on which axioms"""
    import os
    import re
    import subprocess
    import core
    tmp = core.LEAN_DIR / ".lake" / "audit"
    tmp.mkdir(parents=True, exist_ok=True)
    f = tmp / f"C03{tag}_{os.getpid()}.lean"
    f.write_text(text + "".join(f"#print axioms {n}\n" for n in names))
    try:
        p = subprocess.run(["lake", "env", "lean", str(f)], cwd=str(core.LEAN_DIR), capture_output=True, text=True, timeout=600)
    finally:
        try:
            f.unlink()
        except OSError:
            pass
    out = " ".join(((p.stdout or "") + (p.stderr or "")).split())
    res = []
    for n in names:
        m = re.search(r"'" + re.escape(n) + r"' depends on axioms: \[([^\]]*)\]", out)
        none = re.search(r"'" + re.escape(n) + r"' does not depend on any axioms", out)
        ax = [a.strip() for a in m.group(1).split(",")] if m else ([] if none else None)
        # per obligation: a theorem whose `decide` fails is added with `sorryAx` (or not at all), the others still check
        ok = ax is not None and set(ax) <= core.ALLOWED_AXIOMS
        res.append({"name": n, "ok": ok, "axioms": ax, "detail": (p.stdout or "")[-2000:] + (p.stderr or "")[-1000:]})
    if p.returncode != 0 and all(r["ok"] for r in res):
        for r in res:       # the file failed for a reason that is none of the obligations: nothing is established
            r["ok"] = False
    return res


def shape_obligations():
    """Second, translator-based tie. From /repo's CURRENT hashed_data.py regenerate the `IterShape` of
    HashedIterable.__iter__/__bool__ and have the kernel re-check, by `decide`, that it is one of the two hand-written
    machines (`Dom.shape` / `Dom.shapeIdx`) or the snapshot variant, and satisfies `IterOk` (Props/C03Shape.lean turns that into the property on
    every non-overlapping schedule, for all domains and query families) — and `IterFullOk` (every schedule) once F-C03-1
    is not an open finding any more."""
    import core
    from translate import c03_translate as T
    open_ids = {f["id"] for f in core.load_findings(PID)[0]}
    full = "F-C03-1" not in open_ids
    names = list(T.OBLIGATIONS) + ([T.FULL_OBLIGATION] if full else [])
    sh = _shape()
    if sh["shape"] is None:
        res = [{"name": n, "ok": False, "detail": f"translator rejected the source: {sh['error']}"} for n in names]
    else:
        res = _check_generated("Shape", T.render(sh["shape"], full), names)
    for r in res:
        if not r["ok"]:
            d = r.get("detail", "")
            why = d if d.startswith("translator rejected") else \
                f"the kernel no longer accepts it for the regenerated shape{sh['item']}"
            print(f"obligation broken: {r['name']} ({why}); searching a concrete failing input through the correspondence")
    return res


def extra_coverage():
    sh = _shape()
    return {"iter_shape": sh["shape"], "iter_shape_translation_error": sh["error"]}


# ---------------------------------------------------------------------------------------------- generation

def _sched_line(n, sats, ops, alias=None, tight=False):
    """alias {j: i}: iterator j evaluates the SAME query object as iterator i (their sats coincide);
    tight: every query carries the constraint AtMost(number of its solutions), which a correct count never violates"""
    s_sats = " ".join("(" + " ".join([str(i)] + [str(e) for e in es]) + ")" for i, es in sats.items())
    s_ops = " ".join(f"({o} {i})" for o, i in ops)
    extra = ""
    if alias:
        extra += " (alias " + " ".join(f"({j} {i})" for j, i in alias.items()) + ")"
    if tight:
        extra += " (tight)"
    return f"(sched (n {n}) (sats {s_sats}) (ops {s_ops}){extra}{_shape()['item']})"


def _interleavings(a, b):
    """all merges of two op sequences"""
    if not a:
        yield list(b)
        return
    if not b:
        yield list(a)
        return
    for r in _interleavings(a[1:], b):
        yield [a[0]] + r
    for r in _interleavings(a, b[1:]):
        yield [b[0]] + r


def _exhaustive_scheds(tier):
    out = []
    # a domain WITHOUT elements (the generator is truthy, the cache stays empty): evaluated again and again, in every
    # interleaving, by two queries; every next() is the end
    for k0, k1 in ((1, 1), (2, 1), (1, 2), (2, 2)):
        a = [("start", 0)] + [("next", 0)] * k0
        b = [("start", 1)] + [("next", 1)] * k1
        for ops in _interleavings(a, b):
            out.append(Case(_sched_line(0, {0: [], 1: []}, ops), ("sched", "exhaustive", "n0"), "exhaustive"))
        out.append(Case(_sched_line(0, {0: [], 1: []}, a + a + b), ("sched", "exhaustive", "n0"), "exhaustive"))
    sizes = [1, 2, 3] if tier == "quick" else [1, 2, 3, 4]
    for n in sizes:
        sat_choices = [list(range(n)), [i for i in range(n) if i % 2 == 0], [n - 1]]
        for s0, s1 in itertools.product(sat_choices[:2], sat_choices):
            k0, k1 = min(n + 1, 3), min(n + 1, 3)
            a = [("start", 0)] + [("next", 0)] * k0
            b = [("start", 1)] + [("next", 1)] * k1
            for ops in _interleavings(a, b):
                out.append(Case(_sched_line(n, {0: s0, 1: s1}, ops), ("sched", "exhaustive", f"n{n}"), "exhaustive"))
    return out


def _random_sched(rng):
    n = rng.randrange(1, 5)
    k = rng.choice([2, 3, 3])
    sats = {i: sorted(rng.sample(range(n), rng.randrange(0, n + 1))) for i in range(k)}
    ops, live, started = [], set(), 0
    for _ in range(rng.randrange(3, 14)):
        r = rng.random()
        if (r < 0.25 and started < k) or not live:
            if started < k:
                ops.append(("start", started)); live.add(started); started += 1
            continue
        i = rng.choice(sorted(live))
        if r < 0.9:
            ops.append(("next", i))
        else:
            ops.append(("abandon", i)); live.discard(i)
    return Case(_sched_line(n, sats, ops), ("sched", "random", f"iters{k}"), "random")


def _warm_shared_sched(rng):
    """one query object, fully evaluated once (so the domain is cached), then two or three evaluations of that SAME
    object consumed in an interleaved fashion, with a tight never-violated AtMost constraint"""
    n = rng.randrange(1, 5)
    sat = sorted(rng.sample(range(n), rng.randrange(1, n + 1)))
    k = rng.choice([2, 2, 3])
    sats = {0: sat}
    alias = {}
    for j in range(1, k + 1):
        sats[j] = sat
        alias[j] = 0
    ops = [("start", 0)] + [("next", 0)] * (len(sat) + 1)
    pend = {j: len(sat) + 1 for j in range(1, k + 1)}
    started = set()
    while pend:
        j = rng.choice(sorted(pend))
        if j not in started:
            ops.append(("start", j)); started.add(j)
            continue
        ops.append(("next", j))
        pend[j] -= 1
        if pend[j] <= 0:
            del pend[j]
    return Case(_sched_line(n, sats, ops, alias, tight=True), ("sched", "warm-shared", f"iters{k}"), "random")


def _sequential_sched(rng):
    """non-overlapping evaluations with abandonment and repetition (the fragment of C03_sequential_partial)"""
    n = rng.randrange(0, 5)
    k = rng.choice([1, 2, 3])
    sats = {i: sorted(rng.sample(range(n), rng.randrange(0, n + 1))) for i in range(k)}
    ops = []
    for _ in range(rng.randrange(2, 5)):
        i = rng.randrange(k)
        ops.append(("start", i))
        ops += [("next", i)] * rng.randrange(0, n + 2)
        if rng.random() < 0.5:
            ops.append(("abandon", i))
    return Case(_sched_line(n, sats, ops), ("sched", "sequential", f"iters{k}"), "random")


def _multi(rng):
    nq = rng.choice([1, 2, 2, 3])
    nv = rng.choice([1, 2, 2, 3])
    vs = ["x", "y", "z"][:nv]
    falsy = rng.random() < 0.4      # falsy values (0, False, empty collections) in domains and attributes
    kinds, objs, doms = G.gen_world(rng, vs, falsy=falsy)
    G.EXT["index_ok"] = False
    queries = []
    for _ in range(nq):
        cond = G.gen_cond(rng, vs, kinds, rng.randrange(0, 3), [], 0 if falsy else 1, allow_q=False)
        used = [v for v in vs if v in G.c_allvars(cond)] or [vs[0]]
        sel = [("var", v) for v in rng.sample(used, rng.randrange(1, len(used) + 1))]
        queries.append({"sel": sel, "cond": cond})
    order = []
    for _ in range(rng.randrange(2, 5)):
        order.append((rng.randrange(nq), rng.choice([-1, -1, 0, 1, 2])))
    world = {"objs": objs, "doms": doms, "kinds": kinds}
    return _multi_case(world, queries, order)


def _multi_subquery(rng):
    """a query with a nested sub-query operand (`an(entity(y, …))` inside a comparison), built ONCE and evaluated several
    times (partially, fully): the nested quantifier object lives as long as the query"""
    q = G.gen_subquery_query(rng)
    queries = [{"sel": q["sel"], "cond": q["cond"]}]
    world = {"objs": q["objs"], "doms": q["doms"], "kinds": q["kinds"]}
    if rng.random() < 0.4:
        # a second, plain query over the same variables, evaluated in between
        vs = [v for v in q["doms"] if q["kinds"][v] == "obj"]
        if vs:
            v = rng.choice(vs)
            queries.append({"sel": [("var", v)], "cond": ("cmp", rng.choice(list(G.OPS)), ("attr", ("var", v), "a"), ("lit", rng.randrange(1, 3)))})
    order = [(rng.randrange(len(queries)) if i else 0, rng.choice([-1, -1, 0, 1, 2])) for i in range(rng.randrange(2, 5))]
    case = _multi_case(world, queries, order)
    case.tags = ("multi", "subquery-operand", f"evals{len(order)}")
    return case


def _shared_condition(rng):
    """a compound condition object stored once and used in two queries: first alone (a conjunctive query, evaluated),
    then as an operand of or_/and_/not_ in a second query built afterwards"""
    nv = rng.choice([1, 1, 2])
    vs = ["x", "y"][:nv]
    kinds, objs, doms = G.gen_world(rng, vs, falsy=False)
    G.EXT["index_ok"] = False
    fl = G.EXT["flatten"]
    G.EXT["flatten"] = False
    try:
        def conj():
            parts = [G.gen_atom(rng, vs, kinds, 1, must=v) for v in vs] + [G.gen_atom(rng, vs, kinds, 1, must=rng.choice(vs))]
            c = parts[0]
            for p in parts[1:]:
                c = ("and", c, p)
            return c
        c, d = conj(), conj()
    finally:
        G.EXT["flatten"] = fl
    second = rng.choice([("or", c, d), ("or", d, c), ("and", c, d), ("not", c), ("or", c, ("not", d))])
    sel = [("var", v) for v in rng.sample(vs, rng.randrange(1, nv + 1))]
    queries = [{"sel": sel, "cond": c}, {"sel": sel, "cond": second}]
    order = [(0, rng.choice([-1, -1, 1])), (1, -1)] + ([(0, -1)] if rng.random() < 0.3 else [])
    case = _multi_case({"objs": objs, "doms": doms, "kinds": kinds}, queries, order, sharecond=True)
    case.tags = ("multi", "shared-condition", second[0])
    return case


def _shared_attribute(rng):
    """ONE attribute node object (`active = x.f`) used first as a plain comparison operand in a query that is evaluated,
    then as a boolean condition in a second query built afterwards"""
    kinds, objs, doms = G.gen_world(rng, ["x"], falsy=False, int_p=0.0)
    xf = ("attr", ("var", "x"), "f")
    xa = ("attr", ("var", "x"), "a")
    q1c = rng.choice([("cmp", "eq", xf, ("lit", False)), ("cmp", "ne", xf, ("lit", True)), ("cmp", "eq", xf, ("lit", True)),
                      ("and", ("cmp", "eq", xf, ("lit", False)), ("cmp", "ge", xa, ("lit", 1)))])
    # (the shared node is never the ROOT condition of the second query: a node caches its conditions root at first
    # use, which is a facet of the recorded finding F-C03-3)
    q2c = rng.choice([("and", ("truth", xf), ("cmp", "ge", xa, ("lit", rng.randrange(1, 4)))),
                      ("and", ("cmp", "le", xa, ("lit", rng.randrange(1, 4))), ("truth", xf)),
                      ("not", ("truth", xf))])
    sel = [("var", "x")]
    queries = [{"sel": sel, "cond": q1c}, {"sel": sel, "cond": q2c}]
    order = [(0, rng.choice([-1, -1, 0, 1])), (1, -1)]
    case = _multi_case({"objs": objs, "doms": doms, "kinds": kinds}, queries, order, shareattr=True)
    case.tags = ("multi", "shared-attribute-node", q2c[0])
    return case


def _shared_attribute_roles(rng):
    """ONE attribute node object (`active = x.f`) used by 2-3 query objects in DIFFERENT roles — as the whole condition, as
    a conjunct / negated condition, as a comparison operand — built up front (`eager`) or right before their first
    evaluation, then evaluated one after the other in a random order, partially consumed or completely: the FIRST
    evaluation of a query comes after evaluations of the others, whose last inspected value may be falsy"""
    kinds, objs, doms = G.gen_world(rng, ["x"], falsy=False, int_p=0.0, max_objs=5)
    xf = ("attr", ("var", "x"), "f")
    xa = ("attr", ("var", "x"), "a")
    def as_condition():
        return rng.choice([("truth", xf), ("truth", xf), ("and", ("cmp", "ge", xa, ("lit", rng.randrange(1, 3))), ("truth", xf)),
                           ("and", ("truth", xf), ("cmp", "le", xa, ("lit", rng.randrange(1, 4)))), ("not", ("truth", xf))])
    def as_operand():
        c = ("cmp", rng.choice(["eq", "ne"]), xf, ("lit", rng.random() < 0.5))
        return rng.choice([c, c, ("and", ("cmp", "ge", xa, ("lit", rng.randrange(1, 3))), c), ("not", c)])
    nq = rng.choice([2, 2, 3])
    roles = [as_condition, as_operand] + [rng.choice([as_condition, as_operand])]
    rng.shuffle(roles)
    sel = [("var", "x")]
    queries = [{"sel": sel, "cond": roles[i]()} for i in range(nq)]
    order = [(rng.randrange(nq), rng.choice([-1, -1, -1, 0, 1, 2])) for _ in range(rng.randrange(2, 6))]
    eager = rng.random() < 0.5
    whole = [q for q in queries if q["cond"] == ("truth", xf)]
    if whole:
        # a node has ONE parent (the expression built last) and caches its conditions root at its first evaluation: the
        # queries whose WHOLE condition is the shared node are written first, all queries before the first evaluation
        # (outside that region today's code loses answers: see notes/build_reports/s6a.md, candidate finding)
        queries = whole + [q for q in queries if q["cond"] != ("truth", xf)]
        eager = True
    case = _multi_case({"objs": objs, "doms": doms, "kinds": kinds}, queries, order, shareattr=True, eager=eager)
    case.tags = ("multi", "shared-attribute-roles", f"queries{nq}", f"evals{len(order)}")
    return case


def _graph_history(rng):
    """variables declared WITHOUT a domain (`let(T, None)`: the instances of T in the SymbolGraph), shared by 1-2 query objects
    built up front; instances are CREATED between the evaluations (`(graph n0 n1 …)`: at the j-th evaluation the first n_j
    objects exist). Query shapes: a selected MAPPING (attribute / index) of a variable no condition mentions, alone or in a
    set_of next to a conditioned variable; plain conditioned selections sharing the variable"""
    nobj = rng.randrange(2, 6)
    objs = []
    for i in range(nobj):
        a = rng.randrange(0, 4)
        objs.append({"cls": 0, "veq": False, "fields": {"a": a, "f": rng.random() < 0.5,
                                                         "items": [rng.randrange(0, 3) for _ in range(rng.randrange(1, 3))],
                                                         "peer": ("obj", rng.randrange(0, i + 1)), "m_dbl": 2 * a}})
    full = [("obj", i) for i in range(nobj)]
    def mapping(v):
        return rng.choice([("attr", ("var", v), "a"), ("attr", ("var", v), "peer"), ("attr", ("attr", ("var", v), "peer"), "a"),
                           ("index", ("attr", ("var", v), "items"), 0), ("call", ("var", v), "dbl")])
    def plain(v):
        return ("cmp", rng.choice(list(G.OPS)), ("attr", ("var", v), "a"), ("lit", rng.randrange(0, 4)))
    def query():
        k = rng.random()
        if k < 0.3:
            return {"sel": [mapping("x")], "cond": None}
        if k < 0.5:
            return {"sel": [("var", "y"), mapping("x")], "cond": plain("y")}
        if k < 0.6:
            return {"sel": [mapping("x")], "cond": plain("x")}
        if k < 0.7:
            return {"sel": [mapping("x")], "cond": plain("y")}
        return {"sel": [("var", "x")], "cond": rng.choice([plain("x"), plain("x"), ("not", plain("x")), ("truth", ("attr", ("var", "x"), "f"))])}
    nq = rng.choice([1, 2, 2])
    queries = [query() for _ in range(nq)]
    used = {v for q in queries for t in q["sel"] for v in G.t_vars(t)} | \
           {v for q in queries if q["cond"] is not None for v in G.c_allvars(q["cond"])}
    order = [(rng.randrange(nq), rng.choice([-1, -1, -1, 1, 2])) for _ in range(rng.randrange(2, 5))]
    n, graph = rng.randrange(1, nobj + 1), []
    for _ in order:
        graph.append(n)
        n = min(nobj, n + rng.choice([0, 1, 1, 2]))
    world = {"objs": objs, "doms": {v: list(full) for v in ("x", "y") if v in used}, "kinds": {v: "obj" for v in used}}
    case = _multi_case(world, queries, order, graph=graph)
    case.tags = ("multi", "symbol-graph-history", f"queries{nq}", f"evals{len(order)}")
    return case


def _multi_case(world, queries, order, sharecond=False, shareattr=False, eager=False, graph=None):
    q0 = {"sel": [], "cond": None, "objs": world["objs"], "doms": world["doms"]}
    full = G.sx_query({**q0, "sel": [("var", next(iter(world["doms"])))]})
    # reuse the printers of eqlgen for the world part
    objs_part = full[full.index("(objs"):full.index("(doms")].strip()
    doms_part = full[full.index("(doms"):-1].strip()
    qparts = []
    for q in queries:
        ids = G._LitIds()
        head = "qqx" if G.has_subq(q["cond"]) else "qq"
        qparts.append("(" + head + " (sel " + " ".join(G.sx_term(t, ids) for t in q["sel"]) + ")" +
                      (" (cond " + G.sx_cond(q["cond"], ids) + ")" if q["cond"] is not None else "") + ")")
    line = "(multi (order " + " ".join(f"({a} {b})" for a, b in order) + ") " + objs_part + " " + doms_part + \
           " (queries " + " ".join(qparts) + ")" + (" (sharecond)" if sharecond else "") + (" (shareattr)" if shareattr else "") + \
           (" (eager)" if eager else "") + (" (graph " + " ".join(str(k) for k in graph) + ")" if graph else "") + ")"
    return Case(line, ("multi", f"queries{len(queries)}", f"evals{len(order)}"), "random",
                {"world": world, "queries": queries, "order": order, "sharecond": sharecond, "shareattr": shareattr,
                 "eager": eager, "graph": graph})



# ---------------------------------------------------------------------------------------------- rule-query histories

def _R():
    from props import c08 as R
    return R


def _rh_show(dom, root, ops, warm):
    parts = []
    for o in ops:
        if o[0] == "grow":
            parts.append("(grow " + " ".join(k.show() for k in o[1]) + ")")
        else:
            parts.append(f"({o[0]} {o[1]})")
    return ("(rhist (dom" + "".join(f" {d}" for d in dom) + ") " + root.show() + " (ops " + " ".join(parts) + ")" +
            (" (warm)" if warm else "") + ")")


def _rh_parse(line):
    R = _R()
    s = R._read(R._tokens(line), 0)[0]
    assert s[0] == "rhist"
    d = {p[0]: p for p in s[1:]}
    _, root = R.parse_prog("(prog " + _unparse(d["dom"]) + " " + _unparse(d["root"]) + ")")
    dom = [int(x) for x in d["dom"][1:]]
    ops = []
    for o in d["ops"][1:]:
        if o[0] == "grow":
            kids = []
            for k in o[1:]:
                _, r = R.parse_prog("(prog (dom) (root (h) (c) " + _unparse(k) + "))")
                kids.append(r.kids[0])
            ops.append(("grow", kids))
        else:
            ops.append((o[0], int(o[1])))
    return dom, root, ops, "warm" in d


def _rh_kid(rng, dom, counter, nested=True):
    R = _R()
    b = R.Block(rng.choice(["ref", "alt", "next"]), [d for d in dom if rng.random() < 0.5], [], [])
    if rng.random() < 0.9:
        b.concl = [counter[0]]
        counter[0] += 1
    if nested and rng.random() < 0.25:
        b.kids.append(_rh_kid(rng, dom, counter, nested=False))
    return b


def _rule_hist(rng, flavour=None):
    R = _R()
    flavour = flavour or rng.choice(["sequential", "sequential", "grow", "grow", "interleaved", "interleaved", "handed-out"])
    while True:
        dom, root = R._gen_prog(rng, rng.random() < 0.5)
        if root.size() <= 6:
            break
    counter = [max([c for b in root.walk() for c in b.concl] + [-1]) + 1]
    ops, nid, n = [], [0], len(dom)

    def new():
        nid[0] += 1
        return nid[0] - 1

    warm = flavour in ("interleaved", "handed-out") or rng.random() < 0.3
    if flavour == "sequential":
        for _ in range(rng.randrange(2, 5)):
            r = rng.random()
            if r < 0.3:
                ops.append(("full", new()))
            elif r < 0.88:
                i = new()
                ops.append(("start", i))
                ops += [("next", i)] * rng.randrange(0, 2 * n + 2)
                if rng.random() < 0.6:
                    ops.append(("abandon", i))
            else:
                ops.append(("grow", [_rh_kid(rng, dom, counter)]))
    elif flavour == "grow":
        for _ in range(rng.randrange(2, 6)):
            if rng.random() < 0.5:
                ops.append(("full", new()))
            else:
                ops.append(("grow", [_rh_kid(rng, dom, counter) for _ in range(rng.choice([1, 1, 1, 2]))]))
        ops.append(("full", new()))
        if rng.random() < 0.5:
            ops.append(("full", new()))
    elif flavour == "handed-out":
        # results requested (and partly read), the same query evaluated by someone else, then the rest is read
        i = new()
        ops.append(("start", i))
        ops += [("next", i)] * rng.choice([0, 0, 1, 2, 3])
        for _ in range(rng.choice([1, 1, 2])):
            ops.append(("full", new()))
        ops += [("next", i)] * rng.randrange(1, 2 * n + 2)
        if rng.random() < 0.4:
            ops.append(("full", new()))
    else:
        k = rng.choice([2, 2, 3])
        ids = [new() for _ in range(k)]
        live, started = set(), []
        for _ in range(rng.randrange(4, 14)):
            r = rng.random()
            if (r < 0.2 and len(started) < k) or not live:
                if len(started) < k:
                    i = ids[len(started)]
                    started.append(i)
                    live.add(i)
                    ops.append(("start", i))
                else:
                    ops.append(("full", new()))
                continue
            if r < 0.3:
                ops.append(("full", new()))
                continue
            i = rng.choice(sorted(live))
            if r < 0.92:
                ops.append(("next", i))
            else:
                ops.append(("abandon", i))
                live.discard(i)
    kinds = sorted({b.kind for b in root.walk()} - {"root"})
    return Case(_rh_show(dom, root, ops, warm), ("rhist", flavour, "kinds:" + "+".join(kinds), f"dom{n}",
                                                "warm" if warm else "cold"), "random")


class _RuleQuery:
    """a rule query written from a C08 program against the real API; can be grown by further `with query:` blocks"""

    def __init__(self, dom, root):
        from krrood.entity_query_language.entity import let, entity, inference, in_
        from krrood.entity_query_language.quantify_entity import an
        R = _R()
        P, _Q, View, kls, _kys = R._classes()
        self.kls, self.in_, self.inference, self.root = kls, in_, inference, root
        self.objs = {d: P(100 + d) for d in dom}
        self.back = {id(o): d for d, o in self.objs.items()}
        self.x = let(P, [self.objs[d] for d in dom], name="x")
        self.views = inference(View)()
        self.query = an(entity(self.views, self.cond(root)))
        for session in root.sessions():
            self.session(session)

    def cond(self, b):
        return self.in_(self.x.a, [-1] + [100 + e for e in b.holds])

    def add(self, c):
        from krrood.entity_query_language.conclusion import Add
        Add(self.views, self.inference(self.kls[c])(src=self.x))

    def body(self, b):
        from krrood.entity_query_language.rule import refinement, alternative, next_rule
        fn = {"ref": refinement, "alt": alternative, "next": next_rule}
        for c in b.concl:
            self.add(c)
        for k in b.kids:
            with fn[k.kind](self.cond(k)):
                self.body(k)

    def session(self, toks):
        from krrood.entity_query_language.rule import refinement, alternative, next_rule
        fn = {"ref": refinement, "alt": alternative, "next": next_rule}
        with self.query:
            for tok in toks:
                if tok == "here":
                    for c in self.root.concl:
                        self.add(c)
                else:
                    with fn[tok.kind](self.cond(tok)):
                        self.body(tok)

    def row(self, r):
        return f"{type(r)._k}:{self.back[id(r.src)]}"


def _run_rhist(line: str) -> str:
    from krrood.entity_query_language.symbolic import SymbolicExpression
    dom, root, ops, warm = _rh_parse(line)
    grown = []

    def build():
        q = _RuleQuery(dom, root)
        for kids in grown:
            q.session(kids)
        return q

    def fresh_rows():
        """the isolated run: the same `with` blocks on a fresh query object, evaluated alone"""
        try:
            fq = build()
            return [fq.row(r) for r in fq.query.evaluate()]
        except Exception as e:  # noqa: BLE001
            SymbolicExpression._symbolic_expression_stack_.clear()
            return "exc:" + type(e).__name__

    q = _RuleQuery(dom, root)
    if warm:
        from krrood.entity_query_language.entity import entity
        from krrood.entity_query_language.quantify_entity import an
        list(an(entity(q.x)).evaluate())  # the variable's domain is completely cached from here on
    its, fresh, cnt, out = {}, {}, {}, []
    for o in ops:
        if o[0] == "grow":
            try:
                q.session(o[1])
            except Exception:  # noqa: BLE001
                SymbolicExpression._symbolic_expression_stack_.clear()
            grown.append(o[1])
            out.append("-")
        elif o[0] == "start":
            its[o[1]] = iter(q.query.evaluate())
            fresh[o[1]], cnt[o[1]] = None, 0
            out.append("-")
        elif o[0] == "abandon":
            it = its.pop(o[1], None)
            if it is not None and hasattr(it, "close"):
                it.close()
            del it  # (an iterator without close() is abandoned by dropping it)
            out.append("-")
        elif o[0] == "full":
            fr = fresh_rows()
            try:
                got = [q.row(r) for r in q.query.evaluate()]
            except Exception as e:  # noqa: BLE001
                got = "exc:" + type(e).__name__
            its.pop(o[1], None)
            out.append("=" if got == fr else ("![" + ",".join(got) + "]" if isinstance(got, list) else "!err"))
        else:
            i = o[1]
            it = its.get(i)
            if it is None:  # closed / never started: the end, here and in the isolated run
                out.append("=")
                continue
            if fresh[i] is None:
                fresh[i] = fresh_rows()
            fr = fresh[i]
            more = isinstance(fr, list) and cnt[i] < len(fr)
            exp = fr[cnt[i]] if more else ("stop" if isinstance(fr, list) else "err")
            try:
                got = q.row(next(it))
            except StopIteration:
                got = "stop"
            except Exception:  # noqa: BLE001
                got = "err"
            if more:
                cnt[i] += 1
            out.append("=" if got == exp else "!" + got)
    return " ".join(out)


def compare(impl: str, other: str) -> bool:
    """equality; in a rule-history observation a model token `a~b` stands for exactly one of its candidates (two
    conclusions in one Python set: CPython's set order decides) and `*` for any"""
    if impl == other:
        return True
    b = other.split(" ")
    if "~" not in other and "*" not in b:
        return False
    a = impl.split(" ")
    return len(a) == len(b) and all(y == "*" or x in y.split("~") for x, y in zip(a, b))


def generate(rng, tier, n):
    out = _exhaustive_scheds(tier)
    for i in range(n):
        if i % 4 == 3:
            out.append(_rule_hist(rng))
            continue
        r = rng.random()
        if r < 0.25:
            out.append(_random_sched(rng))
        elif r < 0.4:
            out.append(_sequential_sched(rng))
        elif r < 0.55:
            out.append(_warm_shared_sched(rng))
        elif r < 0.7:
            out.append(_shared_condition(rng))
        elif r < 0.78:
            out.append(_shared_attribute(rng))
        elif r < 0.86:
            out.append(_multi_subquery(rng))
        else:
            out.append(_multi(rng))
    # s6a: one attribute node shared by 2-3 queries in different roles (whole condition / conjunct / operand)
    for _ in range(max(60, n // 8)):
        out.append(_shared_attribute_roles(rng))
    # s6a: variables over the SymbolGraph (no domain given), instances created between the evaluations
    for _ in range(max(60, n // 8)):
        out.append(_graph_history(rng))
    return out


def revive(case: Case) -> Case:
    if case.payload is not None:
        return case
    s = G.parse_sexp(case.line)
    if s[0] in ("sched", "sharedsub", "sharedroot", "rulereeval", "rhist"):
        return case
    d = {(p[0] if isinstance(p, list) else p): (p[1:] if isinstance(p, list) else []) for p in s[1:]}
    fake = G.parse_query("(q (sel) (objs " + " ".join(_unparse(o) for o in d["objs"]) + ") (doms " +
                         " ".join(_unparse(x) for x in d["doms"]) + "))")
    world = {"objs": fake["objs"], "doms": fake["doms"]}
    queries = [{"sel": [G._p_term(t) for t in dict((p[0], p[1:]) for p in qq[1:])["sel"]],  # qq and qqx alike
                "cond": (G._p_cond(dict((p[0], p[1:]) for p in qq[1:])["cond"][0])
                         if "cond" in dict((p[0], p[1:]) for p in qq[1:]) else None)} for qq in d["queries"]]
    order = [(int(a), int(b)) for a, b in d["order"]]
    case.payload = {"world": world, "queries": queries, "order": order,
                    "sharecond": any(p == ["sharecond"] for p in s[1:]),
                    "shareattr": any(p == ["shareattr"] for p in s[1:]),
                    "eager": any(p == ["eager"] for p in s[1:]),
                    "graph": [int(k) for k in d["graph"]] if "graph" in d else None}
    return case


def _unparse(s) -> str:
    return s if isinstance(s, str) else "(" + " ".join(_unparse(x) for x in s) + ")"


def nontrivial(case: Case, spec: str) -> bool:
    if case.line in ("(sharedsub)", "(sharedroot)", "(rulereeval)"):
        return False
    if case.line.startswith("(rhist"):
        return case.line.count("(next") + case.line.count("(full") >= 2 and case.line.count("(h ") >= 2
    if case.line.startswith("(sched"):
        return any(t.isdigit() for t in spec.split()) and case.line.count("(start") >= 2
    return "(" in spec and spec.count(";") >= 1


def _shrink_rhist(case: Case):
    dom, root, ops, warm = _rh_parse(case.line)
    for i in range(len(ops)):
        yield Case(_rh_show(dom, root, ops[:i] + ops[i + 1:], warm), case.tags, "shrink")

    def paths(b, pre=()):
        for i, k in enumerate(b.kids):
            yield pre + (i,)
            yield from paths(k, pre + (i,))

    for path in list(paths(root)):
        r = root.copy()
        b = r
        for j in path[:-1]:
            b = b.kids[j]
        b.drop_kid(path[-1])
        yield Case(_rh_show(dom, r, ops, warm), case.tags, "shrink")
    if len(dom) > 1:
        for d in dom:
            r = root.copy()
            for b in r.walk():
                b.holds = [e for e in b.holds if e != d]
            ops2 = []
            for o in ops:
                if o[0] == "grow":
                    ks = [k.copy() for k in o[1]]
                    for k in ks:
                        for b in k.walk():
                            b.holds = [e for e in b.holds if e != d]
                    ops2.append(("grow", ks))
                else:
                    ops2.append(o)
            yield Case(_rh_show([e for e in dom if e != d], r, ops2, warm), case.tags, "shrink")


def shrink(case: Case):
    s = G.parse_sexp(case.line)
    if s[0] == "rhist":
        yield from _shrink_rhist(case)
        return
    if s[0] != "sched":
        return
    d = {p[0]: p[1:] for p in s[1:]}
    ops = [(o[0], int(o[1])) for o in d["ops"]]
    n = int(d["n"][0])
    sats = {int(x[0]): [int(e) for e in x[1:]] for x in d["sats"]}
    alias = {int(a[0]): int(a[1]) for a in d.get("alias", [])}
    tight = any(p == ["tight"] for p in s[1:])
    for i in range(len(ops)):
        yield Case(_sched_line(n, sats, ops[:i] + ops[i + 1:], alias, tight), case.tags, "shrink")


# ---------------------------------------------------------------------------------------------- real code

class _Item:
    def __init__(self, i, a):
        self.i, self.a = i, a


def _run_sched(line: str) -> str:
    from krrood.entity_query_language.entity import let, entity, in_
    from krrood.entity_query_language.quantify_entity import an
    s = G.parse_sexp(line)
    d = {(p[0] if isinstance(p, list) else p): (p[1:] if isinstance(p, list) else []) for p in s[1:]}
    n = int(d["n"][0])
    sats = {int(x[0]): [int(e) for e in x[1:]] for x in d["sats"]}
    ops = [(o[0], int(o[1])) for o in d["ops"]]
    alias = {int(a[0]): int(a[1]) for a in d.get("alias", [])}
    tight = "tight" in d
    items = [_Item(i, i + 1) for i in range(n)]          # a = i+1: truthy values only
    x = let(_Item, (it for it in items), name="x")        # ONE shared variable, one-shot generator domain
    queries = {}
    for i, es in sats.items():
        if i in alias:
            continue
        kw = {}
        if tight:
            from krrood.entity_query_language.result_quantification_constraint import AtMost
            kw["quantification"] = AtMost(len(es))
        queries[i] = an(entity(x, in_(x.a, [e + 1 for e in es])), **kw)
    for j, i in alias.items():
        queries[j] = queries[i]
    its, out = {}, []
    for op, i in ops:
        if op == "start":
            its[i] = iter(queries[i].evaluate()) if i in queries else iter(())
            out.append("-")
        elif op == "abandon":
            it = its.pop(i, None)
            if it is not None and hasattr(it, "close"):
                it.close()
            out.append("-")
        else:
            it = its.get(i)
            if it is None:
                out.append("stop")
                continue
            try:
                out.append(str(next(it).i))
            except StopIteration:
                out.append("stop")
            except Exception as e:  # noqa: BLE001
                out.append(type(e).__name__)
    return " ".join(out)


_SYMBOL_CLASS = []


def _symbol_class():
    if not _SYMBOL_CLASS:
        from krrood.entity_query_language.predicate import Symbol

        class SP(G.P, Symbol):
            """identity-equal user objects that are registered in the SymbolGraph"""
        _SYMBOL_CLASS.append(SP)
    return _SYMBOL_CLASS[0]


def _run_multi(p) -> str:
    world, queries, order = p["world"], p["queries"], p["order"]
    q0 = {"objs": world["objs"], "doms": world["doms"], "kinds": world.get("kinds", {})}
    graph = p.get("graph")
    if graph:
        # the variables range over the SymbolGraph; only the first graph[0] instances exist, the others are created later
        from krrood.entity_query_language.entity import let
        from krrood.entity_query_language.symbol_graph import SymbolGraph
        SymbolGraph().clear(); SymbolGraph()
        cls = _symbol_class()
        objs = []
        def create(upto):
            while len(objs) < min(upto, len(world["objs"])):
                o = world["objs"][len(objs)]
                ob = cls(len(objs), o["cls"], {})
                objs.append(ob)
                ob._fields = {k: G.real_val(v, objs) for k, v in o["fields"].items()}
                for k, v in ob._fields.items():
                    if not k.startswith(("m_", "c_")):
                        object.__setattr__(ob, k, v)
        create(graph[0])
        V = {n: let(cls, None, name=n) for n in world["doms"]}
    else:
        objs = G.make_objects(q0)
        V = G.make_vars(q0, objs, one_shot=True)
    memo = {} if p.get("sharecond") else None
    amemo = {} if p.get("shareattr") else None
    lazy = memo is not None or amemo is not None
    built = {} if lazy else {i: G.build_query({**q0, **q}, V, objs) for i, q in enumerate(queries)}
    if lazy and p.get("eager"):
        # every query is built up front, sharing the stored condition / attribute node objects
        built = {i: G.build_query({**q0, **q}, V, objs, cond_memo=memo, attr_memo=amemo) for i, q in enumerate(queries)}
    outs = []
    for j, (qi, k) in enumerate(order):
        if graph:
            create(graph[j])
        if qi not in built:
            # shared-condition flavour: a query is built right before its first evaluation, re-using condition objects
            built[qi] = G.build_query({**q0, **queries[qi]}, V, objs, cond_memo=memo, attr_memo=amemo)
        query, sel, single = built[qi]
        rows = []
        try:
            it = iter(query.evaluate())
            while k < 0 or len(rows) < k:
                try:
                    r = next(it)
                except StopIteration:
                    break
                rows.append(G.show_row((r,)) if single else G.show_row(tuple(r[kk] for kk in sel)))
            if hasattr(it, "close"):
                it.close()
            outs.append("[" + " ".join(rows) + "]")
        except Exception as e:  # noqa: BLE001
            outs.append("exc:" + type(e).__name__)
    return " ; ".join(outs)


def _shared_sub() -> str:
    """F-C03-3: constructing a second query over a shared sub-expression node changes the first query's result"""
    from krrood.entity_query_language.entity import let, entity
    from krrood.entity_query_language.quantify_entity import an
    objs = [G.P(i, 0, {"f": f}) for i, f in enumerate([True, False, False])]
    x = let(object, objs, name="x")
    xf = x.f
    q1 = an(entity(x, xf))
    q2 = an(entity(x, xf == False))  # noqa: E712,F841  (construction only)
    return "[" + " ".join(G.show_row((r,)) for r in q1.evaluate()) + "]"


def _shared_root() -> str:
    """F-C03-7 (open, by witness alone): one attribute expression is the WHOLE condition of a query that is evaluated, and
    afterwards an operand in a second query: the node keeps its cached `_conditions_root_`, so its falsy value is read as a
    false result and the second query loses the answer it has when run alone"""
    from krrood.entity_query_language.entity import let, entity
    from krrood.entity_query_language.quantify_entity import an
    objs = [G.P(i, 0, {"f": f}) for i, f in enumerate([False, True])]
    x = let(object, objs, name="x")
    xf = x.f
    q1 = an(entity(x, xf))
    list(q1.evaluate())
    q2 = an(entity(x, xf == False))  # noqa: E712
    return "[" + " ".join(G.show_row((r,)) for r in q2.evaluate()) + "]"


def _rule_reeval() -> str:
    """F-C03-2 (fixed, corpus case): a rule query with a conclusion selector (alternative) evaluated twice"""
    from dataclasses import dataclass
    from krrood.entity_query_language.entity import let, entity, inference
    from krrood.entity_query_language.quantify_entity import an
    from krrood.entity_query_language.rule import alternative
    from krrood.entity_query_language.conclusion import Add
    from krrood.entity_query_language.predicate import Symbol
    from krrood.entity_query_language.symbol_graph import SymbolGraph

    @dataclass(eq=False)
    class RSrc(Symbol):
        a: int

    @dataclass(eq=False)
    class RView(Symbol):
        src: RSrc = None

    @dataclass(eq=False)
    class RSpecial(RView):
        ...

    SymbolGraph().clear(); SymbolGraph()
    srcs = [RSrc(i) for i in (1, 2, 3)]
    x = let(RSrc, srcs, name="x")
    q = an(entity(views := let(RView, None), x.a >= 2))
    with q:
        Add(views, inference(RView)(src=x))
        with alternative(x.a == 1):
            Add(views, inference(RSpecial)(src=x))
    def obs():
        return sorted((type(v).__name__, v.src.a) for v in q.evaluate())
    first, second = obs(), obs()
    return "same" if first == second and first else f"first={first} second={second}"


def _one(case: Case) -> str:
    try:
        if case.line == "(rulereeval)":
            return _rule_reeval()
        if case.line == "(sharedsub)":
            return _shared_sub()
        if case.line == "(sharedroot)":
            return _shared_root()
        if case.line.startswith("(sched"):
            return _run_sched(case.line)
        if case.line.startswith("(rhist"):
            return _run_rhist(case.line)
        return _run_multi(revive(case).payload)
    except Exception as e:  # noqa: BLE001
        try:
            from krrood.entity_query_language.symbolic import SymbolicExpression
            SymbolicExpression._symbolic_expression_stack_.clear()
        except Exception:  # noqa: BLE001
            pass
        return "exc:" + type(e).__name__


def run_impl(cases):
    return [_one(c) for c in cases]


def extra_obligations():
    """both translator ties of this property: the IterShape of HashedIterable.__iter__/__bool__ (shape_obligations) and the IR
    of the evaluation methods `Eql.eval` transcribes, shared with C01 / C02 / C10 (harness/translate/c01_translate.py: the IR
    regenerated from the current `symbolic.py` is `Eql.IR.irTable`)"""
    from translate import c01_translate as T
    return list(shape_obligations()) + list(T.obligations(PID))
