"""C13 — domain-less variables range over exactly the live instances of their type.

Implementation side: histories of create / drop+gc / relate / sweep / clear / query over the harness's own Symbol
hierarchy (incl. a diamond), executed on the real krrood; every `an(entity(let(T, None))).evaluate()` is compared
with the harness's own weak-reference census of the instances of T created since the registry was last cleared.
Observation `A|B`: A = agreement with that census (`ok` or the differences), B = the sorted census of every query
(by harness-assigned labels). The property demands `A = ok` (spec `ok|*`); B ties the Lean model to the code."""
from __future__ import annotations

from core import Case
from props import _sg

PID = "C13"
LEAN_MODULES = ["KrroodVerif.Props.C13", "KrroodVerif.Props.C13Table", "KrroodVerif.Props.C13Step",
                "KrroodVerif.Props.C13StepComplete"]
THEOREMS = [
    "KrroodVerif.SG.C13_inv_init",
    "KrroodVerif.SG.C13_inv_step",
    "KrroodVerif.SG.C13_inv_run",
    "KrroodVerif.SG.C13_census",
    "KrroodVerif.SG.C13_census_once",
    "KrroodVerif.SG.C13_query_fresh",
    "KrroodVerif.SG.C13_cex_reevaluated",
    "KrroodVerif.SG.C13_cex_diamond",
    # second tie: the registry methods as tables of container operations (Props/C13Table.lean)
    "KrroodVerif.SG.addNode_eq_interp",
    "KrroodVerif.SG.removeNode_eq_interp",
    "KrroodVerif.SG.removeNode_original_eq_interp",
    "KrroodVerif.SG.sweep_eq_interp",
    "KrroodVerif.SG.ensure_eq_interp",
    "KrroodVerif.SG.clear_eq_interp",
    "KrroodVerif.SG.recSubs_eq_interp",
    "KrroodVerif.SG.recSubsI_nodup",
    "KrroodVerif.SG.getInstances_eq_interp",
    "KrroodVerif.SG.getInstances_mem_iff",
    "KrroodVerif.SG.C13_census_of_table_eq",
    "KrroodVerif.SG.C13_census_table",
    "KrroodVerif.SG.C13_run_by_table",
    # the interleaving of lazily consumed evaluations with the history (Model/SymbolGraphStep.lean, Props/C13Step.lean)
    "KrroodVerif.SG.begin_expected",
    "KrroodVerif.SG.C13_stepwise_census",
    "KrroodVerif.SG.C13_stepwise_partial",
    "KrroodVerif.SG.C13_stepwise_snapshot",
    "KrroodVerif.SG.C13_cex_stepwise",
    "KrroodVerif.SG.step_heapAdm",
    "KrroodVerif.SG.C13_stepwise_complete",
    "KrroodVerif.SG.C13_stepwise_exact_snapshot",
]
TRANSLATED = ["KrroodVerif.SG.Translated.C13_table_translated_eq_model",
              "KrroodVerif.SG.Translated.C13_translated_census"]


def extra_obligations():
    """Second tie: regenerate the container-operation tables of add_node / remove_node / remove_dead_instances /
    get_instances_of_type / ensure_wrapped_instance / clear / recursive_subclasses from /repo's CURRENT source (Python ast)
    and have the kernel re-check that they equal the model's tables (`SG.table`, for which `*_eq_interp` prove that the
    table interpreters are the model functions) and the census property for the regenerated tables."""
    import os
    import re
    import subprocess
    import core
    from translate.c13_translate import generate as gen, TranslationError
    try:
        text = gen(core.REPO)
    except (TranslationError, SyntaxError, OSError, RecursionError, AssertionError) as e:
        return [{"name": n, "ok": False, "detail": f"translator rejected the source: {e}"} for n in TRANSLATED]
    tmp = core.LEAN_DIR / ".lake" / "audit"
    tmp.mkdir(parents=True, exist_ok=True)
    f = tmp / f"C13Translated_{os.getpid()}.lean"
    f.write_text(text + "".join(f"#print axioms {n}\n" for n in TRANSLATED))
    try:
        p = subprocess.run(["lake", "env", "lean", str(f)], cwd=str(core.LEAN_DIR), capture_output=True, text=True, timeout=600)
    finally:
        try:
            f.unlink()
        except OSError:
            pass
    out = " ".join(((p.stdout or "") + (p.stderr or "")).split())
    res = []
    for n in TRANSLATED:
        m = re.search(r"'" + re.escape(n) + r"' depends on axioms: \[([^\]]*)\]", out)
        none = re.search(r"'" + re.escape(n) + r"' does not depend on any axioms", out)
        ax = [a.strip() for a in m.group(1).split(",")] if m else ([] if none else None)
        ok = p.returncode == 0 and ax is not None and set(ax) <= core.ALLOWED_AXIOMS
        res.append({"name": n, "ok": ok, "axioms": ax,
                    "detail": "regenerated tables:\n" + text[text.find("def table"):text.find("/-- the methods")]
                              + (p.stdout or "")[-1500:] + (p.stderr or "")[-800:]})
    return res

MODEL_FUNCTION = ("SG.step / SG.addNode / SG.removeNode / SG.sweep / SG.instancesOf / SG.evalQuery "
                  "(Model/SymbolGraph.lean), SG.advance / SG.SRun.between / SG.SRun.start / SG.SRun.next "
                  "(Model/SymbolGraphStep.lean), run under the LIFO allocator by Drive/SG.lean; SG.table and its interpreters "
                  "(Model/SymbolGraphTable.lean) regenerated from the source by harness/translate/sg_translate.py")
TRUSTED = [
    "Lean 4.33 kernel; axioms of each theorem listed under coverage.theorems",
    "hand-written model Model/SymbolGraph.lean of symbol_graph.py, Symbol.__new__, let(T, None), evaluate() -> "
    "remove_dead_instances, HashedIterable caching",
    "this correspondence harness (history generators, the weak-reference census) and the S-expression driver",
    "second tie: harness/translate/sg_translate.py (statement recognisers; strict, normalising) and the instruction semantics of "
    "Model/SymbolGraphTable.lean; the interpreters run on SG.table are PROVED equal to the model functions (Props/C13Table.lean)",
]
ASSUMPTIONS = [
    "CPython: an object is reclaimed by gc.collect() exactly when it is unreachable from the harness's references, "
    "descriptor-managed field contents and cached query domains (validated on every case by the weak-reference census)",
    "rustworkx PyDiGraph never hands out a node index that is in use (any recycling policy is covered by the theorems; "
    "the driver runs the LIFO policy rustworkx uses)",
    "census is relative to the current registry: instances that survive SymbolGraph().clear() are deliberately "
    "forgotten by it (clear is the documented reset) and are expected again only once they are re-wrapped",
    "a query object created before a clear() and first evaluated after it is outside the model (never generated)",
]
RULE = ("exhaustive histories up to length 4/5 over {new Emp, new Mgr, new Org, drop, sweep, query} + fixed families "
        "(re-evaluated query objects, diamond hierarchy, clear, classes defined in the middle of the history after "
        "their ancestors were queried, temporaries created and discarded back to back, lazily consumed evaluations advanced "
        "one next() at a time with instances of the queried class / a subclass created or dropped in between or - after "
        "clear() - made known to the registry again by a relation, a managed field, a role assertion or an adopted "
        "container, container-like "
        "Symbols that are falsy while empty, instances made by copy / deepcopy / pickle / to_dao().from_dao() incl. nested "
        "ones) + random histories of 4-18 "
        "operations over 9 classes plus classes defined on the way, relations, explicit-domain queries; non-trivial = at least one query returned at least one instance; "
        "distinct by case text")


def budget(tier: str) -> int:
    return 4000 if tier == "quick" else 100000


def _case(ops, tags, origin):
    return Case("(h " + _sg.show(ops) + ")", tuple(tags), origin, None)


def _menu(state):
    nxt, held = state
    out = []
    if nxt < 4:
        for c in (2, 3, 1):
            out.append((["new", nxt, c], (nxt + 1, held + (nxt,))))
    for o in held:
        out.append((["drop", o], (nxt, tuple(x for x in held if x != o))))
    out.append((["sweep"], state))
    out.append((["query", 2], state))
    return out


def generate(rng, tier, n):
    cases = []
    depth = 4 if tier == "quick" else 5
    for ops in _sg.enumerate_histories(depth, _menu, (0, ())):
        if any(op[0] == "new" for op in ops):
            cases.append(_case(ops + [["query", 2], ["query", 0]], ("exhaustive",), "exhaustive"))
    # fixed families
    for c in range(8):
        for T in range(8):
            cases.append(_case([["new", 0, c], ["new", 1, c], ["drop", 0], ["query", T]], ("family", "class-grid"), "exhaustive"))
    for c in (1, 2, 3, 5):
        cases.append(_case([["new", 0, c], ["mkq", 1, 0], ["evalq", 1], ["new", 1, c], ["evalq", 1], ["query", 0]],
                           ("family", "reeval"), "exhaustive"))
        cases.append(_case([["new", 0, c], ["mkq", 1, c], ["new", 1, c], ["evalq", 1], ["drop", 0], ["evalq", 1],
                            ["dropq", 1], ["query", c]], ("family", "reeval"), "exhaustive"))
        cases.append(_case([["new", 0, c], ["new", 1, c], ["query", c], ["clear"], ["new", 2, c], ["query", c],
                            ["drop", 1], ["query", c]], ("family", "clear"), "exhaustive"))
    # classes that come into existence in the middle of a history (late import, dynamically created class):
    # the ancestors were queried before, the new class gets instances, the ancestors are queried again
    for parent, ancestors in ((0, (0,)), (2, (2, 0)), (3, (3, 2, 0)), (4, (4, 0)), (5, (5, 4, 0)), (1, (1, 0))):
        for anc in ancestors:
            cases.append(_case([["new", 0, parent], ["query", anc], ["defclass", 20, parent], ["new", 1, 20],
                                ["query", anc], ["query", 20], ["defclass", 21, 20], ["new", 2, 21], ["query", anc],
                                ["query", 20], ["drop", 1], ["query", anc]], ("family", "late-class"), "exhaustive"))
            cases.append(_case([["mkq", 1, anc], ["defclass", 20, parent], ["new", 0, 20], ["evalq", 1],
                                ["defclass", 21, parent], ["new", 1, 21], ["query", anc]],
                               ("family", "late-class"), "exhaustive"))
    # distinct classes with the same module and __name__ below one base (type()-created / re-executed class statements):
    # siblings, parent and child, different branches; instances of each; queries over the base and over each class
    for base in (0, 4, 2):
        cases.append(_case([["defclassn", 20, base, 1], ["defclassn", 21, base, 1], ["new", 0, 20], ["new", 1, 21], ["new", 2, base],
                            ["query", base], ["query", 20], ["query", 21], ["drop", 1], ["query", base]],
                           ("family", "same-name"), "exhaustive"))
        cases.append(_case([["defclassn", 20, base, 1], ["new", 0, 20], ["query", base], ["defclassn", 21, 20, 1], ["new", 1, 21],
                            ["defclassn", 22, base, 1], ["new", 2, 22], ["query", base], ["query", 20], ["query", 22]],
                           ("family", "same-name"), "exhaustive"))
    cases.append(_case([["defclassn", 20, 5, 1], ["defclassn", 21, 6, 1], ["defclassn", 22, 1, 1], ["new", 0, 20], ["new", 1, 21],
                        ["new", 2, 22], ["new", 3, 7], ["query", 4], ["query", 0], ["query", 5], ["query", 6]],
                       ("family", "same-name"), "exhaustive"))
    # temporaries created and discarded back to back (ids are recycled before the next sweep)
    for c in (1, 2, 3, 7):
        for k in (2, 5, 9):
            cases.append(_case([["churn", 0, k, c], ["new", 50, c], ["query", c], ["churn", 60, k, c], ["query", 0],
                                ["drop", 50], ["churn", 80, k, c], ["new", 95, c], ["query", c]],
                               ("family", "churn"), "exhaustive"))
    # every creation path: constructor, copy, deepcopy, pickle round trip, to_dao(..).from_dao() (in-memory DAO round
    # trip through the ORM interface generated by the current ORMatic), nested instances re-created with their holder
    for how in ("copy", "deepcopy", "pickle", "dao"):
        for c, T in ((10, 10), (11, 10), (11, 11)):
            cases.append(_case([["new", 0, c], ["clone", 1, 0, how], ["query", T], ["drop", 0], ["query", T],
                                ["clone", 3, 1, how], ["drop", 1], ["query", T]], ("family", "creation", how), "exhaustive"))
        cases.append(_case([["new", 0, 11], ["newholder", 1, 0], ["clone", 2, 1, how], ["query", 12], ["query", 10],
                            ["drop", 0], ["drop", 1], ["query", 10], ["drop", 2], ["query", 10], ["query", 12]],
                           ("family", "creation", how), "exhaustive"))
    for how in ("copy", "deepcopy", "pickle"):
        for c, T in ((0, 0), (5, 4), (7, 4), (9, 0)):
            cases.append(_case([["new", 0, c], ["clone", 1, 0, how], ["query", T], ["drop", 0], ["query", T]],
                               ("family", "creation", how), "exhaustive"))
    # container-like Symbols (class 9 defines __len__): alive but falsy while empty, truthiness changing between queries
    for T in (9, 0):
        cases.append(_case([["new", 0, 9], ["query", T], ["query", T]], ("family", "falsy"), "exhaustive"))
        cases.append(_case([["new", 0, 9], ["new", 1, 9], ["fill", 1], ["query", T], ["empty", 1], ["fill", 0], ["query", T],
                            ["fill", 1], ["query", T], ["drop", 0], ["query", T]], ("family", "falsy"), "exhaustive"))
        cases.append(_case([["new", 0, 9], ["new", 1, 2], ["mkq", 1, T], ["evalq", 1], ["dropq", 1], ["sweep"], ["query", T],
                            ["fill", 0], ["query", T]], ("family", "falsy"), "exhaustive"))
        cases.append(_case([["new", 0, 9], ["fill", 0], ["query", T], ["empty", 0], ["qstart", 1, T], ["qnext", 1],
                            ["qnext", 1], ["query", T]], ("family", "falsy"), "exhaustive"))
    # lazily consumed evaluations: instances of the queried class / of a subclass created (or dropped) between two
    # next() calls; T walks [T] + recursive_subclasses(T) and copies a class list when it reaches the class
    for T, sub in ((2, 3), (4, 5), (4, 6), (0, 1), (0, 2), (5, 7)):
        for k in (1, 2, 3):
            pre = [["new", i, T] for i in range(k)] + [["new", 10, sub]]
            nexts = [["qnext", 1]] * (k + 4)
            # created while the class being walked is T: the new T must not be yielded
            cases.append(_case(pre + [["qstart", 1, T], ["qnext", 1], ["new", 20, T]] + nexts + [["query", T]],
                               ("family", "stepwise"), "exhaustive"))
            cases.append(_case(pre + [["qstart", 1, T], ["new", 20, T], ["qnext", 1], ["new", 21, T], ["qnext", 1],
                                      ["new", 22, T]] + nexts + [["query", T]], ("family", "stepwise"), "exhaustive"))
            # created in a class that is walked later
            cases.append(_case(pre + [["qstart", 1, T], ["qnext", 1], ["new", 20, sub], ["new", 21, T]] + nexts,
                               ("family", "stepwise"), "exhaustive"))
            # dropped / swept while suspended
            cases.append(_case(pre + [["qstart", 1, T], ["qnext", 1], ["drop", 10]] + nexts, ("family", "stepwise"), "exhaustive"))
            cases.append(_case(pre + [["qstart", 1, T], ["qnext", 1], ["drop", 0], ["sweep"]] + nexts + [["query", T]],
                               ("family", "stepwise"), "exhaustive"))
        # two evaluations in flight, one creating instances for the other (what interleaved rule evaluations do)
        cases.append(_case([["new", 0, T], ["new", 1, T], ["qstart", 1, T], ["qstart", 2, T], ["qnext", 1], ["new", 2, T],
                            ["qnext", 2], ["new", 3, T], ["qnext", 1], ["qnext", 2], ["qnext", 1], ["qnext", 2],
                            ["qnext", 1], ["qnext", 2], ["qnext", 1], ["qnext", 2]], ("family", "stepwise"), "exhaustive"))
    # lazily consumed evaluations and instances that become known AGAIN: after clear() live instances are unknown to the
    # registry until something wraps them (an end of a relation, a managed field, a role assertion, the items of an
    # adopted container); when that happens while an evaluation is suspended they are new to it like created ones
    # (1, 2: Mgr; 3, 4: Org; 6: Emp with the role 7; 5 / 9: the instance the first next() yields; 8: Thing)
    pre = [["new", 1, 3], ["new", 2, 3], ["new", 3, 1], ["new", 4, 1], ["new", 6, 2], ["newrole", 7, 6], ["new", 8, 0],
           ["set", 3, 3, 4], ["clear"]]
    late = [
        [["rel", 5, 1, 2]],                    # source and target
        [["rel", 5, 5, 2]], [["rel", 4, 9, 2]],  # the target only
        [["rel", 5, 1, 5]], [["rel", 4, 1, 9]],  # the source only
        [["rel", 5, 5, 8]], [["rel", 5, 8, 5]],  # an instance of the class that is being walked
        [["set", 0, 1, 3]], [["set", 1, 2, 4]], [["set", 2, 3, 1]],  # descriptor fields, with their inferences
        [["set", 3, 3, 4]], [["set", 3, 4, 3]],
        [["head", 7, 3]], [["manage", 7, 4]],    # role assertions: the role, the organisation, the role taker
        [["newrole", 20, 6]], [["newrole", 20, 6], ["head", 20, 4]],
        [["adopt", 20, 3, 3]],                   # a new owner for the container of 3: its item 4 is wrapped again
        [["rel", 5, 1, 2], ["drop", 1]], [["set", 0, 1, 3], ["drop", 3]],
    ]
    for T, first in ((0, [["new", 5, 0], ["new", 9, 0]]), (0, [["new", 5, 1], ["new", 9, 1]]),
                     (2, [["new", 5, 2], ["new", 9, 2]]), (1, [["new", 5, 1], ["new", 9, 1]])):
        for ops in late:
            nexts = [["qnext", 1]] * 9
            cases.append(_case(pre + [["qstart", 1, T]] + first + [["qnext", 1]] + ops + nexts + [["query", T]],
                               ("family", "stepwise", "known-again"), "exhaustive"))
            # the same before the first next(): the evaluation has not started, everything belongs to its census
            cases.append(_case(pre + [["qstart", 1, T]] + first + ops + nexts + [["query", T]],
                               ("family", "stepwise", "known-again"), "exhaustive"))
    for c in (2, 3, 7):
        for k in (1, 4):
            cases.append(_case([["churn", 0, k, c], ["new", 50, c], ["sweep"], ["rel", 4, 50, 50], ["query", c],
                                ["churn", 60, k, c], ["new", 70, c], ["query", 0], ["rel", 5, 70, 50], ["query", c]],
                               ("family", "churn"), "exhaustive"))
    # a container assertion (children.append) whose inference overwrites a scalar field (parent of the item): the value it
    # overwrites dies at once and must not be part of the next census; a held query object is re-evaluated around it
    for ops in _sg.overwrite_families():
        cases.append(_case(ops + [["query", 1], ["query", 0]], ("family", "container-overwrite", "relations"), "exhaustive"))
        # (a held query object evaluated BEFORE the overwrite would keep the old parent alive in its cached domain; when
        # that is released inside the next evaluate() CPython frees only what is not part of a reference cycle — the
        # model collects cycles at once; that difference is about cached domains, not about this family)
        cases.append(_case([["mkq", 1, 1]] + ops + [["evalq", 1], ["query", 0]],
                           ("family", "container-overwrite", "relations", "held-query"), "exhaustive"))
    for _ in range(n):
        g = _sg.Gen(rng, classes=rng.choice([(1, 2, 3), (1, 2, 3), (0, 1, 2, 3, 4, 5, 6, 7, 9), (2, 3, 9), (4, 5, 6, 7),
                                             (10, 11, 12, 4), (10, 11, 5, 9)]))
        ops = g.history(rng.randint(4, 18), w_query=3.0, w_clear=0.3, w_defclass=rng.choice([0.0, 0.8, 1.5]),
                        w_churn=rng.choice([0.0, 0.0, 0.6]), w_step=rng.choice([0.0, 0.0, 3.0, 5.0]), w_bag=rng.choice([0.0, 1.0]),
                        w_clone=rng.choice([0.0, 1.0, 2.0]))
        for key in g.iter_keys:
            ops += [["qnext", key]] * rng.randint(0, 6)
        ops.append(["query", rng.choice([0, 2])])
        tags = ["random"]
        if any(op[0] in ("defclass", "defclassn") for op in ops):
            tags.append("late-class")
        if sum(1 for op in ops if op[0] == "defclassn") > 1:
            tags.append("same-name")
        if any(op[0] == "churn" for op in ops):
            tags.append("churn")
        if any(op[0] == "qstart" for op in ops):
            tags.append("stepwise")
        for op in ops:
            if op[0] == "clone" and "creation-" + op[3] not in tags:
                tags.append("creation-" + op[3])
        if any(op[0] == "clear" for op in ops):
            tags.append("clear")
        if any(op[0] == "evalq" for op in ops):
            tags.append("held-query")
        if any(op[0] in ("set", "rel") for op in ops):
            tags.append("relations")
        cases.append(_case(ops, tags, "random"))
    return cases


def compare(a: str, b: str) -> bool:
    """`A|B`: the agreement part must be equal; `*` in the census part of the specification matches any census"""
    if "|" not in a or "|" not in b:
        return a == b
    a1, a2 = a.split("|", 1)
    b1, b2 = b.split("|", 1)
    return a1 == b1 and (b2 == "*" or a2 == b2)


def nontrivial(case: Case, spec: str) -> bool:
    return "(new" in case.line and ("query" in case.line or "evalq" in case.line or "qnext" in case.line)


def shrink(case: Case):
    ops = _sg.parse(case.line)[1:]
    for smaller in _sg.shrink_ops(ops):
        yield _case(smaller, ("shrink",), "shrink")


def run_impl(cases):
    return _sg.run_impl(PID, cases)
