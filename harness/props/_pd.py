"""Shared implementation side of C15 / C16 (model M-PD): the descriptor schemas, the numeric encoding of their
declared semantics (read from the real classes with issubclass / get_inverse / the monitored container types), and
the runner that executes a case line on the REAL krrood code in isolated worker processes.

Schemas
  U  the repository's university-like classes (test/dataset/university_ontology_like_classes.py, loaded read-only
     by path; an identical re-declaration is used if that file is not importable)
  D  harness-defined: a diamond of sub-properties (Bottom < Left, Right < Top), an inverse pair (Top <-> TopInv),
     two transitive properties (Near; Anc with sub-property Parent and inverse Desc), a role taker (R plays A,
     RBottom < Bottom lives on the role, its super-properties on the role taker) and an inverse that is itself a
     sub-property (Owns <-> OwnedBy < LinkedTo: the super-property is reachable only from an inferred relation);
     the role has a super-property field of its own (R.rright: Right) besides the ones on its role taker; an
     inverse pair (Holds <-> HeldBy) whose classes also carry a field for a strict super-property of the inverse,
     named before resp. after the inverse field, and a role with only that super-property field
  L  harness-defined, for C16: a list field and a set field with super-property and inverse, not transitive

Harness classes use identity equality and hash to their index, so that `make_set` iterates in ascending index
order (CPython set of small ints) — the only place where the model needs "hash order".
"""
from __future__ import annotations

import gc
import os
import sys
from typing import Any, Dict, List, Optional, Set, Tuple

# ------------------------------------------------------------------------------------------- s-expressions


def parse_sexp(line: str):
    toks = line.replace("(", " ( ").replace(")", " ) ").split()

    def rd(i):
        if toks[i] == "(":
            out = []
            i += 1
            while toks[i] != ")":
                x, i = rd(i)
                out.append(x)
            return out, i + 1
        return toks[i], i + 1

    return rd(0)[0]


def field_of(items, key):
    for x in items:
        if isinstance(x, list) and x and x[0] == key:
            return x[1:]
    return None


# ------------------------------------------------------------------------------------------- schemas (real classes)

_SCHEMAS: Dict[str, "SchemaInfo"] = {}


class SchemaInfo:
    """classes: list of Symbol classes (class id = position); fields: list of (class id, attr name);
    role_attr: class id -> name of the role-taker attribute; ctor: class id -> callable(index, role_taker) -> obj"""

    def __init__(self, tag, classes, fields, role_attr, ctor, targets, also=None):
        self.tag = tag
        self.classes = classes
        self.fields = fields
        # field id -> further (class id, attr name) attachments of the SAME descriptor class on unrelated classes
        self.also = also or {}
        # class id -> ids of its strict super classes among the schema's classes (managed fields are inherited)
        self.parents = {i: [j for j, d in enumerate(classes) if j != i and issubclass(c, d)]
                        for i, c in enumerate(classes)}
        self.role_attr = role_attr
        self.ctor = ctor
        self.targets = targets  # field id -> list of class ids admissible as asserted targets
        self.desc = [getattr(classes[c], name) for c, name in fields]  # PropertyDescriptor instances
        self.props: List[type] = []
        for d in self.desc:
            if type(d) not in self.props:
                self.props.append(type(d))
        from krrood.ontomatic.property_descriptor.mixins import HasInverseProperty, TransitiveProperty

        # every descriptor class that appears as an inverse must have an id as well
        for p in list(self.props):
            if issubclass(p, HasInverseProperty):
                q = p.get_inverse()
                if q not in self.props:
                    self.props.append(q)
        self.kinds = [self._kind(i) for i in range(len(fields))]
        self.supers = {i: [j for j, q in enumerate(self.props) if q is not p and issubclass(p, q)]
                       for i, p in enumerate(self.props)}
        self.inverse = {i: self.props.index(p.get_inverse()) for i, p in enumerate(self.props)
                        if issubclass(p, HasInverseProperty)}
        self.trans = [i for i, p in enumerate(self.props) if issubclass(p, TransitiveProperty)]
        self.field_index = {(classes[c], name): i for i, (c, name) in enumerate(fields)}

    def attachments(self, f: int):
        return [self.fields[f]] + list(self.also.get(f, []))

    def isa(self, c: int, d: int) -> bool:
        return c == d or d in self.parents[c]

    def applies(self, f: int, c: int) -> bool:
        return any(self.isa(c, d) for d, _ in self.attachments(f))

    def attr(self, f: int, c: int) -> str:
        """the attribute name of field `f` on instances of class `c`"""
        for d, name in self.attachments(f):
            if self.isa(c, d):
                return name
        raise KeyError((f, c))

    def label(self, relation) -> int:
        """the field a relation belongs to: identified by its descriptor CLASS and the class of its source (the
        wrapped field of an inferred relation on a subclass instance is owned by the subclass; the property does not
        distinguish such variants)"""
        p = type(relation.wrapped_field.property_descriptor)
        src = relation.source.instance
        for f in range(len(self.fields)):
            if type(self.desc[f]) is p and any(isinstance(src, self.classes[d]) for d, _ in self.attachments(f)):
                return f
        return 10 ** 6

    def _kind(self, i) -> str:
        from typing import get_type_hints  # noqa: F401
        d = self.desc[i]
        if not d.is_iterable:
            return "single"
        import typing_extensions as te
        from dataclasses import fields as dc_fields
        c, name = self.fields[i]
        ann = [f.type for f in dc_fields(self.classes[c]) if f.name == name][0]
        s = ann if isinstance(ann, str) else getattr(ann, "__name__", str(ann))
        return "set" if str(s).lstrip().startswith(("Set", "set", "typing.Set")) else "list"

    def sexp(self) -> str:
        def dom(i, c):
            more = [d for d, _ in self.also.get(i, [])]
            return f"({c} {' '.join(map(str, more))})" if more else str(c)

        fs = " ".join(f"({dom(i, c)} {self.props.index(type(self.desc[i]))} {self.kinds[i]})"
                      for i, (c, _) in enumerate(self.fields))
        par = " ".join(f"({c} {' '.join(map(str, a))})" for c, a in self.parents.items() if a)
        sup = " ".join(f"({p} {' '.join(map(str, a))})" if a else f"({p})" for p, a in self.supers.items())
        inv = " ".join(f"({p} {q})" for p, q in self.inverse.items())
        tr = " ".join(map(str, self.trans))
        eqc = eq_classes(self)
        return (f"(schema {self.tag}) (fields {fs}) (supers {sup}) (inv {inv}) (trans {tr})"
                + (f" (parents {par})" if par else "")
                + (f" (eqcls {' '.join(map(str, eqc))})" if eqc else ""))


def _load_university():
    """the repository's own example classes, read-only, by path (no dependency on the name `test`)"""
    import importlib.util
    from core import REPO

    name = "krrood_verif_university_dataset"
    if name in sys.modules:
        return sys.modules[name]
    path = REPO / "test" / "dataset" / "university_ontology_like_classes.py"
    try:
        spec = importlib.util.spec_from_file_location(name, str(path))
        mod = importlib.util.module_from_spec(spec)
        sys.modules[name] = mod
        spec.loader.exec_module(mod)
        return mod
    except Exception:
        sys.modules.pop(name, None)
        from props import _pd_university_copy as mod  # identical declarations
        return mod


def _declare_d():
    from dataclasses import dataclass, field
    from typing_extensions import List, Set, Type
    from krrood.class_diagrams.utils import Role
    from krrood.entity_query_language.predicate import Symbol
    from krrood.ontomatic.property_descriptor.mixins import HasInverseProperty, TransitiveProperty
    from krrood.ontomatic.property_descriptor.property_descriptor import PropertyDescriptor

    g = sys.modules[__name__].__dict__

    @dataclass(eq=False)
    class PdA(Symbol):
        idx: int
        top: Set[PdB] = field(default_factory=set)
        left: List[PdB] = field(default_factory=list)
        right: List[PdB] = field(default_factory=list)
        bottom: PdB = None
        near: List[PdA] = field(default_factory=list)
        anc: List[PdA] = field(default_factory=list)
        parent: List[PdA] = field(default_factory=list)
        desc: Set[PdA] = field(default_factory=set)
        owns: List[PdB] = field(default_factory=list)
        holds: List[PdB] = field(default_factory=list)
        zholds_any: Set[PdB] = field(default_factory=set)

        def __hash__(self):
            return self.idx

    @dataclass(eq=False)
    class PdB(Symbol):
        idx: int
        top_inv: List[PdA] = field(default_factory=list)
        owned_by: List[PdA] = field(default_factory=list)
        linked_to: Set[PdA] = field(default_factory=set)
        held_by: List[PdA] = field(default_factory=list)
        aheld_any: Set[PdA] = field(default_factory=set)

        def __hash__(self):
            return self.idx

    @dataclass(eq=False)
    class PdR(Role[PdA], Symbol):
        a: PdA
        idx: int = 0
        rbottom: PdB = None
        rright: List[PdB] = field(default_factory=list)
        rholds_any: List[PdB] = field(default_factory=list)

        def __hash__(self):
            return self.idx

        def __eq__(self, other):  # `Role` is an eq-dataclass without fields: its __eq__ would equate all roles
            return self is other

    g.update(PdA=PdA, PdB=PdB, PdR=PdR)

    @dataclass
    class Top(PropertyDescriptor, HasInverseProperty):
        @classmethod
        def get_inverse(cls):
            return TopInv

    @dataclass
    class TopInv(PropertyDescriptor, HasInverseProperty):
        @classmethod
        def get_inverse(cls):
            return Top

    @dataclass
    class Left(Top): ...

    @dataclass
    class Right(Top): ...

    @dataclass
    class Bottom(Left, Right): ...

    @dataclass
    class RBottom(Bottom): ...

    @dataclass
    class Near(PropertyDescriptor, TransitiveProperty): ...

    @dataclass
    class Anc(PropertyDescriptor, TransitiveProperty, HasInverseProperty):
        @classmethod
        def get_inverse(cls):
            return Desc

    @dataclass
    class Desc(PropertyDescriptor, TransitiveProperty, HasInverseProperty):
        @classmethod
        def get_inverse(cls):
            return Anc

    @dataclass
    class Parent(Anc): ...

    # the inverse of Owns is a SUB-property: its super-property is reachable only from an inferred relation
    @dataclass
    class LinkedTo(PropertyDescriptor): ...

    @dataclass
    class OwnedBy(LinkedTo, HasInverseProperty):
        @classmethod
        def get_inverse(cls):
            return Owns

    @dataclass
    class Owns(PropertyDescriptor, HasInverseProperty):
        @classmethod
        def get_inverse(cls):
            return OwnedBy

    # an inverse pair whose two sides each ALSO have a field for a strict super-property of the inverse on the same
    # class, once named before and once after the inverse field (whatever order the class diagram lists associations
    # in, one of them precedes its inverse field); and a role that has only the super-property field while the
    # inverse field itself lives on its role taker
    @dataclass
    class HoldsAny(PropertyDescriptor): ...

    @dataclass
    class HeldAny(PropertyDescriptor): ...

    @dataclass
    class Holds(HoldsAny, HasInverseProperty):
        @classmethod
        def get_inverse(cls):
            return HeldBy

    @dataclass
    class HeldBy(HeldAny, HasInverseProperty):
        @classmethod
        def get_inverse(cls):
            return Holds

    PdA.top = Top(PdA, "top")
    PdA.left = Left(PdA, "left")
    PdA.right = Right(PdA, "right")
    PdA.bottom = Bottom(PdA, "bottom")
    PdA.near = Near(PdA, "near")
    PdA.anc = Anc(PdA, "anc")
    PdA.parent = Parent(PdA, "parent")
    PdA.desc = Desc(PdA, "desc")
    PdB.top_inv = TopInv(PdB, "top_inv")
    PdR.rbottom = RBottom(PdR, "rbottom")
    PdA.owns = Owns(PdA, "owns")
    PdB.owned_by = OwnedBy(PdB, "owned_by")
    PdB.linked_to = LinkedTo(PdB, "linked_to")
    # the role ALSO has a field of its own managed by a direct super-property of RBottom, while the role taker
    # carries the intermediate (Bottom) and the sibling (Left) super-properties, which Right does not imply
    PdR.rright = Right(PdR, "rright")
    PdA.holds = Holds(PdA, "holds")
    PdA.zholds_any = HoldsAny(PdA, "zholds_any")
    PdB.held_by = HeldBy(PdB, "held_by")
    PdB.aheld_any = HeldAny(PdB, "aheld_any")
    PdR.rholds_any = HoldsAny(PdR, "rholds_any")
    classes = [PdA, PdB, PdR]
    fields = [(0, "top"), (0, "left"), (0, "right"), (0, "bottom"), (0, "near"), (0, "anc"), (0, "parent"),
              (0, "desc"), (1, "top_inv"), (2, "rbottom"), (0, "owns"), (1, "owned_by"), (1, "linked_to"), (2, "rright"),
              (0, "holds"), (0, "zholds_any"), (1, "held_by"), (1, "aheld_any"), (2, "rholds_any")]
    targets = {0: [1], 1: [1], 2: [1], 3: [1], 4: [0], 5: [0], 6: [0], 7: [0], 8: [0, 2], 9: [1], 10: [1], 11: [0],
               12: [0], 13: [1], 14: [1], 15: [1], 16: [0, 2], 17: [0], 18: [1]}
    ctor = {0: lambda i, rt: PdA(i), 1: lambda i, rt: PdB(i), 2: lambda i, rt: PdR(rt, i)}
    return SchemaInfo("D", classes, fields, {2: "a"}, ctor, targets)


def _declare_l():
    from dataclasses import dataclass, field
    from typing_extensions import List, Set
    from krrood.entity_query_language.predicate import Symbol
    from krrood.ontomatic.property_descriptor.mixins import HasInverseProperty
    from krrood.ontomatic.property_descriptor.property_descriptor import PropertyDescriptor

    g = sys.modules[__name__].__dict__

    @dataclass(eq=False)
    class PdN(Symbol):
        idx: int
        items: List[PdN] = field(default_factory=list)
        all_items: List[PdN] = field(default_factory=list)
        item_of: List[PdN] = field(default_factory=list)
        tags: Set[PdN] = field(default_factory=set)
        all_tags: Set[PdN] = field(default_factory=set)
        tag_of: Set[PdN] = field(default_factory=set)

        def __hash__(self):
            return self.idx

    g.update(PdN=PdN)

    @dataclass
    class AllItems(PropertyDescriptor, HasInverseProperty):
        @classmethod
        def get_inverse(cls):
            return ItemOf

    @dataclass
    class ItemOf(PropertyDescriptor, HasInverseProperty):
        @classmethod
        def get_inverse(cls):
            return AllItems

    @dataclass
    class Items(AllItems): ...

    @dataclass
    class AllTags(PropertyDescriptor, HasInverseProperty):
        @classmethod
        def get_inverse(cls):
            return TagOf

    @dataclass
    class TagOf(PropertyDescriptor, HasInverseProperty):
        @classmethod
        def get_inverse(cls):
            return AllTags

    @dataclass
    class Tags(AllTags): ...

    PdN.items = Items(PdN, "items")
    PdN.all_items = AllItems(PdN, "all_items")
    PdN.item_of = ItemOf(PdN, "item_of")
    PdN.tags = Tags(PdN, "tags")
    PdN.all_tags = AllTags(PdN, "all_tags")
    PdN.tag_of = TagOf(PdN, "tag_of")
    fields = [(0, "items"), (0, "all_items"), (0, "item_of"), (0, "tags"), (0, "all_tags"), (0, "tag_of")]
    targets = {i: [0] for i in range(6)}
    return SchemaInfo("L", [PdN], fields, {}, {0: lambda i, rt: PdN(i)}, targets)


def _declare_v():
    """schema L again, but over a class whose instances compare BY VALUE (`key`): several distinct objects are `==`
    and hash alike. A list field stores them by position/identity, a set field keeps the first of several equal
    ones (Python semantics), the symbol graph has one node - and so one relation - per OBJECT."""
    from dataclasses import dataclass, field
    from typing_extensions import List, Set
    from krrood.entity_query_language.predicate import Symbol
    from krrood.ontomatic.property_descriptor.mixins import HasInverseProperty
    from krrood.ontomatic.property_descriptor.property_descriptor import PropertyDescriptor

    g = sys.modules[__name__].__dict__

    @dataclass(eq=True)
    class PdV(Symbol):
        key: int
        idx: int = field(default=0, compare=False)
        items: List[PdV] = field(default_factory=list, compare=False)
        all_items: List[PdV] = field(default_factory=list, compare=False)
        item_of: List[PdV] = field(default_factory=list, compare=False)
        tags: Set[PdV] = field(default_factory=set, compare=False)
        all_tags: Set[PdV] = field(default_factory=set, compare=False)
        tag_of: Set[PdV] = field(default_factory=set, compare=False)

        def __hash__(self):
            return self.key

    g.update(PdV=PdV)

    @dataclass
    class VAllItems(PropertyDescriptor, HasInverseProperty):
        @classmethod
        def get_inverse(cls):
            return VItemOf

    @dataclass
    class VItemOf(PropertyDescriptor, HasInverseProperty):
        @classmethod
        def get_inverse(cls):
            return VAllItems

    @dataclass
    class VItems(VAllItems): ...

    @dataclass
    class VAllTags(PropertyDescriptor, HasInverseProperty):
        @classmethod
        def get_inverse(cls):
            return VTagOf

    @dataclass
    class VTagOf(PropertyDescriptor, HasInverseProperty):
        @classmethod
        def get_inverse(cls):
            return VAllTags

    @dataclass
    class VTags(VAllTags): ...

    PdV.items = VItems(PdV, "items")
    PdV.all_items = VAllItems(PdV, "all_items")
    PdV.item_of = VItemOf(PdV, "item_of")
    PdV.tags = VTags(PdV, "tags")
    PdV.all_tags = VAllTags(PdV, "all_tags")
    PdV.tag_of = VTagOf(PdV, "tag_of")
    fields = [(0, "items"), (0, "all_items"), (0, "item_of"), (0, "tags"), (0, "all_tags"), (0, "tag_of")]
    targets = {i: [0] for i in range(6)}
    info = SchemaInfo("V", [PdV], fields, {}, {}, targets)
    info.case_keys = []
    info.ctor[0] = lambda i, rt: PdV(info.case_keys[i] if i < len(info.case_keys) else 1000 + i, i)
    return info


def _declare_h():
    """domain classes in a SUBCLASS hierarchy and one transitive descriptor class attached to two unrelated classes:
    Place <- City <- Metropolis, and Region. LocatedIn (transitive, inverse Contains) is declared on Place AND on
    Region; CapitalOf < LocatedIn lives on City, SeatOf < CapitalOf (single-valued) on Metropolis. Relations inferred
    on a City / Metropolis instance carry the subclass' wrapped field, asserted ones the declaring class' - they
    must chain all the same."""
    from dataclasses import dataclass, field
    from typing_extensions import List, Set
    from krrood.entity_query_language.predicate import Symbol
    from krrood.ontomatic.property_descriptor.mixins import HasInverseProperty, TransitiveProperty
    from krrood.ontomatic.property_descriptor.property_descriptor import PropertyDescriptor

    g = sys.modules[__name__].__dict__

    @dataclass(eq=False)
    class PdPlace(Symbol):
        idx: int
        located_in: List[PdPlace] = field(default_factory=list)
        contains: Set[PdPlace] = field(default_factory=set)

        def __hash__(self):
            return self.idx

    @dataclass(eq=False)
    class PdCity(PdPlace):
        capital_of: List[PdPlace] = field(default_factory=list)

        def __hash__(self):
            return self.idx

    @dataclass(eq=False)
    class PdMetropolis(PdCity):
        seat_of: PdPlace = None

        def __hash__(self):
            return self.idx

    @dataclass(eq=False)
    class PdRegion(Symbol):
        idx: int
        located_in: List[PdPlace] = field(default_factory=list)
        contains: Set[PdPlace] = field(default_factory=set)

        def __hash__(self):
            return self.idx

    g.update(PdPlace=PdPlace, PdCity=PdCity, PdMetropolis=PdMetropolis, PdRegion=PdRegion)

    @dataclass
    class LocatedIn(PropertyDescriptor, TransitiveProperty, HasInverseProperty):
        @classmethod
        def get_inverse(cls):
            return Contains

    @dataclass
    class Contains(PropertyDescriptor, TransitiveProperty, HasInverseProperty):
        @classmethod
        def get_inverse(cls):
            return LocatedIn

    @dataclass
    class CapitalOf(LocatedIn): ...

    @dataclass
    class SeatOf(CapitalOf): ...

    PdPlace.located_in = LocatedIn(PdPlace, "located_in")
    PdPlace.contains = Contains(PdPlace, "contains")
    PdRegion.located_in = LocatedIn(PdRegion, "located_in")
    PdRegion.contains = Contains(PdRegion, "contains")
    PdCity.capital_of = CapitalOf(PdCity, "capital_of")
    PdMetropolis.seat_of = SeatOf(PdMetropolis, "seat_of")
    classes = [PdPlace, PdCity, PdMetropolis, PdRegion]
    fields = [(0, "located_in"), (0, "contains"), (1, "capital_of"), (2, "seat_of")]
    also = {0: [(3, "located_in")], 1: [(3, "contains")]}
    targets = {f: [0, 1, 2, 3] for f in range(4)}
    ctor = {0: lambda i, rt: PdPlace(i), 1: lambda i, rt: PdCity(i), 2: lambda i, rt: PdMetropolis(i),
            3: lambda i, rt: PdRegion(i)}
    return SchemaInfo("H", classes, fields, {}, ctor, targets, also)


def _declare_f():
    """classes with their OWN truthiness: PdBag defines `__len__` backed by a mutable attribute (an empty bag is
    falsy), PdFlag defines `__bool__`. Fields 0..5 have the shape of schema L (over bags), 6/7 relate bags and flags
    through an inverse pair, 8 is single-valued and transitive on the `__bool__` class, 9 transitive on bags."""
    from dataclasses import dataclass, field
    from typing_extensions import List, Set
    from krrood.entity_query_language.predicate import Symbol
    from krrood.ontomatic.property_descriptor.mixins import HasInverseProperty, TransitiveProperty
    from krrood.ontomatic.property_descriptor.property_descriptor import PropertyDescriptor

    g = sys.modules[__name__].__dict__

    @dataclass(eq=False)
    class PdBag(Symbol):
        idx: int
        size: int = 1
        items: List[PdBag] = field(default_factory=list)
        all_items: List[PdBag] = field(default_factory=list)
        item_of: List[PdBag] = field(default_factory=list)
        tags: Set[PdBag] = field(default_factory=set)
        all_tags: Set[PdBag] = field(default_factory=set)
        tag_of: Set[PdBag] = field(default_factory=set)
        flags: List[PdFlag] = field(default_factory=list)
        within: List[PdBag] = field(default_factory=list)

        def __hash__(self):
            return self.idx

        def __len__(self):
            return self.size

    @dataclass(eq=False)
    class PdFlag(Symbol):
        idx: int
        on: bool = True
        flag_of: Set[PdBag] = field(default_factory=set)
        next: PdFlag = None

        def __hash__(self):
            return self.idx

        def __bool__(self):
            return self.on

    g.update(PdBag=PdBag, PdFlag=PdFlag)

    def inv_pair(n1, n2):
        a = type(n1, (PropertyDescriptor, HasInverseProperty), {"__module__": __name__})
        b = type(n2, (PropertyDescriptor, HasInverseProperty), {"__module__": __name__})
        a.get_inverse = classmethod(lambda cls: b)
        b.get_inverse = classmethod(lambda cls: a)
        return dataclass(a), dataclass(b)

    FAllItems, FItemOf = inv_pair("FAllItems", "FItemOf")
    FAllTags, FTagOf = inv_pair("FAllTags", "FTagOf")
    FFlags, FFlagOf = inv_pair("FFlags", "FFlagOf")

    @dataclass
    class FItems(FAllItems): ...

    @dataclass
    class FTags(FAllTags): ...

    @dataclass
    class FNext(PropertyDescriptor, TransitiveProperty): ...

    @dataclass
    class FWithin(PropertyDescriptor, TransitiveProperty): ...

    PdBag.items = FItems(PdBag, "items")
    PdBag.all_items = FAllItems(PdBag, "all_items")
    PdBag.item_of = FItemOf(PdBag, "item_of")
    PdBag.tags = FTags(PdBag, "tags")
    PdBag.all_tags = FAllTags(PdBag, "all_tags")
    PdBag.tag_of = FTagOf(PdBag, "tag_of")
    PdBag.flags = FFlags(PdBag, "flags")
    PdFlag.flag_of = FFlagOf(PdFlag, "flag_of")
    PdFlag.next = FNext(PdFlag, "next")
    PdBag.within = FWithin(PdBag, "within")
    fields = [(0, "items"), (0, "all_items"), (0, "item_of"), (0, "tags"), (0, "all_tags"), (0, "tag_of"),
              (0, "flags"), (1, "flag_of"), (1, "next"), (0, "within")]
    targets = {0: [0], 1: [0], 2: [0], 3: [0], 4: [0], 5: [0], 6: [1], 7: [0], 8: [1], 9: [0]}
    ctor = {0: lambda i, rt: PdBag(i), 1: lambda i, rt: PdFlag(i)}
    return SchemaInfo("F", [PdBag, PdFlag], fields, {}, ctor, targets)


def set_truthiness(obj, truthy: bool) -> None:
    """make an instance of a class with its own `__len__` / `__bool__` falsy or truthy"""
    if hasattr(obj, "size"):
        obj.size = 1 if truthy else 0
    elif hasattr(obj, "on"):
        obj.on = bool(truthy)
    else:
        raise ValueError("instance has no truthiness of its own")


def _declare_u():
    m = _load_university()
    classes = [m.Person, m.Company, m.CEO]
    fields = [(0, "works_for"), (0, "member_of"), (1, "members"), (1, "sub_organization_of"), (2, "head_of")]
    targets = {0: [1], 1: [1], 2: [0, 2], 3: [1], 4: [1]}
    ctor = {0: lambda i, rt: m.Person(name=f"p{i}"), 1: lambda i, rt: m.Company(name=f"c{i}"),
            2: lambda i, rt: m.CEO(rt)}
    return SchemaInfo("U", classes, fields, {2: "person"}, ctor, targets)


def schema(tag: str) -> SchemaInfo:
    """declare (once per process) and describe a schema; needs krrood importable"""
    if tag not in _SCHEMAS:
        _SCHEMAS[tag] = {"U": _declare_u, "D": _declare_d, "L": _declare_l, "V": _declare_v, "H": _declare_h, "F": _declare_f}[tag]()
    return _SCHEMAS[tag]


# ------------------------------------------------------------------------------------------- running a case


def _fresh_graph():
    from krrood.entity_query_language.symbol_graph import SymbolGraph

    SymbolGraph().clear()
    return SymbolGraph()


def construct(info: SchemaInfo, c: int, i: int, rt, **managed):
    """instance `i` of class `c` built by ONE constructor call that also assigns the managed fields in `managed`
    (`Person("p", works_for=acme, member_of=[club])`): the dataclass `__init__` assigns every field in declaration
    order, so inference triggered by an earlier field reaches later fields of the same instance before `__init__`
    has assigned them"""
    cls = info.classes[c]
    if info.tag == "U":
        if c in info.role_attr:
            return cls(rt, **managed)
        return cls(name=("p" if c == 0 else "c") + str(i), **managed)
    if c in info.role_attr:
        return cls(rt, i, **managed)
    return cls(i, **managed)


def ctor_fields(info: SchemaInfo) -> Dict[int, List[int]]:
    """class id -> its managed fields in the order in which the dataclass `__init__` assigns them"""
    from dataclasses import fields as dc_fields

    out: Dict[int, List[int]] = {}
    for c, cls in enumerate(info.classes):
        by_name = {info.attr(f, c): f for f in range(len(info.fields)) if info.applies(f, c)}
        out[c] = [by_name[f.name] for f in dc_fields(cls) if f.name in by_name]
    return out


def eq_classes(info: SchemaInfo) -> List[int]:
    """ids of the classes whose instances are compared BY VALUE over their managed fields: eq-dataclasses whose
    generated `__eq__` builds the tuple of all compared fields of both instances — so it reads every managed field,
    and raises AttributeError for an instance whose `__init__` has not assigned a later one yet (F-C16-10 / F-C15-4;
    `(eqcls …)` of the schema line, `HCtx.eqc` of Model/DescriptorHalfBuilt.lean). A class that compares none of its
    managed fields (schema V: `compare=False`) reads none of them and is not listed. Anything in between is outside
    the model and rejected loudly."""
    from dataclasses import fields as dc_fields

    out: List[int] = []
    for c, cls in enumerate(info.classes):
        params = getattr(cls, "__dataclass_params__", None)
        generated = params is not None and params.eq and "__eq__" in cls.__dict__
        if not generated:
            own = cls.__dict__.get("__eq__")
            names = {info.attr(f, c) for f in range(len(info.fields)) if info.applies(f, c)}
            if own is not None and hasattr(own, "__code__") and not set(own.__code__.co_names) & names:
                continue    # a hand-written __eq__ that mentions no managed field (harness: `return self is other`)
            if cls.__eq__ is not object.__eq__:
                raise NotImplementedError(f"{cls.__name__}: inherited / hand-written __eq__ is outside the model")
            continue
        fs = list(dc_fields(cls))
        managed = {info.attr(f, c) for f in range(len(info.fields)) if info.applies(f, c)}
        compared = [f.name for f in fs if f.compare and f.name in managed]
        if not compared:
            continue
        last_managed = max(i for i, f in enumerate(fs) if f.name in managed)
        if len(compared) != len(managed) or any(f.compare for f in fs[last_managed + 1:]):
            raise NotImplementedError(f"{cls.__name__}: __eq__ compares only part of the managed fields, or fields "
                                      f"declared after the last managed one: outside the model")
        out.append(c)
    return out


def build_world(info: SchemaInfo, objs, late=()) -> List[Any]:
    """`late`: indices of instances that are created only when the history says so"""
    out: List[Any] = []
    for i, (c, rt) in enumerate(objs):
        c = int(c)
        out.append(None if i in late else info.ctor[c](i, out[int(rt)] if rt != "-" else None))
    return out


def make_at_dead_address(make, dead_ids, ballast, tries: int = 8):
    """CPython hands freed addresses out again; which allocation gets one is an accident of the allocator. Create
    instances until one lands on the address of a dead instance (the others stay alive, unrelated, unobserved)."""
    cand = make()
    for _ in range(tries):
        if id(cand) in dead_ids:
            dead_ids.discard(id(cand))
            return cand
        ballast.append(cand)
        cand = make()
    return cand


def observe_relations(info: SchemaInfo, sg, objs) -> str:
    oid = {id(o): i for i, o in enumerate(objs) if o is not None}
    rels = set()
    for r in sg.relations():
        if r.source.instance is None or r.target.instance is None:
            continue  # a dead instance: the property speaks about live instances
        f = info.label(r)
        s = oid.get(id(r.source.instance))
        t = oid.get(id(r.target.instance))
        rels.add((f, s if s is not None else 10 ** 6, t if t is not None else 10 ** 6))
    return "R[" + ",".join(f"{a}:{b}:{c}" for a, b, c in sorted(rels)) + "]"


def _idx(oid, v):
    import weakref
    if isinstance(v, weakref.ref):
        v = v()
    return oid.get(id(v), 10 ** 6)


def observe_fields(info: SchemaInfo, objs, classes_of) -> str:
    oid = {id(o): i for i, o in enumerate(objs) if o is not None}
    items = []
    for f in range(len(info.fields)):
        for o, oc in enumerate(classes_of):
            if objs[o] is None or not info.applies(f, oc):
                continue
            v = getattr(objs[o], info.attr(f, oc))
            if info.kinds[f] == "single":
                items.append(f"{f}.{o}=" + ("" if v is None else str(_idx(oid, v))))
            else:
                items.append(f"{f}.{o}=" + ",".join(map(str, sorted({_idx(oid, x) for x in v}))))
    return "F[" + ";".join(items) + "]"


def run_c15_line(line: str) -> str:
    try:
        s = parse_sexp(line)
        items = s[1:]
        info = schema(field_of(items, "schema")[0])
        sg = _fresh_graph()
        objs_spec = field_of(items, "objs")
        ops = field_of(items, "ops")
        late = {int(op[1]) for op in ops if op[0] in ("new", "kill", "ctor")}
        objs = build_world(info, objs_spec, late)
        classes_of = [int(c) for c, _ in objs_spec]
        dead_ids, ballast = set(), []
        for op in ops:
            if op[0] == "ctor":      # `(ctor o (f x…)…)`: instance o is created HERE, managed fields given to the constructor
                i = int(op[1])
                c, rt = objs_spec[i]
                kw = {}
                for fx in op[2:]:
                    f, xs = int(fx[0]), [objs[int(x)] for x in fx[1:]]
                    if not xs:
                        continue     # left to its default
                    k = info.kinds[f]
                    kw[info.attr(f, int(c))] = xs[0] if k == "single" else (set(xs) if k == "set" else list(xs))
                objs[i] = construct(info, int(c), i, objs[int(rt)] if rt != "-" else None, **kw)
                continue
            if op[0] == "kill":      # a short-lived instance without relations: created here and discarded at once
                i = int(op[1])           # (no collection in between: CPython hands its address to the next instance)
                c, rt = objs_spec[i]
                x = info.ctor[int(c)](i, objs[int(rt)] if rt != "-" else None)
                dead_ids.add(id(x))
                del x
                continue
            if op[0] == "new":       # ... and a new one is created at the address of a dead one, as CPython does
                i = int(op[1])
                c, rt = objs_spec[i]
                objs[i] = make_at_dead_address(
                    lambda: info.ctor[int(c)](i, objs[int(rt)] if rt != "-" else None), dead_ids, ballast)
                continue
            if op[0] == "sweep":     # what every query evaluation does first
                sg.remove_dead_instances()
                continue
            if op[0] in ("falsy", "truthy"):   # an instance with its own __len__ / __bool__ changes its truthiness
                set_truthiness(objs[int(op[1])], op[0] == "truthy")
                continue
            kind, f, src = op[0], int(op[1]), objs[int(op[2])]
            name = info.attr(f, classes_of[int(op[2])])
            if kind == "set":
                setattr(src, name, objs[int(op[3])])
            elif kind == "add":
                c = getattr(src, name)
                (c.add if info.kinds[f] == "set" else c.append)(objs[int(op[3])])
            elif kind == "assign":
                vals = [objs[int(x)] for x in op[3:]]
                # the ORDER in which the setter walks the assigned elements decides which of them arrive by assertion
                # and which by inference (and so which survive a later assignment): a set-valued field is given an
                # ordered iterable, because the iteration order of a Python set of the repository's classes (hashed by
                # name) differs from process to process
                setattr(src, name, tuple(vals) if info.kinds[f] == "set" else list(vals))
            elif kind == "assign1":
                setattr(src, name, objs[int(op[3])])  # a bare element assigned to a container field
            else:
                return "bad-op"
        out = observe_relations(info, sg, objs) + "|" + observe_fields(info, objs, classes_of)
        del objs
        return out
    except RecursionError:
        return "exc:RecursionError"
    except Exception as e:  # noqa: BLE001
        return "exc:" + type(e).__name__


def _py_index(i: int) -> int:
    return i


def _apply_cop(a, name: str, is_set: bool, op, objs) -> None:
    """one write operation of the C16 grammar on field `name` of `a`, exactly as a user would write it"""
    import itertools

    k = op[0]
    mk = (lambda xs: set(xs)) if is_set else (lambda xs: list(xs))
    vals = [objs[int(x)] for x in op[1:]] if k not in ("insert", "setitem", "assignView", "setslice", "pop", "delitem",
                                                      "delslice") else None
    if k == "append":
        getattr(a, name).append(vals[0])
    elif k == "add":
        getattr(a, name).add(vals[0])
    elif k == "extend":
        getattr(a, name).extend(list(vals))
    elif k == "update":
        getattr(a, name).update(list(vals))
    elif k == "insert":
        getattr(a, name).insert(int(op[1]), objs[int(op[2])])
    elif k == "setitem":
        getattr(a, name)[int(op[1])] = objs[int(op[2])]
    elif k == "setslice":
        # a.f[i:j] = value; the value is a list / tuple ("L") or a one-shot iterable: generator / iterator ("G")
        lo = None if op[1] == "-" else int(op[1])
        hi = None if op[2] == "-" else int(op[2])
        xs = [objs[int(x)] for x in op[4:]]
        if op[3] == "L":
            value = tuple(xs) if len(xs) % 2 else list(xs)
        else:
            value = (x for x in xs) if len(xs) % 2 else iter(xs)
        getattr(a, name)[lo:hi] = value
    elif k == "remove":
        getattr(a, name).remove(vals[0])
    elif k == "discard":
        getattr(a, name).discard(vals[0])
    elif k == "pop":
        if len(op) > 1:
            getattr(a, name).pop(int(op[1]))
        else:
            getattr(a, name).pop()
    elif k == "delitem":
        del getattr(a, name)[int(op[1])]
    elif k == "delslice":
        lo = None if op[1] == "-" else int(op[1])
        hi = None if op[2] == "-" else int(op[2])
        del getattr(a, name)[lo:hi]
    elif k == "clear":
        getattr(a, name).clear()
    elif k == "assign":
        setattr(a, name, mk(vals))
    elif k == "assignSelf":
        setattr(a, name, getattr(a, name))
    elif k == "assignView":
        # the assigned value is an iterable over the LIVE container (lazy, except dict.fromkeys)
        v = op[1]
        if v == "filt":
            keep = {int(x) for x in op[2:]}
            if len(keep) % 2 == 0:
                setattr(a, name, (x for x in getattr(a, name) if x.idx in keep))
            else:
                setattr(a, name, filter(lambda x: x.idx in keep, getattr(a, name)))
        elif v == "rev":
            setattr(a, name, reversed(getattr(a, name)))
        elif v == "iter":
            setattr(a, name, iter(getattr(a, name)))
        elif v == "chain":
            setattr(a, name, itertools.chain(getattr(a, name), [objs[int(x)] for x in op[2:]]))
        elif v == "keys":
            setattr(a, name, dict.fromkeys(getattr(a, name)))
        else:
            raise ValueError("bad view")
    elif k == "iadd":
        # exactly what `a.f += xs` / `a.f |= xs` compile to
        if is_set:
            exec("a.%s |= v" % name, {}, {"a": a, "v": mk(vals)})
        else:
            exec("a.%s += v" % name, {}, {"a": a, "v": mk(vals)})
    elif k == "iaddAlias":
        # the operator applied to the container through another name: no re-assignment
        c = getattr(a, name)
        if is_set:
            c |= mk(vals)
        else:
            c += mk(vals)
    else:
        raise ValueError("bad op")


def _contents(oid, obj, name, is_set) -> str:
    cont = [_idx(oid, x) for x in getattr(obj, name)]
    if is_set:
        cont = sorted(cont)
    return "[" + ",".join(map(str, cont)) + "]"


def run_c16_line(line: str) -> str:
    try:
        s = parse_sexp(line)
        items = s[1:]
        info = schema(field_of(items, "schema")[0])
        sg = _fresh_graph()
        objs_spec = field_of(items, "objs")
        if s[0] == "hc":
            return _run_hc(info, sg, items, objs_spec)
        f = int(field_of(items, "field")[0])
        name = info.fields[f][1]
        is_set = info.kinds[f] == "set"
        if hasattr(info, "case_keys"):
            info.case_keys = [int(k) for k in (field_of(items, "keys") or [])]
        if s[0] == "w2":
            return _run_two(info, sg, items, objs_spec, f, name, is_set)
        ops = field_of(items, "ops")
        late = {int(op[1]) for op in ops if op[0] == "fresh"}
        objs = build_world(info, objs_spec, late)
        a = objs[int(field_of(items, "obj")[0])]
        for x in field_of(items, "init") or []:
            c = getattr(a, name)
            (c.add if is_set else c.append)(objs[int(x)])
        status = "ok"
        dead_ids, ballast = set(), []
        for op in ops:
            if op[0] == "drop":     # the program forgets an element that is no longer in the field: it dies at once
                dead_ids.add(id(objs[int(op[1])]))
                objs[int(op[1])] = None
                continue
            if op[0] in ("falsy", "truthy"):
                set_truthiness(objs[int(op[1])], op[0] == "truthy")
                continue
            if op[0] == "fresh":    # a new element is created; CPython gives it a freed address
                i = int(op[1])
                objs[i] = make_at_dead_address(lambda: info.ctor[int(objs_spec[i][0])](i, None), dead_ids, ballast)
                continue
            try:
                _apply_cop(a, name, is_set, op, objs)
            except ValueError:
                return "bad-op"
            except Exception as e:  # noqa: BLE001
                status = "exc:" + type(e).__name__
                break
        oid = {id(o): i for i, o in enumerate(objs) if o is not None}
        out = "C" + _contents(oid, a, name, is_set) + "|" + observe_relations(info, sg, objs)
        if status != "ok":
            out += "|" + status
        del objs
        return out
    except RecursionError:
        return "exc:RecursionError"
    except Exception as e:  # noqa: BLE001
        return "exc:" + type(e).__name__


def construct_with(info: SchemaInfo, c: int, i: int, kwargs: Dict[str, Any]):
    """a constructor call that assigns several managed fields at once (classes without a role taker)"""
    if info.tag == "U":
        return info.classes[c](name=f"{'p' if c == 0 else 'c'}{i}", **kwargs)
    return info.classes[c](i, **kwargs)


def _run_hc(info: SchemaInfo, sg, items, objs_spec) -> str:
    """C16 family `hc`: a history in the C15 grammar (set / add / assign through the real descriptors) in which some
    instances are created mid-history by a constructor call with keyword arguments for several managed fields
    `(ctor o (set f t) (assign f x…) (default f)…)`. No field is READ between the writes (a read binds the owner
    of a monitored container); observation at the end: relation triples and the contents of every managed field."""
    ops = field_of(items, "ops")
    late = {int(op[1]) for op in ops if op[0] == "ctor"}
    objs = build_world(info, objs_spec, late)
    classes_of = [int(c) for c, _ in objs_spec]
    for op in ops:
        if op[0] == "ctor":
            o = int(op[1])
            c = classes_of[o]
            kwargs: Dict[str, Any] = {}
            for it in op[2:]:
                f = int(it[1])
                if it[0] == "set":
                    kwargs[info.attr(f, c)] = objs[int(it[2])]
                elif it[0] == "assign":
                    vals = [objs[int(x)] for x in it[2:]]
                    kwargs[info.attr(f, c)] = set(vals) if info.kinds[f] == "set" else list(vals)
                elif it[0] != "default":
                    return "bad-op"
            objs[o] = construct_with(info, c, o, kwargs)
            continue
        kind, f, src = op[0], int(op[1]), objs[int(op[2])]
        name = info.attr(f, classes_of[int(op[2])])
        if kind == "set":
            setattr(src, name, objs[int(op[3])])
        elif kind == "add":
            c = getattr(src, name)
            (c.add if info.kinds[f] == "set" else c.append)(objs[int(op[3])])
        elif kind == "assign":
            vals = [objs[int(x)] for x in op[3:]]
            setattr(src, name, tuple(vals) if info.kinds[f] == "set" else list(vals))
        elif kind == "assignSelf":   # `o.f = o.f`: the assigned value is the field's own live container
            setattr(src, name, getattr(src, name))
        elif kind == "iadd":         # `o.f += [x…]` / `o.f |= {x…}`: in-place operator, then the container is assigned
            vals = [objs[int(x)] for x in op[3:]]
            if info.kinds[f] == "set":
                exec("a.%s |= v" % name, {}, {"a": src, "v": set(vals)})
            else:
                exec("a.%s += v" % name, {}, {"a": src, "v": list(vals)})
        else:
            return "bad-op"
    out = observe_relations(info, sg, objs) + "|" + observe_fields(info, objs, classes_of)
    del objs
    return out


def _run_two(info, sg, items, objs_spec, f, name, is_set) -> str:
    """two owners: `b` does not exist until `(adopt)`, which constructs it with field `name` = the live container of
    `a` (the first assignment of b's field receives a container taken from another instance)"""
    ia, ib = int(field_of(items, "objA")[0]), int(field_of(items, "objB")[0])
    objs: List[Any] = []
    for i, (c, rt) in enumerate(objs_spec):
        objs.append(None if i == ib else info.ctor[int(c)](i, objs[int(rt)] if rt != "-" else None))
    a = objs[ia]
    for x in field_of(items, "init") or []:
        c = getattr(a, name)
        (c.add if is_set else c.append)(objs[int(x)])
    for op in field_of(items, "ops"):
        if op[0] == "adopt":
            cls = info.classes[int(objs_spec[ib][0])]
            objs[ib] = cls(ib, **{name: getattr(a, name)})
        elif op[0] in ("A", "B"):
            _apply_cop(objs[ia if op[0] == "A" else ib], name, is_set, op[1], objs)
        else:
            return "bad-op"
    live = [o for o in objs if o is not None]
    oid = {id(o): i for i, o in enumerate(objs) if o is not None}
    out = "A" + _contents(oid, a, name, is_set) + "|B" + (
        _contents(oid, objs[ib], name, is_set) if objs[ib] is not None else "[-]")
    rels = set()
    for r in sg.relations():
        wf = r.wrapped_field
        ff = info.label(r)
        rels.add((ff, oid.get(id(r.source.instance), 10 ** 6), oid.get(id(r.target.instance), 10 ** 6)))
    out += "|R[" + ",".join(f"{x}:{y}:{z}" for x, y, z in sorted(rels)) + "]"
    del objs, live
    return out


def _worker_batch(args) -> List[str]:
    which, lines = args
    import warnings

    warnings.filterwarnings("ignore")
    from core import use_repo_sources

    use_repo_sources()
    fn = run_c15_line if which == "C15" else run_c16_line
    out = []
    for i, l in enumerate(lines):
        out.append(fn(l))
        if i % 50 == 49:
            gc.collect()
    return out


def run_isolated(which: str, lines: List[str], workers: Optional[int] = None) -> List[str]:
    """fresh interpreter(s) per batch (spawn): the descriptor registries, class diagram caches and the SymbolGraph
    singleton of the checking process are never touched; inside a worker every case starts from a cleared graph
    and fresh objects"""
    if not lines:
        return []
    import multiprocessing as mp

    n = workers or max(1, min(8, (os.cpu_count() or 2)))
    n = min(n, max(1, len(lines) // 20)) or 1
    chunk = (len(lines) + n - 1) // n
    batches = [(which, lines[i:i + chunk]) for i in range(0, len(lines), chunk)]
    ctx = mp.get_context("spawn")
    try:
        with ctx.Pool(len(batches)) as pool:
            res = pool.map(_worker_batch, batches)
    except Exception as e:  # noqa: BLE001
        return ["exc:worker:" + type(e).__name__] * len(lines)
    return [x for b in res for x in b]


def describe(tag: str) -> str:
    """schema s-expression, computed in a throw-away interpreter so that the checking process stays clean"""
    import multiprocessing as mp

    ctx = mp.get_context("spawn")
    with ctx.Pool(1) as pool:
        return pool.apply(_describe, (tag,))


def _describe(tag: str):
    import warnings

    warnings.filterwarnings("ignore")
    from core import use_repo_sources

    use_repo_sources()
    info = schema(tag)
    from dataclasses import fields as dc_fields
    decl_order = {}
    for c, cls in enumerate(info.classes):
        names = [x.name for x in dc_fields(cls)]
        fs = [f for f in range(len(info.fields)) if info.applies(f, c)]
        decl_order[c] = sorted(fs, key=lambda f: names.index(info.attr(f, c)))
    return {"sexp": info.sexp(), "kinds": info.kinds, "fields": info.fields, "targets": info.targets,
            # the managed fields of each class in the order the dataclass `__init__` assigns them
            "decl_order": decl_order,
            "role_cls": list(info.role_attr.keys()), "nclasses": len(info.classes), "ctor_fields": ctor_fields(info), "eq_classes": eq_classes(info),
            "applies": {f: [c for c in range(len(info.classes)) if info.applies(f, c)]
                        for f in range(len(info.fields))}}
