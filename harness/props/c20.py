"""C20 — krrood never extends the lifetime of user objects.

Implementation side: a loop body of create / relate / query (with and without explicit domains) / drop operations is
run n times on the real krrood; after every iteration the harness drops every reference it holds (instances, query
objects, results), calls gc.collect() and SymbolGraph().remove_dead_instances(), and records its own weak-reference
census and the size of every krrood-held structure.
Observation: the labels of the instances that survive, and per structure `flat|grow|mixed` over the last three
iterations (never exact numbers) plus `clean|stale` (entries left behind that belong to no live instance)."""
from __future__ import annotations

from core import Case
from props import _sg

PID = "C20"
LEAN_MODULES = ["KrroodVerif.Props.C20"]
THEOREMS = [
    "KrroodVerif.SG.C20_registry_bounded",
    "KrroodVerif.SG.C20_registry_bounded_run",
    "KrroodVerif.SG.C20_no_pins_no_survivors",
    "KrroodVerif.SG.C20_cex_query_cache",
    "KrroodVerif.SG.C20_cex_index_entries",
]
MODEL_FUNCTION = ("SG.step / Heap.collect / Heap.roots / SG.sweep / SG.removeNode (Model/SymbolGraph.lean), looped by "
                  "Drive/C20.lean under the LIFO allocator")
TRUSTED = [
    "Lean 4.33 kernel; axioms of each theorem listed under coverage.theorems",
    "hand-written model Model/SymbolGraph.lean: heap of strong references (user references, managed field contents, "
    "cached query domains held by the expression table) and the SymbolGraph indexes",
    "this correspondence harness (loop generator, weak-reference census, container sizes) and the S-expression driver",
]
ASSUMPTIONS = [
    "reachability in the model stands for reclamation: CPython's reference counting + gc.collect() reclaims exactly "
    "the unreachable instances (validated per case by the weak-reference census, never proved)",
    "growth is compared as flat/grow/mixed over the last three iterations, never as exact numbers; the state of "
    "_instance_index is compared only where it does not depend on which id() CPython recycles ('?' otherwise)",
    "sizes are read from the structures the property names (_instance_index, _class_to_wrapped_instances, "
    "_relation_index, _id_expression_map_, RWXNode._graph); a structure that no longer exists counts as empty",
]
RULE = ("fixed families (never queried / queried without domain / with explicit domain / held query object / related "
        "instances / mid-body drops) x 4-5 iterations + random loop bodies of 2-9 operations; non-trivial = the body "
        "creates an instance and relates or queries it; distinct by case text")


def budget(tier: str) -> int:
    return 1500 if tier == "quick" else 30000


def _case(n, ops, tags, origin):
    return Case(f"(loop {n} " + _sg.show(ops) + ")", tuple(tags), origin, None)


def _families():
    out = []
    for n in (4, 5):
        for c in (1, 2, 3, 7):
            out.append(([["new", 0, c]], "never-queried"))
            out.append(([["new", 0, c], ["query", 0]], "query"))
            out.append(([["new", 0, c], ["query", c]], "query"))
            out.append(([["new", 0, c], ["queryd", 0, 0]], "explicit-domain"))
            out.append(([["new", 0, c], ["new", 1, c], ["mkq", 1, c], ["evalq", 1]], "held-query"))
            out.append(([["new", 0, c], ["mkq", 1, c], ["evalq", 1], ["dropq", 1], ["new", 1, c]], "held-query"))
            out.append(([["new", 0, c], ["mkq", 1, c]], "unevaluated-query"))
            out.append(([["new", 0, c], ["new", 1, c], ["drop", 0], ["query", c]], "mid-drop"))
        for rel in ([["set", 0, 0, 1]], [["set", 1, 0, 1]], [["set", 2, 1, 0]], [["rel", 4, 0, 0]],
                    [["set", 0, 0, 1], ["set", 3, 1, 2]]):
            base = [["new", 0, 2], ["new", 1, 1], ["new", 2, 1]]
            out.append((base + rel, "related"))
            out.append((base + rel + [["query", 2]], "related+query"))
            out.append((base + rel + [["query", 1]], "related+query"))
            out.append((base + rel + [["drop", 0], ["sweep"]], "related+mid-drop"))
        yield from ((n, ops, tag) for ops, tag in out)
        out = []


def generate(rng, tier, n):
    cases = []
    for it, ops, tag in _families():
        cases.append(_case(it, ops, ("family", tag), "exhaustive"))
    for _ in range(n):
        g = _sg.Gen(rng, classes=rng.choice([(1, 2), (1, 2, 3), (1, 1, 2, 7)]))
        ops = [g.new() for _ in range(rng.randint(1, 3))]
        ops += g.history(rng.randint(1, 7), w_new=1.0, w_drop=0.7, w_rel=2.5, w_sweep=0.3, w_clear=0.0, w_query=2.0)
        # a dead, unswept instance met by the transitive inference raises (finding F-C14-2, C14's subject): inside a
        # loop body every drop is followed by a sweep
        swept = []
        for op in ops:
            swept.append(op)
            if op[0] == "drop":
                swept.append(["sweep"])
        ops = swept
        tags = ["random"]
        if any(op[0] in ("query", "queryd", "mkq", "mkqd") for op in ops):
            tags.append("with-query")
        if any(op[0] in ("set", "rel") for op in ops):
            tags.append("with-relation")
        cases.append(_case(rng.choice([4, 5]), ops, tags, "random"))
    return cases


def compare(a: str, b: str) -> bool:
    """field by field; `inst=?` (the state of _instance_index depends on CPython's id recycling) matches anything"""
    pa, pb = a.split(" "), b.split(" ")
    if len(pa) != len(pb):
        return a == b
    for x, y in zip(pa, pb):
        if x == y:
            continue
        if x.startswith("inst=") and y.startswith("inst=") and (x == "inst=?" or y == "inst=?"):
            continue
        return False
    return True


def nontrivial(case: Case, spec: str) -> bool:
    return "(new" in case.line and any(k in case.line for k in ("(set", "(rel", "query", "evalq"))


def shrink(case: Case):
    s = _sg.parse(case.line)
    n, ops = s[1], s[2:]
    for smaller in _sg.shrink_ops(ops):
        yield _case(n, smaller, ("shrink",), "shrink")


def run_impl(cases):
    return _sg.run_impl(PID, cases)
