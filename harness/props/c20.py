"""C20 — krrood never extends the lifetime of user objects.

Implementation side: a loop body of create / relate / query (with and without explicit domains) / drop operations is
run n times on the real krrood; after every iteration the harness drops every reference it holds (instances, query
objects, results), calls gc.collect() and SymbolGraph().remove_dead_instances(), and records its own weak-reference
census and the size of every krrood-held structure.
Observation: the labels of the instances that survive, and per structure `flat|grow|mixed` over the last three
iterations (never exact numbers) plus `clean|stale` (entries left behind that belong to no live instance)."""
from __future__ import annotations

from core import Case
from props import _sg

PID = "C20"
LEAN_MODULES = ["KrroodVerif.Props.C20", "KrroodVerif.Props.C20Run"]
THEOREMS = [
    "KrroodVerif.SG.C20_registry_bounded",
    "KrroodVerif.SG.C20_registry_bounded_run",
    "KrroodVerif.SG.C20_no_pins_no_survivors",
    "KrroodVerif.SG.C20_current_no_pins_no_survivors",
    "KrroodVerif.SG.C20_cex_query_cache",
    "KrroodVerif.SG.C20_cex_index_entries",
    "KrroodVerif.SG.C20_role_witness",
    # run level (Props/C20Run.lean, Lemmas/HeapReach.lean)
    "KrroodVerif.SG.reach_sound",
    "KrroodVerif.SG.reach_complete",
    "KrroodVerif.SG.Heap.WF.reach_iff",
    "KrroodVerif.SG.collect_garbage_nil",
    "KrroodVerif.SG.C20_wf_run",
    "KrroodVerif.SG.C20_no_garbage_after_collect_run",
    "KrroodVerif.SG.C20_no_garbage_run",
    "KrroodVerif.SG.C20_cex_container_overwrite",
    "KrroodVerif.SG.C20_drop_all_clean",
    "KrroodVerif.SG.C20_no_garbage_run_harness",
]
MODEL_FUNCTION = ("SG.step / Heap.collect / Heap.roots / SG.sweep / SG.removeNode (Model/SymbolGraph.lean), looped by "
                  "Drive/C20.lean under the LIFO allocator")
TRUSTED = [
    "Lean 4.33 kernel; axioms of each theorem listed under coverage.theorems",
    "hand-written model Model/SymbolGraph.lean: heap of strong references (user references, managed field contents, "
    "cached query domains held by the expression table) and the SymbolGraph indexes",
    "this correspondence harness (loop generator, weak-reference census, container sizes) and the S-expression driver",
]
ASSUMPTIONS = [
    "reachability in the model stands for reclamation: CPython's reference counting + gc.collect() reclaims exactly "
    "the unreachable instances (validated per case by the weak-reference census, never proved)",
    "growth is compared as flat/grow/mixed over the last three iterations, never as exact numbers; the state of "
    "_instance_index is compared only where it does not depend on which id() CPython recycles ('?' otherwise)",
    "sizes are read from the structures the property names (_instance_index, _class_to_wrapped_instances, "
    "_relation_index, _id_expression_map_, RWXNode._graph); a structure that no longer exists counts as empty",
    "role takers: Role[Emp] instances hold their role taker in a plain field (a strong reference, Op.newrole) and the "
    "inference of Chair.head_of / Chair.manages through the role taker is part of the proven model (SG.addFact); loops "
    "with roles are query-free",
    "the window between a death and the next sweep is kept open, transitive assertions next to dead, unswept "
    "instances included (they raised before the repair of F-C14-2)",
]
RULE = ("fixed families (never queried / queried without domain / with explicit domain / held query object / related "
        "instances / mid-body drops / a transitive assertion next to a dead, unswept instance / temporaries created and discarded back to back / Role[Emp] instances whose "
        "head_of infers through the role taker, query-free) x 4-5 iterations + random loop bodies of 2-9 operations "
        "(drops without a sweep, churn) + random query-free role bodies + long-lived roots holding transients that are "
        "reached by queries over the root type through flatten(root.knows) + evaluations that are requested at one point "
        "and consumed at a later one, with the number of dead wrappers probed after the consumption + evaluations SUSPENDED "
        "after one or two results while instances die (qstart / qnext / drop / qdrain) + queries whose condition is a "
        "user-defined Predicate subclass (plain, flagged is_expensive) or a symbolic function + rule queries with an Add "
        "conclusion (selected variable declared or inferred); non-trivial = the body "
        "creates an instance and relates or queries it; distinct by case text")


def extra_obligations():
    """Second tie by translation, shared with C13 (harness/translate/sg_translate.py, Model/SymbolGraphTable.lean): the
    container-operation tables of the SymbolGraph methods are regenerated from /repo's CURRENT source and the kernel re-checks
    that they equal the model's tables, whose interpreters are proved to be the model functions the theorems of this property
    speak about (remove_node / remove_dead_instances: what is deleted from which SymbolGraph structure when an instance is gone). A changed table is searched for a concrete failing history by this property's own correspondence."""
    from props.c13 import extra_obligations as sg_obligations
    return sg_obligations()


def budget(tier: str) -> int:
    return 1500 if tier == "quick" else 30000


def _case(n, ops, tags, origin):
    return Case(f"(loop {n} " + _sg.show(ops) + ")", tuple(tags), origin, None)


def _families():
    out = []
    for n in (4, 5):
        for c in (1, 2, 3, 7):
            out.append(([["new", 0, c]], "never-queried"))
            out.append(([["new", 0, c], ["query", 0]], "query"))
            out.append(([["new", 0, c], ["query", c]], "query"))
            out.append(([["new", 0, c], ["queryd", 0, 0]], "explicit-domain"))
            out.append(([["new", 0, c], ["new", 1, c], ["mkq", 1, c], ["evalq", 1]], "held-query"))
            out.append(([["new", 0, c], ["mkq", 1, c], ["evalq", 1], ["dropq", 1], ["new", 1, c]], "held-query"))
            out.append(([["new", 0, c], ["mkq", 1, c]], "unevaluated-query"))
            out.append(([["new", 0, c], ["new", 1, c], ["drop", 0], ["query", c]], "mid-drop"))
        for rel in ([["set", 0, 0, 1]], [["set", 1, 0, 1]], [["set", 2, 1, 0]], [["rel", 4, 0, 0]],
                    [["set", 0, 0, 1], ["set", 3, 1, 2]]):
            base = [["new", 0, 2], ["new", 1, 1], ["new", 2, 1]]
            out.append((base + rel, "related"))
            out.append((base + rel + [["query", 2]], "related+query"))
            out.append((base + rel + [["query", 1]], "related+query"))
            out.append((base + rel + [["drop", 0], ["sweep"]], "related+mid-drop"))
        # temporaries created and discarded back to back: the id of a dead instance goes to the next one before
        # any sweep; one instance is kept until the end of the iteration
        for c in (1, 2, 7):
            for k in (3, 8):
                out.append(([["churn", 0, k, c], ["new", 50, c]], "churn"))
                out.append(([["new", 50, c], ["churn", 0, k, c], ["drop", 50], ["churn", 20, k, c], ["new", 51, c]], "churn"))
                out.append(([["churn", 0, k, c], ["new", 50, c], ["query", c]], "churn+query"))
        out.append(([["new", 0, 2], ["new", 1, 1], ["set", 0, 0, 1], ["drop", 0], ["drop", 1], ["churn", 10, 6, 2],
                     ["new", 20, 2], ["new", 21, 1], ["set", 0, 20, 21]], "churn+related"))
        # a transitive assertion next to a dead, not yet swept instance (it raised before the repair of F-C14-2)
        base = [["new", 0, 1], ["new", 1, 1], ["new", 2, 1]]
        dead = [["set", 3, 0, 1], ["drop", 0], ["set", 3, 1, 2]]
        out.append((base + dead, "dead-neighbour"))
        out.append((base + dead + [["query", 1]], "dead-neighbour"))
        out.append((base + [["new", 3, 1], ["set", 3, 0, 1], ["set", 3, 3, 1], ["drop", 0], ["drop", 3],
                            ["set", 3, 1, 2]], "dead-neighbour"))
        # roles: chair.head_of = org infers org.members ∋ chair, whose inverse lives on the chair's role taker
        base = [["new", 0, 2], ["new", 1, 1], ["newrole", 2, 0]]
        out.append((base, "role"))
        out.append((base + [["head", 2, 1]], "role"))
        out.append((base + [["head", 2, 1], ["set", 0, 0, 1]], "role"))
        out.append((base + [["set", 1, 0, 1], ["head", 2, 1]], "role"))
        out.append((base + [["head", 2, 1], ["drop", 2], ["drop", 0]], "role"))
        out.append((base + [["new", 3, 1], ["head", 2, 1], ["head", 2, 3]], "role"))
        out.append((base + [["new", 3, 2], ["newrole", 4, 3], ["head", 2, 1], ["head", 4, 1]], "role"))
        # long-lived roots that hold transient instances in a plain list field; every iteration attaches fresh
        # transients, queries the ROOT type and reaches the transients through flatten(root.knows), detaches them
        for tcls in (2, 3, 4, 9):
            pre = ["pre", ["new", 900, 1], ["new", 901, 1]]
            body = [["new", 0, tcls], ["new", 1, tcls], ["new", 2, tcls], ["attach", 900, 0], ["attach", 900, 1],
                    ["attach", 901, 2]]
            tail = [["detach", 900], ["detach", 901]]
            out.append(([pre] + body + [["queryf", 1]] + tail, "roots"))
            out.append(([pre] + body + [["queryfd", 1, 900, 901]] + tail, "roots"))
            out.append(([pre] + body + [["queryf", 1], ["queryfd", 1, 900], ["queryf", 0]] + tail, "roots"))
            out.append(([pre] + body + tail, "roots"))
        # related temporaries discarded back to back (dead, unswept, their ids recycled), the last one kept
        out.append(([["new", 0, 1], ["relchurn", 10, 5, 1, 3, 0], ["new", 20, 1], ["set", 3, 20, 0]], "relchurn"))
        out.append(([["new", 0, 2], ["relchurn", 10, 5, 3, 4, 0], ["new", 20, 3], ["rel", 4, 20, 0]], "relchurn"))
        # evaluate() called, instances dropped, THEN the results consumed: the evaluation sweeps when it starts to run,
        # so after the consumption the registry holds no wrapper of a dead instance (dead=0)
        for c in (1, 2, 7, 9):
            out.append(([["new", 0, c], ["new", 1, c], ["qstart", 1, c], ["drop", 0], ["qdrain", 1]], "deferred"))
            out.append(([["new", 0, c], ["new", 1, c], ["new", 2, c], ["qstart", 1, 0], ["drop", 0], ["drop", 2], ["churn", 10, 3, c],
                         ["qdrain", 1], ["drop", 1], ["query", c]], "deferred"))
            out.append(([["new", 0, c], ["qstart", 1, c], ["qstart", 2, 0], ["drop", 0], ["qdrain", 2], ["new", 1, c],
                         ["qdrain", 1]], "deferred"))
        # an instance DIES WHILE AN EVALUATION reading its class IS SUSPENDED: after the evaluation's sweep (first next()),
        # before its lazy walk of the class list reaches the wrapper; the next ordinary sweep must remove the wrapper
        for c in (1, 2, 7, 9):
            base = [["new", 0, c], ["new", 1, c], ["new", 2, c]]
            out.append((base + [["qstart", 1, c], ["qnext", 1], ["drop", 2], ["qdrain", 1]], "suspended"))
            out.append((base + [["qstart", 1, 0], ["qnext", 1], ["drop", 1], ["drop", 2], ["qdrain", 1], ["query", c]],
                        "suspended"))
            out.append((base + [["qstart", 1, c], ["qnext", 1], ["qnext", 1], ["drop", 0], ["drop", 2], ["churn", 10, 3, c],
                                ["qdrain", 1]], "suspended"))
            out.append((base + [["qstart", 1, c], ["qnext", 1], ["drop", 1], ["query", c], ["qdrain", 1]], "suspended"))
            out.append((base + [["qstart", 1, c], ["qstart", 2, 0], ["qnext", 1], ["drop", 2], ["qnext", 2], ["drop", 1],
                                ["qdrain", 2], ["qdrain", 1]], "suspended"))
            # the suspended evaluation is never finished
            out.append((base + [["qstart", 1, c], ["qnext", 1], ["drop", 2], ["drop", 1]], "suspended"))
        out.append(([["new", 0, 2], ["new", 1, 1], ["new", 2, 2], ["set", 0, 0, 1], ["set", 0, 2, 1], ["qstart", 1, 2],
                     ["qnext", 1], ["drop", 2], ["qdrain", 1]], "suspended"))
        # queries whose condition is a user-defined Predicate subclass (plain / flagged is_expensive) or a symbolic
        # function over the transient instances, without and with explicit domains
        for c in (1, 2, 7):
            for e in (0, 1, 2):
                out.append(([["new", 0, c], ["new", 1, c], ["queryp", c, e]], "user-predicate"))
                out.append(([["new", 0, c], ["new", 1, c], ["querypd", c, e, 0, 1]], "user-predicate"))
                out.append(([["new", 0, c], ["new", 1, c], ["new", 2, c], ["queryp", 0, e], ["drop", 1], ["queryp", c, e],
                             ["query", c]], "user-predicate"))
        out.append(([["new", 0, 2], ["new", 1, 1], ["set", 0, 0, 1], ["queryp", 2, 1], ["queryp", 1, 1]], "user-predicate"))
        out.append(([["pre", ["new", 900, 2]], ["new", 0, 2], ["new", 1, 2], ["queryp", 2, 1], ["querypd", 2, 0, 900, 1]],
                    "user-predicate"))
        # RULE queries with a conclusion (Add(p, inference(Item)(a=x))) over the transient instances; the selected variable
        # is a declared one (let(View, None)) or the inferred one (inference(View)(): F-C20-3)
        for c in (1, 2, 7):
            for sel in (0, 1):
                out.append(([["new", 0, c], ["new", 1, c], ["queryr", c, sel]], "rule-query"))
                out.append(([["new", 0, c], ["queryr", c, sel], ["new", 1, c], ["drop", 0], ["queryr", 0, sel], ["query", c]],
                            "rule-query"))
                out.append(([["new", 0, c], ["queryr", 3, sel]], "rule-query"))
        for sel in (0, 1):
            out.append(([["new", 0, 2], ["new", 1, 1], ["set", 0, 0, 1], ["queryr", 2, sel]], "rule-query"))
            out.append(([["new", 0, 2], ["new", 1, 1], ["set", 1, 0, 1], ["queryr", 1, sel], ["drop", 1]], "rule-query"))
        # evaluations that END ABNORMALLY (the(...) over zero / several instances: the exception is handled) or are
        # ABANDONED after the first result, followed by ordinary create / relate / query / discard rounds: whatever
        # an evaluation switches off while it runs must be switched on again however it ends
        for c in (1, 2, 7):
            for bad in (["qfail", c], ["qabandon", c], ["qfail", 0], ["qabandon", 0]):
                out.append(([["new", 0, c], ["new", 1, c], bad, ["new", 2, c], ["query", c]], "abnormal-eval"))
                out.append(([bad, ["new", 0, c], ["new", 1, c], ["query", 0]], "abnormal-eval"))
                out.append(([["new", 0, c], ["new", 1, c], ["drop", 0], bad, ["churn", 10, 3, c], ["query", c]],
                            "abnormal-eval"))
            out.append(([["new", 0, c], ["new", 1, c], ["qabandon", c], ["qfail", c], ["drop", 1], ["new", 2, c]],
                        "abnormal-eval"))
        out.append(([["new", 0, 2], ["new", 1, 1], ["new", 2, 1], ["set", 0, 0, 1], ["qfail", 1], ["set", 3, 1, 2],
                     ["query", 2]], "abnormal-eval"))
        out.append(([["pre", ["new", 900, 1], ["new", 901, 1], ["qfail", 1]], ["new", 0, 2], ["new", 1, 2],
                     ["new", 2, 1], ["set", 0, 0, 2], ["query", 2]], "abnormal-eval"))
        out.append(([["pre", ["new", 900, 1], ["new", 901, 1], ["qabandon", 1]], ["new", 0, 2], ["new", 1, 2],
                     ["new", 2, 1], ["set", 1, 0, 2], ["query", 1]], "abnormal-eval"))
        # a container assertion (children.append) whose inference overwrites a scalar field (parent of the item): the value
        # it overwrites dies at once; with and without queries over the class
        for ops in _sg.overwrite_families():
            out.append((ops, "container-overwrite"))
            out.append((ops + [["query", 1]], "container-overwrite"))
        yield from ((n, ops, tag) for ops, tag in out)
        out = []


def generate(rng, tier, n):
    cases = []
    for it, ops, tag in _families():
        cases.append(_case(it, ops, ("family", tag), "exhaustive"))
    for _ in range(n):
        g = _sg.Gen(rng, classes=rng.choice([(1, 2), (1, 2, 3), (1, 1, 2, 7)]))
        ops = [g.new() for _ in range(rng.randint(1, 3))]
        ops += g.history(rng.randint(1, 7), w_new=1.0, w_drop=0.7, w_rel=2.5, w_sweep=0.3, w_clear=0.0, w_query=2.0)
        if rng.random() < 0.35:
            ops.insert(rng.randint(0, len(ops)), g.churn())
        if rng.random() < 0.35:
            # evaluate() is called at one point and consumed at a later one
            a = rng.randint(0, len(ops))
            b = rng.randint(a, len(ops))
            ops.insert(b, ["qdrain", 77])
            ops.insert(a, ["qstart", 77, rng.choice([0, 1, 2, 2, 4])])
        if rng.random() < 0.3:
            # an evaluation that is SUSPENDED after one or two results while the body goes on (instances die while it is
            # suspended), finished later or never
            a = rng.randint(1, len(ops))
            b = rng.randint(a, len(ops))
            if rng.random() < 0.8:
                ops.insert(b, ["qdrain", 78])
            cls = rng.choice([0, 1, 2, 2, 4])
            ops[a:a] = [["qstart", 78, cls]] + [["qnext", 78]] * rng.choice([1, 1, 2])
            if rng.random() < 0.6:
                # make sure something its walk has not reached yet dies while it is suspended
                late = [op[1] for op in ops[:a] if op[0] == "new"]
                if late:
                    ops.insert(a + 2, ["drop", late[-1]])
        if rng.random() < 0.3:
            # user-defined predicates / symbolic functions as conditions; rule queries with a conclusion
            for _k in range(rng.randint(1, 2)):
                r = rng.random()
                labels = [op[1] for op in ops if op[0] == "new"]
                if r < 0.4:
                    op = ["queryp", rng.choice([0, 1, 2, 2]), rng.choice([0, 1, 1, 2])]
                elif r < 0.6 and labels:
                    op = ["querypd", rng.choice([0, 1, 2]), rng.choice([0, 1, 1, 2])] + rng.sample(
                        labels, min(len(labels), rng.randint(1, 3)))
                else:
                    op = ["queryr", rng.choice([0, 1, 2, 2, 3]), rng.choice([0, 0, 1])]
                ops.insert(rng.randint(1, len(ops)), op)
        if rng.random() < 0.25:
            # an evaluation that ends abnormally / is abandoned somewhere in the body
            ops.insert(rng.randint(0, len(ops)), [rng.choice(["qfail", "qabandon"]), rng.choice([0, 1, 2, 2])])
        # Loop bodies keep the window between a death and the next sweep open (ids and node indices are recycled in
        # it); a transitive assertion may meet a dead, unswept instance there (F-C14-2, repaired: it is left out).
        tags = ["random"]
        if any(op[0] in ("query", "queryd", "mkq", "mkqd") for op in ops):
            tags.append("with-query")
        if any(op[0] in ("set", "rel") for op in ops):
            tags.append("with-relation")
        if any(op[0] == "churn" for op in ops):
            tags.append("churn")
        if any(op[0] == "qstart" for op in ops):
            tags.append("deferred")
        if any(op[0] in ("qfail", "qabandon") for op in ops):
            tags.append("abnormal-eval")
        if any(op[0] == "qnext" for op in ops):
            tags.append("suspended")
        if any(op[0] in ("queryp", "querypd") for op in ops):
            tags.append("user-predicate")
        if any(op[0] == "queryr" for op in ops):
            tags.append("rule-query")
        cases.append(_case(rng.choice([4, 5]), ops, tags, "random"))
    # queries that are DECLARED over let(T, None) while instances exist and are not evaluated in the body (rules and queries
    # are typically declared up-front): the instances are dropped while the query objects are still held — nothing may stay
    # alive (pin=0), with and without relations among the instances, for every class and for several declared queries
    for _ in range(max(4, n // 6)):
        g = _sg.Gen(rng, classes=rng.choice([(1, 2), (1, 2, 3), (1, 1, 2, 7)]))
        ops = [g.new() for _ in range(rng.randint(1, 4))]
        ops += g.history(rng.randint(0, 4), w_new=1.0, w_drop=0.3, w_rel=2.5, w_sweep=0.2, w_clear=0.0, w_query=0.0)
        for k in range(rng.randint(1, 3)):
            ops.insert(rng.randint(1, len(ops)), ["mkq", 60 + k, rng.choice([0, 1, 2, 2, 3])])
        cases.append(_case(rng.choice([4, 5]), ops, ("random", "declared-only"), "random"))
    # long-lived roots, transients reached through flatten(root.knows) by queries over the root type
    for _ in range(n // 5):
        roots = [900 + i for i in range(rng.randint(1, 3))]
        pre = ["pre"] + [["new", r, 1] for r in roots]
        body, trans = [], []
        for k in range(rng.randint(1, 5)):
            body.append(["new", k, rng.choice([2, 3, 4, 5, 7, 9])])
            trans.append(k)
            if rng.random() < 0.8:
                body.append(["attach", rng.choice(roots), k])
        for _k in range(rng.randint(1, 3)):
            r = rng.random()
            if r < 0.45:
                body.append(["queryf", rng.choice([1, 1, 0])])
            elif r < 0.9:
                body.append(["queryfd", 1] + rng.sample(roots, rng.randint(1, len(roots))))
            else:
                body.append(["fill", rng.choice(trans)])
        body += [["detach", r] for r in roots]
        cases.append(_case(rng.choice([4, 5]), [pre] + body, ("random", "roots"), "random"))
    # roles (Role[Emp] with the inverse of head_of living on the role taker), query-free: create / relate / discard
    for _ in range(n // 5):
        ops, nxt = [], 0
        emps, orgs, chairs = [], [], []
        for _k in range(rng.randint(1, 2)):
            ops.append(["new", nxt, 2]); emps.append(nxt); nxt += 1
        for _k in range(rng.randint(1, 2)):
            ops.append(["new", nxt, 1]); orgs.append(nxt); nxt += 1
        for _k in range(rng.randint(1, 2)):
            ops.append(["newrole", nxt, rng.choice(emps)]); chairs.append(nxt); nxt += 1
        body = []
        for _k in range(rng.randint(1, 4)):
            r = rng.random()
            if r < 0.5:
                body.append(["head", rng.choice(chairs), rng.choice(orgs)])
            elif r < 0.7:
                body.append(["set", rng.choice([0, 1]), rng.choice(emps), rng.choice(orgs)])
            elif r < 0.8:
                body.append(["set", 2, rng.choice(orgs), rng.choice(emps)])
            elif r < 0.9:
                body.append(["drop", rng.choice(emps + orgs + chairs)])
            else:
                body.append(["sweep"])
        cases.append(_case(rng.choice([4, 5]), ops + body, ("random", "role"), "random"))
    return cases


def compare(a: str, b: str) -> bool:
    """field by field; `inst=?` (the state of _instance_index depends on CPython's id recycling) matches anything"""
    pa, pb = a.split(" "), b.split(" ")
    if len(pa) != len(pb):
        return a == b
    for x, y in zip(pa, pb):
        if x == y:
            continue
        if x.startswith("inst=") and y.startswith("inst=") and (x == "inst=?" or y == "inst=?"):
            continue
        return False
    return True


def nontrivial(case: Case, spec: str) -> bool:
    return ("(new" in case.line or "(churn" in case.line) and any(
        k in case.line for k in ("(set", "(rel", "query", "evalq", "(head", "(churn", "(attach", "(qfail", "(qabandon", "(qnext"))


def shrink(case: Case):
    s = _sg.parse(case.line)
    n, ops = s[1], s[2:]
    for smaller in _sg.shrink_ops(ops):
        yield _case(n, smaller, ("shrink",), "shrink")


def run_impl(cases):
    return _sg.run_impl(PID, cases)
