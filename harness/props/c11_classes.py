"""Symbol dataclasses of the C11 correspondence (Cabinet/Drawer/Handle-like). Imported once per check process, AFTER
`core.use_repo_sources()`; the SymbolGraph singleton is rebuilt afterwards so that its class diagram knows them.

No `from __future__ import annotations` here: the class diagram resolves the annotations of these fields and real type
objects need no lookup.

class ids (Lean side):  0 Handle   1 Knob(Handle)   2 Drawer   3 BigDrawer(Drawer)   4 Cabinet
"""
from dataclasses import dataclass, field
from typing import List

from krrood.entity_query_language.predicate import Symbol


@dataclass(eq=True, unsafe_hash=True)
class Handle(Symbol):
    """value-equal leaf class: two distinct handles with the same name and size are `==`"""
    name: str
    size: int


@dataclass(eq=True, unsafe_hash=True)
class Knob(Handle):
    """subclass used for type filtering (dataclass `==` also requires the same class)"""


@dataclass(eq=False)
class Drawer(Symbol):
    handle: Handle                                    # reference attribute
    size: int                                         # scalar attribute
    tags: List[int] = field(default_factory=list)     # collection of scalars
    spare: List[Handle] = field(default_factory=list)  # collection of (value-equal) sub-objects


@dataclass(eq=False)
class BigDrawer(Drawer):
    depth: int = 0                                    # subclass-only attribute


@dataclass(eq=False)
class Cabinet(Symbol):
    name: str
    main: Drawer
    drawers: List[Drawer] = field(default_factory=list)
    tags: List[int] = field(default_factory=list)


CLASSES = [Handle, Knob, Drawer, BigDrawer, Cabinet]
