"""Shared EQL case machinery (C01, C02, C03, C10): a small query AST that is rendered three ways —
(1) real krrood EQL objects, (2) an S-expression line for the Lean driver, (3) a direct Python evaluation of the
first-order reading (independent oracle for the Lean spec).

AST (tuples):
  term  := ("var", name) | ("lit", value) | ("attr", term, attrname) | ("call", term, method) | ("index", term, i)
         | ("flatten", term)
  cond  := ("cmp", op, term, term) | ("contains", container_term, item_term) | ("truth", term) | ("hastype", term, cls)
         | ("and", c, c) | ("or", c, c) | ("not", c) | ("exists", name, c) | ("forall", name, c)
  query := {"sel": [term], "cond": cond|None, "objs": [ObjSpec], "doms": {name: [value]}, "kinds": {name: kind}}
values: int | bool | list[int] | ("obj", index) | ("objs", [index]) | None | ("set", sorted tuple of ints) (a frozenset:
        ordered by inclusion, a partial order)
objects: {"cls": int, "veq": bool, "fields": {name: value}}; a zero-argument method m is the field "m_<m>"
"""
from __future__ import annotations

import itertools
import operator
from dataclasses import dataclass
from typing import Any, Dict, List, Optional, Tuple

OPS = {"eq": operator.eq, "ne": operator.ne, "lt": operator.lt, "le": operator.le, "gt": operator.gt, "ge": operator.ge}
VAR_IDS = {"x": 0, "y": 1, "z": 2, "u": 3, "v": 4}


class P:
    """identity-equal user objects; attributes are set from the object's field table; methods m_* are derived"""
    def __init__(self, idx, cls, fields):
        self.idx, self.cls_id = idx, cls
        self._fields = dict(fields)
        for k, v in fields.items():
            if not k.startswith(("m_", "c_")):
                setattr(self, k, v)
    def dbl(self):
        return self._fields["m_dbl"]
    def __getattr__(self, name):
        # a COMPUTED collection (field "c_<name>": a @property building its value on access): a fresh list per access
        if name.startswith("c_") and name in self.__dict__.get("_fields", {}):
            v = self.__dict__["_fields"][name]
            return list(v) if isinstance(v, list) else v
        raise AttributeError(name)
    def __repr__(self):
        return f"o{self.idx}"


class E(P):
    """value-equal user objects (like a dataclass with eq=True: same class and equal fields)"""
    def __eq__(self, other):
        return isinstance(other, E) and self.cls_id == other.cls_id and self._fields == other._fields
    __hash__ = None


# ------------------------------------------------------------------------------------------------ rendering: sexp

def sx_val(v) -> str:
    if v is None:
        return "(none)"
    if isinstance(v, tuple) and v[0] == "obj":
        return f"(obj {v[1]})"
    if isinstance(v, tuple) and v[0] == "objs":
        return "(objs" + "".join(f" {x}" for x in v[1]) + ")"
    if isinstance(v, tuple) and v[0] == "set":
        return "(set" + "".join(f" {x}" for x in v[1]) + ")"
    if isinstance(v, bool):
        return f"(bool {'T' if v else 'F'})"
    if isinstance(v, int):
        return f"(int {v})"
    if isinstance(v, list):
        return "(list" + "".join(f" {x}" for x in v) + ")"
    raise ValueError(v)


class _LitIds:
    def __init__(self):
        self.n = 100
    def next(self):
        self.n += 1
        return self.n


def sx_term(t, ids: _LitIds) -> str:
    if t[0] == "var":
        return f"(var {VAR_IDS[t[1]]})"
    if t[0] == "lit":
        return f"(lit {ids.next()} {sx_val(t[1])})"
    if t[0] == "attr":
        return f"(attr {sx_term(t[1], ids)} {t[2]})"
    if t[0] == "call":
        return f"(attr {sx_term(t[1], ids)} m_{t[2]})"
    if t[0] == "index":
        return f"(index {sx_term(t[1], ids)} {t[2]})"
    if t[0] == "flatten":
        return f"(flatten {sx_term(t[1], ids)})"
    if t[0] == "subq":
        sid = ids.next()
        return f"(subq {sid} {VAR_IDS[t[1]]}" + (f" {sx_cond(t[2], ids)}" if t[2] is not None else "") + ")"
    raise ValueError(t)


def has_subq(c) -> bool:
    if c is None:
        return False
    if c[0] == "cmp":
        return c[2][0] == "subq" or c[3][0] == "subq"
    if c[0] in ("and", "or"):
        return has_subq(c[1]) or has_subq(c[2])
    if c[0] in ("not",):
        return has_subq(c[1])
    if c[0] in ("exists", "forall"):
        return has_subq(c[2])
    return False


def sx_cond(c, ids: _LitIds) -> str:
    k = c[0]
    if k == "cmp":
        head = "cmpx" if (c[2][0] == "subq" or c[3][0] == "subq") else "cmp"
        return f"({head} {c[1]} {sx_term(c[2], ids)} {sx_term(c[3], ids)})"
    if k == "contains":
        return f"(contains {sx_term(c[1], ids)} {sx_term(c[2], ids)})"
    if k == "truth":
        return f"(truth {sx_term(c[1], ids)})"
    if k == "hastype":
        return f"(hastype {sx_term(c[1], ids)} {c[2]})"
    if k in ("and", "or"):
        return f"({k} {sx_cond(c[1], ids)} {sx_cond(c[2], ids)})"
    if k == "not":
        return f"(not {sx_cond(c[1], ids)})"
    if k in ("exists", "forall"):
        return f"({k} {VAR_IDS[c[1]]} {sx_cond(c[2], ids)})"
    raise ValueError(c)


def sx_query(q) -> str:
    ids = _LitIds()
    parts = ["(sel " + " ".join(sx_term(t, ids) for t in q["sel"]) + ")"]
    if q["cond"] is not None:
        parts.append("(cond " + sx_cond(q["cond"], ids) + ")")
    parts.append("(objs" + "".join(
        f" (o {o['cls']} {'T' if o['veq'] else 'F'}" + "".join(f" ({k} {sx_val(v)})" for k, v in o["fields"].items()) + ")"
        for o in q["objs"]) + ")")
    if q.get("sub"):
        parts.append("(sub" + "".join(f" ({a} {b})" for a, b in q["sub"]) + ")")
    parts.append("(doms" + "".join(
        f" ({VAR_IDS[n]}{''.join(' ' + sx_val(v) for v in d)})" for n, d in q["doms"].items()) + ")")
    if q.get("share_attr_nodes"):
        parts.append("(share)")   # python side only: one attribute node object per distinct attribute expression
    return ("(qx " if has_subq(q["cond"]) else "(q ") + " ".join(parts) + ")"


# ------------------------------------------------------------------------------------------------ parsing back

def parse_sexp(line: str):
    toks = line.replace("(", " ( ").replace(")", " ) ").split()
    def rd(i):
        if toks[i] == "(":
            out = []
            i += 1
            while toks[i] != ")":
                x, i = rd(i)
                out.append(x)
            return out, i + 1
        return toks[i], i + 1
    return rd(0)[0]


_ID_VARS = {v: k for k, v in VAR_IDS.items()}


def _p_val(s):
    if s[0] == "int":
        return int(s[1])
    if s[0] == "bool":
        return s[1] == "T"
    if s[0] == "list":
        return [int(x) for x in s[1:]]
    if s[0] == "obj":
        return ("obj", int(s[1]))
    if s[0] == "objs":
        return ("objs", [int(x) for x in s[1:]])
    if s[0] == "none":
        return None
    if s[0] == "set":
        return ("set", tuple(int(x) for x in s[1:]))
    raise ValueError(s)


def _p_term(s):
    if s[0] == "var":
        return ("var", _ID_VARS[int(s[1])])
    if s[0] == "lit":
        return ("lit", _p_val(s[2]))
    if s[0] == "attr":
        if s[2].startswith("m_"):
            return ("call", _p_term(s[1]), s[2][2:])
        return ("attr", _p_term(s[1]), s[2])
    if s[0] == "index":
        return ("index", _p_term(s[1]), int(s[2]))
    if s[0] == "flatten":
        return ("flatten", _p_term(s[1]))
    if s[0] == "subq":
        return ("subq", _ID_VARS[int(s[2])], _p_cond(s[3]) if len(s) > 3 else None)
    raise ValueError(s)


def _p_cond(s):
    k = s[0]
    if k in ("cmp", "cmpx"):
        return ("cmp", s[1], _p_term(s[2]), _p_term(s[3]))
    if k == "contains":
        return ("contains", _p_term(s[1]), _p_term(s[2]))
    if k == "truth":
        return ("truth", _p_term(s[1]))
    if k == "hastype":
        return ("hastype", _p_term(s[1]), int(s[2]))
    if k in ("and", "or"):
        return (k, _p_cond(s[1]), _p_cond(s[2]))
    if k == "not":
        return ("not", _p_cond(s[1]))
    if k in ("exists", "forall"):
        return (k, _ID_VARS[int(s[1])], _p_cond(s[2]))
    raise ValueError(s)


def parse_query(line: str):
    s = parse_sexp(line)
    assert s[0] in ("q", "qx")
    q = {"sel": [], "cond": None, "objs": [], "doms": {}}
    for part in s[1:]:
        if part[0] == "sel":
            q["sel"] = [_p_term(t) for t in part[1:]]
        elif part[0] == "cond":
            q["cond"] = _p_cond(part[1])
        elif part[0] == "objs":
            q["objs"] = [{"cls": int(o[1]), "veq": o[2] == "T", "fields": {f[0]: _p_val(f[1]) for f in o[3:]}}
                         for o in part[1:]]
        elif part[0] == "sub":
            q["sub"] = [(int(a), int(b)) for a, b in part[1:]]
        elif part[0] == "share":
            q["share_attr_nodes"] = True
        elif part[0] == "doms":
            for d in part[1:]:
                q["doms"][_ID_VARS[int(d[0])]] = [_p_val(v) for v in d[1:]]
    return q


# ------------------------------------------------------------------------------------------------ real objects

def make_objects(q, classes=None) -> List[Any]:
    p_cls, e_cls = classes or (P, E)
    objs = [(e_cls if o["veq"] else p_cls)(i, o["cls"], {}) for i, o in enumerate(q["objs"])]
    for ob, o in zip(objs, q["objs"]):
        fields = {k: real_val(v, objs) for k, v in o["fields"].items()}
        ob._fields = fields
        for k, v in fields.items():
            if not k.startswith(("m_", "c_")):
                object.__setattr__(ob, k, v)
    return objs


def real_val(v, objs):
    if isinstance(v, tuple) and v[0] == "obj":
        return objs[v[1]]
    if isinstance(v, tuple) and v[0] == "objs":
        return [objs[i] for i in v[1]]
    if isinstance(v, tuple) and v[0] == "set":
        return frozenset(v[1])
    if isinstance(v, list):
        return list(v)
    return v


def kind_of_domain(d) -> str:
    for v in d:
        return "obj" if isinstance(v, tuple) else "int"
    return "obj"


def show_val(v) -> str:
    if isinstance(v, (P, E)):
        return f"o{v.idx}"
    if isinstance(v, tuple) and v[0] == "obj":
        return f"o{v[1]}"
    if isinstance(v, bool):
        return "T" if v else "F"
    if isinstance(v, int):
        return str(v)
    if isinstance(v, tuple) and v[0] == "objs":
        return "[" + ",".join(f"o{i}" for i in v[1]) + "]"
    if isinstance(v, tuple) and v[0] == "set":
        return "{" + ",".join(str(i) for i in v[1]) + "}"
    if isinstance(v, frozenset):
        return "{" + ",".join(str(i) for i in sorted(v)) + "}"
    if isinstance(v, list):
        return "[" + ",".join(show_val(x) for x in v) + "]"
    if v is None:
        return "None"
    return repr(v)


def show_row(r) -> str:
    return "(" + " ".join(show_val(v) for v in r) + ")"


def make_vars(q, objs, one_shot: bool = False, wrap_domain=None):
    from krrood.entity_query_language.entity import let
    V = {}
    for n, d in q["doms"].items():
        vals = [real_val(v, objs) for v in d]
        kind = q.get("kinds", {}).get(n) or kind_of_domain(d)
        typ = object if kind == "obj" else int
        dom = vals
        if wrap_domain is not None:
            dom = wrap_domain(n, vals)
        elif one_shot:
            dom = (v for v in vals)
        V[n] = let(typ, dom, name=n)
    return V


def build_query(q, V, objs, quantification=None, cond_memo=None, attr_memo=None):
    """Build one real EQL query over existing variables V. Returns (query_object, selected exprs, single).
    cond_memo: dict shared between several builds — a compound condition (and_/or_) whose AST was built before is
    REUSED as the same Python object (the user stored the condition in a variable and used it in two queries)."""
    from krrood.entity_query_language import symbolic as S
    from krrood.entity_query_language.entity import (entity, set_of, and_, or_, not_, contains, exists, for_all,
                                                      flatten)
    from krrood.entity_query_language.quantify_entity import an

    shared = attr_memo if attr_memo is not None else {}

    def term(t):
        if t[0] == "var":
            return V[t[1]]
        if t[0] == "lit":
            return list(t[1]) if isinstance(t[1], list) else real_val(t[1], objs)
        if t[0] == "attr":
            if q.get("share_attr_nodes") or attr_memo is not None:
                # the user stored `x.a` in a Python variable and uses that ONE node object at every occurrence
                key = repr(t)
                if key not in shared:
                    shared[key] = getattr(term(t[1]), t[2])
                return shared[key]
            return getattr(term(t[1]), t[2])
        if t[0] == "call":
            return getattr(term(t[1]), t[2])()
        if t[0] == "index":
            return term(t[1])[t[2]]
        if t[0] == "flatten":
            return flatten(term(t[1]))
        if t[0] == "subq":
            return an(entity(V[t[1]], cond(t[2]))) if t[2] is not None else an(entity(V[t[1]]))
        raise ValueError(t)

    def cond(c):
        k = c[0]
        if cond_memo is not None and k in ("and", "or"):
            key = repr(c)
            if key not in cond_memo:
                cond_memo[key] = and_(cond(c[1]), cond(c[2])) if k == "and" else or_(cond(c[1]), cond(c[2]))
            return cond_memo[key]
        if k == "cmp":
            return S.Comparator(term(c[2]), term(c[3]), OPS[c[1]])
        if k == "contains":
            return contains(term(c[1]), term(c[2]))
        if k == "truth":
            return term(c[1])
        if k == "and":
            return and_(cond(c[1]), cond(c[2]))
        if k == "or":
            return or_(cond(c[1]), cond(c[2]))
        if k == "not":
            return not_(cond(c[1]))
        if k == "exists":
            return exists(V[c[1]], cond(c[2]))
        if k == "forall":
            return for_all(V[c[1]], cond(c[2]))
        raise ValueError(c)

    sel = [term(t) for t in q["sel"]]
    c = cond(q["cond"]) if q["cond"] is not None else None
    single = len(sel) == 1 and q["sel"][0][0] == "var" and not q.get("force_set_of")
    kw = {"quantification": quantification} if quantification is not None else {}
    if single:
        query = an(entity(sel[0], c), **kw) if c is not None else an(entity(sel[0]), **kw)
    else:
        query = an(set_of(sel, c), **kw) if c is not None else an(set_of(sel), **kw)
    return query, sel, single


def build_real(q, one_shot: bool = False, wrap_domain=None, classes=None, quantification=None):
    """Build the real EQL query. Returns (query_object, selected exprs, single, objects)."""
    objs = make_objects(q, classes)
    V = make_vars(q, objs, one_shot, wrap_domain)
    query, sel, single = build_query(q, V, objs, quantification)
    return query, sel, single, objs


def rows_of(query, sel, single) -> List[str]:
    out = []
    for r in query.evaluate():
        out.append(show_row((r,)) if single else show_row(tuple(r[k] for k in sel)))
    return out


# ------------------------------------------------------------------------------------------------ python oracle

class OracleError(Exception):
    pass


def o_terms(t, sigma, objs) -> list:
    """all values of a term (flatten ranges over elements)"""
    if t[0] == "var":
        return [sigma[t[1]]]
    if t[0] == "lit":
        return [real_val(t[1], objs)]
    if t[0] == "attr":
        return [getattr(x, t[2]) for x in o_terms(t[1], sigma, objs)]
    if t[0] == "call":
        return [getattr(x, t[2])() for x in o_terms(t[1], sigma, objs)]
    if t[0] == "index":
        return [x[t[2]] for x in o_terms(t[1], sigma, objs)]
    if t[0] == "flatten":
        return [y for x in o_terms(t[1], sigma, objs) for y in x]
    if t[0] == "subq":
        return [sigma[t[1]]]
    raise ValueError(t)


def o_restrictions_ok(c, sigma, q, objs) -> bool:
    """every sub-query operand restricts its variable to the sub-query's answers, whatever the polarity"""
    k = c[0]
    if k == "cmp":
        return o_subq_ok(c[2], sigma, q, objs) and o_subq_ok(c[3], sigma, q, objs)
    if k in ("and", "or"):
        return o_restrictions_ok(c[1], sigma, q, objs) and o_restrictions_ok(c[2], sigma, q, objs)
    if k == "not":
        return o_restrictions_ok(c[1], sigma, q, objs)
    return True


def o_subq_ok(t, sigma, q, objs) -> bool:
    """first-order reading of a sub-query operand: its own condition must hold for the assignment"""
    return t[0] != "subq" or t[2] is None or o_sat(t[2], sigma, q, objs)


def o_term(t, sigma, objs):
    vs = o_terms(t, sigma, objs)
    assert len(vs) == 1
    return vs[0]


def _apply(op, lv, rv):
    if op in ("eq", "ne") and isinstance(lv, list) and isinstance(rv, list):
        lv, rv = set(lv), set(rv)
    return OPS[op](lv, rv)


def o_sat(c, sigma, q, objs) -> bool:
    k = c[0]
    if k == "cmp":
        return any(bool(_apply(c[1], a, b)) for a in o_terms(c[2], sigma, objs) for b in o_terms(c[3], sigma, objs))
    if k == "contains":
        return any(b in a for a in o_terms(c[1], sigma, objs) for b in o_terms(c[2], sigma, objs))
    if k == "truth":
        return any(bool(x) for x in o_terms(c[1], sigma, objs))
    if k == "hastype":
        return any(isinstance(x, (P, E)) and (x.cls_id == c[2] or (x.cls_id, c[2]) in q.get("sub", []))
                   for x in o_terms(c[1], sigma, objs))
    if k == "and":
        return o_sat(c[1], sigma, q, objs) and o_sat(c[2], sigma, q, objs)
    if k == "or":
        return o_sat(c[1], sigma, q, objs) or o_sat(c[2], sigma, q, objs)
    if k == "not":
        return not o_sat(c[1], sigma, q, objs)
    if k == "exists":
        return any(o_sat(c[2], {**sigma, c[1]: real_val(v, objs)}, q, objs) for v in q["doms"][c[1]])
    if k == "forall":
        return all(o_sat(c[2], {**sigma, c[1]: real_val(v, objs)}, q, objs) for v in q["doms"][c[1]])
    raise ValueError(c)


def t_vars(t) -> List[str]:
    if t[0] == "var":
        return [t[1]]
    if t[0] == "lit":
        return []
    if t[0] == "subq":
        return [t[1]] + (c_free(t[2]) if t[2] is not None else [])
    return t_vars(t[1])


def t_has_flatten(t) -> bool:
    if t[0] in ("var", "lit"):
        return False
    return t[0] == "flatten" or t_has_flatten(t[1])


def c_free(c) -> List[str]:
    k = c[0]
    if k == "cmp":
        return t_vars(c[2]) + t_vars(c[3])
    if k == "contains":
        return t_vars(c[1]) + t_vars(c[2])
    if k in ("truth", "hastype"):
        return t_vars(c[1])
    if k in ("and", "or"):
        return c_free(c[1]) + c_free(c[2])
    if k == "not":
        return c_free(c[1])
    return [v for v in c_free(c[2]) if v != c[1]]


def c_allvars(c) -> List[str]:
    k = c[0]
    if k in ("exists", "forall"):
        return [c[1]] + c_allvars(c[2])
    if k in ("and", "or"):
        return c_allvars(c[1]) + c_allvars(c[2])
    if k == "not":
        return c_allvars(c[1])
    return c_free(c)


def query_vars(q) -> List[str]:
    vs = []
    for t in q["sel"]:
        vs += t_vars(t)
    if q["cond"] is not None:
        vs += c_free(q["cond"])
    out = []
    for v in vs:
        if v not in out:
            out.append(v)
    return out


def oracle_rows(q) -> List[str]:
    """the satisfying assignments projected on the selection, nested-loop order, with multiplicity"""
    objs = make_objects(q)
    vs = query_vars(q)
    doms = [[real_val(v, objs) for v in q["doms"][n]] for n in vs]
    rows = []
    for combo in itertools.product(*doms):
        sigma = dict(zip(vs, combo))
        if q["cond"] is None or (o_restrictions_ok(q["cond"], sigma, q, objs) and o_sat(q["cond"], sigma, q, objs)):
            rows.append(show_row(tuple(o_term(t, sigma, objs) for t in q["sel"])))
    return rows


# ------------------------------------------------------------------------------------------------ generation

def gen_world(rnd, vs: List[str], falsy: bool = True, veq_p: float = 0.25, int_p: float = 0.3, max_objs: int = 4):
    kinds = {v: ("int" if rnd.random() < int_p else "obj") for v in vs}
    nobj = rnd.randrange(0, max_objs + 1)
    lo = 0 if falsy else 1
    use_veq = rnd.random() < veq_p
    use_sets = EXT["sets"] = rnd.random() < 0.2
    def mk():
        a = rnd.randrange(lo, 3 + lo)
        o = {"cls": 0, "veq": use_veq,
             "fields": {"a": a, "f": rnd.random() < 0.5,
                        "items": [rnd.randrange(lo, 3 + lo) for _ in range(rnd.randrange(0, 3))], "m_dbl": 2 * a}}
        if use_sets:  # a frozenset-valued attribute: values that are only partially ordered
            o["fields"]["s"] = gen_set(rnd, lo)
        return o
    objs = [mk() for _ in range(nobj)]
    if objs and rnd.random() < 0.3:  # value-equal but distinct objects
        o = rnd.choice(objs)
        objs.append({"cls": o["cls"], "veq": o["veq"], "fields": {k: (list(v) if isinstance(v, list) else v)
                                                                 for k, v in o["fields"].items()}})
    doms = {}
    for n in vs:
        if kinds[n] == "obj":
            doms[n] = [("obj", i) for i in range(len(objs)) if rnd.random() < 0.8]
        else:
            # negative values too: distinct ints whose CPython hashes collide (hash(-1) == hash(-2))
            pool = list(range(lo, 4 + lo)) + ([-1, -2] if rnd.random() < 0.3 else [])
            doms[n] = sorted(rnd.sample(pool, rnd.randrange(0, 4)))
    return kinds, objs, doms


def num_term(rnd, vs, kinds, lo=0):
    if rnd.random() < 0.3:
        return ("lit", rnd.randrange(lo, 3 + lo))
    v = rnd.choice(vs)
    if kinds[v] == "int":
        return ("var", v)
    k = rnd.random()
    if k < 0.12:
        return ("call", ("var", v), "dbl")
    return ("attr", ("var", v), "a")


EXT = {"flatten": True, "index_ok": False, "sets": False}


def gen_set(rnd, lo=0):
    return ("set", tuple(sorted(rnd.sample(range(lo, 3 + lo), rnd.randrange(lo and 1, 3)))))


def set_atom(rnd, objs, vs, kinds, lo, v=None):
    v = v or rnd.choice(objs)
    l = ("attr", ("var", v), "s")
    k = rnd.random()
    if k < 0.7:
        r = ("attr", ("var", rnd.choice(objs)), "s") if rnd.random() < 0.6 else ("lit", gen_set(rnd, lo))
        return ("cmp", rnd.choice(list(OPS)), l, r) if rnd.random() < 0.7 else ("cmp", rnd.choice(list(OPS)), r, l)
    if k < 0.85:
        return ("contains", l, num_term(rnd, vs, kinds, lo))
    return ("truth", l)


def gen_atom(rnd, vs, kinds, lo=0, must: Optional[str] = None):
    objs = [v for v in vs if kinds[v] == "obj"]
    k = rnd.random()
    if objs and EXT["sets"] and (must is None or kinds[must] == "obj") and rnd.random() < 0.3:
        return set_atom(rnd, objs, vs, kinds, lo, must)
    if must is None and objs and EXT["flatten"] and rnd.random() < 0.08:
        fl = ("flatten", ("attr", ("var", rnd.choice(objs)), "items"))
        if rnd.random() < 0.5:
            return ("contains", ("lit", [rnd.randrange(lo, 3 + lo) for _ in range(rnd.randrange(0, 3))]), fl)
        return ("cmp", rnd.choice(list(OPS)), fl, num_term(rnd, vs, kinds, lo))
    if must is None and objs and EXT["index_ok"] and rnd.random() < 0.06:
        return ("cmp", rnd.choice(list(OPS)), ("index", ("attr", ("var", rnd.choice(objs)), "items"), 0),
                num_term(rnd, vs, kinds, lo))
    if must is not None:
        v = must
        l = ("var", v) if kinds[v] == "int" else ("attr", ("var", v), "a")
        if k < 0.7 or kinds[v] == "int":
            return ("cmp", rnd.choice(list(OPS)), l, num_term(rnd, vs, kinds, lo))
        if k < 0.85:
            return ("truth", ("attr", ("var", v), "f"))
        return ("contains", ("attr", ("var", v), "items"), num_term(rnd, vs, kinds, lo))
    if k < 0.5 or not objs:
        v = rnd.choice(vs)
        l = ("var", v) if kinds[v] == "int" else ("attr", ("var", v), "a")
        return ("cmp", rnd.choice(list(OPS)), l, num_term(rnd, vs, kinds, lo))
    if k < 0.62:
        return ("truth", ("attr", ("var", rnd.choice(objs)), "f"))
    if k < 0.72:
        return ("contains", ("lit", [rnd.randrange(lo, 3 + lo) for _ in range(rnd.randrange(0, 3))]),
                num_term(rnd, vs, kinds, lo))
    if k < 0.84:
        return ("contains", ("attr", ("var", rnd.choice(objs)), "items"), num_term(rnd, vs, kinds, lo))
    if k < 0.92 and len(objs) >= 1:
        a, b = rnd.choice(objs), rnd.choice(objs)
        return ("cmp", rnd.choice(["eq", "ne"]), ("var", a), ("var", b))
    return ("cmp", rnd.choice(["eq", "ne"]), ("attr", ("var", rnd.choice(objs)), "items"),
            ("lit", [rnd.randrange(lo, 3 + lo) for _ in range(rnd.randrange(0, 3))]))


def gen_cond(rnd, vs, kinds, depth, qvars: List[str], lo=0, allow_q=True, allow_or=True, allow_not=True):
    """vs: free variables usable here; qvars: still unused dedicated quantifier variables"""
    if depth == 0 or rnd.random() < 0.3:
        return gen_atom(rnd, vs, kinds, lo)
    k = rnd.random()
    if k < 0.35:
        return ("and", gen_cond(rnd, vs, kinds, depth - 1, qvars, lo, allow_q, allow_or, allow_not),
                gen_cond(rnd, vs, kinds, depth - 1, qvars, lo, allow_q, allow_or, allow_not))
    if k < 0.68 and allow_or:
        return ("or", gen_cond(rnd, vs, kinds, depth - 1, qvars, lo, allow_q, allow_or, allow_not),
                gen_cond(rnd, vs, kinds, depth - 1, qvars, lo, allow_q, allow_or, allow_not))
    if (k < 0.85 or not allow_q or not qvars) and allow_not:
        return ("not", gen_cond(rnd, vs, kinds, depth - 1, qvars, lo, allow_q, allow_or, allow_not))
    if allow_q and qvars:
        # sibling quantifiers may re-use one variable name (disjoint scopes), as users write exists(y, ..) twice
        qv = qvars[-1] if rnd.random() < 0.4 else qvars.pop()
        inner = gen_cond(rnd, vs + [qv], kinds, depth - 1, [], lo, False, allow_or, allow_not)
        return (rnd.choice(["exists", "forall"]), qv, inner)
    return gen_atom(rnd, vs, kinds, lo)


def gen_query(rnd, falsy=True, max_depth=3, quantifiers=True):
    nv = rnd.choice([1, 2, 2, 3])
    vs = ["x", "y", "z"][:nv]
    qnames = ["u", "v"] if quantifiers else []
    kinds, objs, doms = gen_world(rnd, vs + qnames, falsy=falsy)
    EXT["index_ok"] = bool(objs) and all(len(o["fields"]["items"]) > 0 for o in objs)
    lo = 0 if falsy else 1
    qvars = list(qnames)
    depth = rnd.randrange(0, max_depth + 1)
    cond = gen_cond(rnd, vs, kinds, depth, qvars, lo) if rnd.random() < 0.95 else None
    used_q = [n for n in qnames if cond is not None and n in c_allvars(cond)]
    sel = []
    for v in rnd.sample(vs, rnd.randrange(1, nv + 1)):
        sel.append(("var", v))
        if kinds[v] == "obj" and rnd.random() < 0.3:
            sel.append(("attr", ("var", v), "a"))
    keep = set(vs) | set(used_q)
    q = {"sel": sel, "cond": cond, "objs": objs, "doms": {n: d for n, d in doms.items() if n in keep},
         "kinds": {n: k for n, k in kinds.items() if n in keep}}
    return q


def gen_subquery_query(rnd):
    """a comparison with a nested sub-query operand `an(entity(y, C(y)))`, alone or combined with plain atoms over the
    outer (object) variables; the sub-query's variable is an int or object variable whose domain may hold falsy values
    (a sub-query variable shared with the enclosing query is a BOUND plain variable inside the sub-query: since the
    repair of F-C01-3 its falsy values are operands like any other and no trigger excuses them)"""
    outer = ["x"] if rnd.random() < 0.6 else ["x", "z"]
    kinds = {v: "obj" for v in outer}
    ykind = "int" if rnd.random() < 0.7 else "obj"
    kinds["y"] = ykind
    nobj = rnd.randrange(1, 4)
    objs = [{"cls": 0, "veq": False, "fields": {"a": rnd.randrange(0, 4), "f": rnd.random() < 0.5,
                                                 "items": [rnd.randrange(0, 3) for _ in range(rnd.randrange(0, 3))],
                                                 "m_dbl": 0}} for _ in range(nobj)]
    for o in objs:
        o["fields"]["m_dbl"] = 2 * o["fields"]["a"]
    doms = {v: [("obj", i) for i in range(nobj) if rnd.random() < 0.85] for v in outer}
    doms["y"] = (sorted(rnd.sample(range(0, 4), rnd.randrange(1, 4))) if ykind == "int"
                 else [("obj", i) for i in range(nobj) if rnd.random() < 0.85])
    yt = ("var", "y") if ykind == "int" else ("attr", ("var", "y"), "a")
    subcond = None if rnd.random() < 0.3 else ("cmp", rnd.choice(list(OPS)), yt, ("lit", rnd.randrange(0, 3)))
    if ykind == "obj" and rnd.random() < 0.3:
        # a boolean attribute as (part of) the sub-query's condition
        yf = ("truth", ("attr", ("var", "y"), "f"))
        subcond = rnd.choice([yf, ("not", yf), ("and", yf, subcond) if subcond else yf, ("and", subcond, yf) if subcond else ("not", yf)])
    sub = ("subq", "y", subcond)
    xv = rnd.choice(outer)
    other = ("attr", ("var", xv), "a") if ykind == "int" or rnd.random() < 0.5 else ("var", xv)
    if other[0] == "var":
        op = rnd.choice(["eq", "ne"])
    else:
        op = rnd.choice(list(OPS)) if ykind == "int" else rnd.choice(["eq", "ne"])
        if ykind == "obj":
            other = ("var", xv)
    atom = ("cmp", op, sub, other) if rnd.random() < 0.35 else ("cmp", op, other, sub)
    def plain():
        v = rnd.choice(outer)
        if rnd.random() < 0.35:
            # the sub-query's variable is SHARED with the enclosing query: a plain conjunct binds it there
            return ("cmp", rnd.choice(list(OPS)), ("attr", ("var", v), "a"), yt) if ykind == "int" or rnd.random() < 0.5 \
                else ("cmp", rnd.choice(["eq", "ne"]), ("var", v), ("var", "y"))
        return rnd.choice([("cmp", rnd.choice(list(OPS)), ("attr", ("var", v), "a"), ("lit", rnd.randrange(1, 3))),
                           ("truth", ("attr", ("var", v), "f"))])
    def atom2():
        # a second sub-query over the same variable, with its own condition
        c2 = None if rnd.random() < 0.2 else ("cmp", rnd.choice(list(OPS)), yt, ("lit", rnd.randrange(0, 3)))
        v = rnd.choice(outer)
        o2 = ("attr", ("var", v), "a") if ykind == "int" else ("var", v)
        op2 = rnd.choice(list(OPS)) if ykind == "int" else rnd.choice(["eq", "ne"])
        return ("cmp", op2, o2, ("subq", "y", c2)) if rnd.random() < 0.6 else ("cmp", op2, ("subq", "y", c2), o2)
    r = rnd.random()
    if r < 0.3:
        cond = atom
    elif r < 0.5:
        cond = ("and", plain(), atom)
    elif r < 0.62:
        cond = ("and", atom, plain())
    elif r < 0.74:
        cond = ("not", atom)
    elif r < 0.86:
        cond = ("and", plain(), ("not", atom))
    else:
        cond = ("and", atom, atom2())
    selv = rnd.sample(outer + ["y"], rnd.randrange(1, len(outer) + 2))
    used = set(c_allvars(cond)) | set(selv)
    return {"sel": [("var", v) for v in selv], "cond": cond, "objs": objs,
            "doms": {n: d for n, d in doms.items() if n in used}, "kinds": {n: k for n, k in kinds.items() if n in used},
            "force_set_of": len(selv) > 1}


def gen_same_container_query(rnd):
    """comparisons whose BOTH operands are index / attribute / call terms (`x.items[0] == x.items[1]`, `x.peers[1] != x.peers[0]`,
    `x.a == x.a`, the self-join `x.items[1] == y.items[0]` over overlapping domains): operands taken from the same
    container or the same object in one row; alone, negated, or combined with a plain atom"""
    nv = rnd.choice([1, 1, 2])
    vs = ["x", "y"][:nv]
    nobj = rnd.randrange(2, 6)
    objs = []
    for _ in range(nobj):
        a = rnd.randrange(0, 3)
        n = rnd.choice([2, 2, 3])
        items = [rnd.randrange(0, 3) for _ in range(n)]
        if rnd.random() < 0.4:
            items[1] = items[0]
        peers = [rnd.randrange(nobj) for _ in range(n)]
        if rnd.random() < 0.4:
            peers[1] = peers[0]
        objs.append({"cls": 0, "veq": False, "fields": {"a": a, "f": rnd.random() < 0.5, "items": items,
                                                         "peers": ("objs", peers), "m_dbl": 2 * a}})
    kinds = {v: "obj" for v in vs}
    doms = {v: [("obj", i) for i in range(nobj) if rnd.random() < 0.85] for v in vs}
    def operand(v):
        k = rnd.random()
        if k < 0.45:
            return ("index", ("attr", ("var", v), "items"), rnd.randrange(0, 2))
        if k < 0.75:
            return ("index", ("attr", ("var", v), "peers"), rnd.randrange(0, 2))
        if k < 0.85:
            return ("attr", ("var", v), "a")
        if k < 0.93:
            return ("call", ("var", v), "dbl")
        return ("attr", ("var", v), "items")
    def atom():
        l = operand(rnd.choice(vs))
        for _ in range(20):
            r = operand(rnd.choice(vs))
            # comparable operands: both numbers, both objects, or both collections
            cl = lambda t: "o" if (t[0] == "index" and t[1][2] == "peers") else ("l" if (t[0] == "attr" and t[2] == "items") else "n")
            if cl(l) == cl(r):
                break
        else:
            r = l
        op = rnd.choice(["eq", "ne", "eq", "ne", "lt", "ge"]) if cl(l) == "n" else rnd.choice(["eq", "ne"])
        return ("cmp", op, l, r)
    def plain():
        v = rnd.choice(vs)
        return rnd.choice([("cmp", rnd.choice(list(OPS)), ("attr", ("var", v), "a"), ("lit", rnd.randrange(0, 3))),
                           ("truth", ("attr", ("var", v), "f"))])
    r = rnd.random()
    a = atom()
    if r < 0.4:
        cond = a
    elif r < 0.55:
        cond = ("not", a)
    elif r < 0.7:
        cond = ("and", plain(), a)
    elif r < 0.8:
        cond = ("and", a, atom())
    elif r < 0.9:
        cond = ("or", a, plain())
    else:
        cond = ("and", plain(), ("not", a))
    sel = [("var", v) for v in rnd.sample(vs, rnd.randrange(1, nv + 1))]
    used = set(c_allvars(cond)) | {t[1] for t in sel}
    return {"sel": sel, "cond": cond, "objs": objs, "doms": {n: d for n, d in doms.items() if n in used},
            "kinds": {n: k for n, k in kinds.items() if n in used}, "force_set_of": len(sel) > 1}


def gen_computed_collection_query(rnd):
    """membership / comparison conditions over a COMPUTED collection (`c_tags`: built afresh by every access, as a
    @property returning `sorted(...)` does) next to a stored one, over 3-8 objects with different collections; literal and
    joined items, `contains` alone, negated and in conjunctions"""
    nobj = rnd.randrange(3, 9)
    objs = []
    for _ in range(nobj):
        a = rnd.randrange(0, 4)
        tags = sorted(rnd.sample(range(0, 5), rnd.randrange(0, 4)))
        objs.append({"cls": 0, "veq": False, "fields": {"a": a, "f": rnd.random() < 0.5, "items": list(tags),
                                                         "c_tags": tags, "m_dbl": 2 * a}})
    two = rnd.random() < 0.35
    vs = ["x", "y"] if two else ["x"]
    kinds = {"x": "obj", "y": rnd.choice(["int", "obj"])}
    doms = {"x": [("obj", i) for i in range(nobj) if rnd.random() < 0.9]}
    if two:
        doms["y"] = (sorted(rnd.sample(range(0, 5), rnd.randrange(1, 4))) if kinds["y"] == "int"
                     else [("obj", i) for i in range(nobj) if rnd.random() < 0.6])
    coll = ("attr", ("var", "x"), "c_tags" if rnd.random() < 0.8 else "items")
    def item():
        if two and rnd.random() < 0.8:
            return ("var", "y") if kinds["y"] == "int" else ("attr", ("var", "y"), "a")
        return ("lit", rnd.randrange(0, 5)) if rnd.random() < 0.8 else ("attr", ("var", "x"), "a")
    k = rnd.random()
    a = ("contains", coll, item())
    if k < 0.1:
        a = ("cmp", rnd.choice(["eq", "ne"]), coll, ("lit", sorted(rnd.sample(range(0, 5), rnd.randrange(0, 3)))))
    r = rnd.random()
    if r < 0.45:
        cond = a
    elif r < 0.6:
        cond = ("not", a)
    elif r < 0.75:
        cond = ("and", ("cmp", rnd.choice(list(OPS)), ("attr", ("var", "x"), "a"), ("lit", rnd.randrange(0, 3))), a)
    elif r < 0.88:
        cond = ("and", a, ("contains", coll, item()))
    else:
        cond = ("or", a, ("contains", ("attr", ("var", "x"), "c_tags"), item()))
    used = set(c_allvars(cond)) | {"x"}
    sel = [("var", v) for v in vs if v in used]
    if len(sel) > 1 and rnd.random() < 0.5:
        sel = [("var", "x")]
    return {"sel": sel, "cond": cond, "objs": objs, "doms": {n: d for n, d in doms.items() if n in used},
            "kinds": {n: k for n, k in kinds.items() if n in used}, "force_set_of": len(sel) > 1}


def cond_ops(c, acc=None) -> List[str]:
    acc = [] if acc is None else acc
    if c is None:
        return acc
    acc.append(c[0])
    if c[0] in ("and", "or"):
        cond_ops(c[1], acc)
        cond_ops(c[2], acc)
    elif c[0] == "not":
        cond_ops(c[1], acc)
    elif c[0] in ("exists", "forall"):
        cond_ops(c[2], acc)
    return acc


def cond_depth(c) -> int:
    if c is None:
        return 0
    if c[0] in ("and", "or"):
        return 1 + max(cond_depth(c[1]), cond_depth(c[2]))
    if c[0] == "not":
        return 1 + cond_depth(c[1])
    if c[0] in ("exists", "forall"):
        return 1 + cond_depth(c[2])
    return 0


# ------------------------------------------------------------------------------------------------ shrinking

def shrink_query(q):
    """one-step smaller queries"""
    def subconds(c):
        if c[0] in ("and", "or"):
            yield c[1]
            yield c[2]
            for s in subconds(c[1]):
                yield (c[0], s, c[2])
            for s in subconds(c[2]):
                yield (c[0], c[1], s)
        elif c[0] == "not":
            yield c[1]
            for s in subconds(c[1]):
                yield ("not", s)
        elif c[0] in ("exists", "forall"):
            for s in subconds(c[2]):
                yield (c[0], c[1], s)

    def fix(q2):
        """drop domains of variables no longer used; refuse if a used variable lost its domain"""
        used = set(query_vars(q2)) | (set(c_allvars(q2["cond"])) if q2["cond"] is not None else set())
        if not used <= set(q2["doms"]):
            return None
        q2["doms"] = {n: d for n, d in q2["doms"].items() if n in used}
        q2["kinds"] = {n: k for n, k in q2.get("kinds", {}).items() if n in used}
        return q2

    if q["cond"] is not None:
        for s in subconds(q["cond"]):
            r = fix({**q, "cond": s})
            if r:
                yield r
    if len(q["sel"]) > 1:
        for i in range(len(q["sel"])):
            r = fix({**q, "sel": q["sel"][:i] + q["sel"][i + 1:]})
            if r:
                yield r
    for n, d in q["doms"].items():
        for i in range(len(d)):
            yield {**q, "doms": {**q["doms"], n: d[:i] + d[i + 1:]}}
