#!/usr/bin/env python3
"""Run every registered check on the unchanged tree (quick or thorough) and summarise; evidence files are rewritten."""
import json, subprocess, sys, time, os
from pathlib import Path
V = Path(__file__).resolve().parent.parent
tier = sys.argv[1] if len(sys.argv) > 1 else "quick"
man = json.loads((V / "MANIFEST.json").read_text())
bad = 0
for c in man["checks"]:
    t0 = time.time()
    cmd = c["quick_cmd"] if tier == "quick" else c["thorough_cmd"]
    p = subprocess.run(cmd, shell=True, cwd=str(V), capture_output=True, text=True)
    out = (p.stdout or "") + (p.stderr or "")
    last = [l for l in out.splitlines() if l.startswith(c["property_id"] + " ")][-1:] or out.splitlines()[-1:]
    kf = sum(1 for l in out.splitlines() if l.startswith("KNOWN-FINDING"))
    print(f"{c['property_id']} exit={p.returncode} known-finding-lines={kf} {time.time()-t0:.0f}s | {last[0] if last else ''}")
    if p.returncode != 0:
        bad += 1
        print(out[-1500:])
sys.exit(1 if bad else 0)
