#!/usr/bin/env python3
"""Generate the status table (per property: level, theorems audited, open / fixed findings, last evidence) and the
seeded-change table from manifest.d/, findings.d/, evidence/ and seeded/matrix.json; inject both into DESIGN.md between
the STATUS / MATRIX markers."""
import json, re
from pathlib import Path
V = Path(__file__).resolve().parent.parent

def status():
    rows = ["| prop | level | theorems audited | cases (quick, distinct non-trivial) | open findings | repaired in /repo |", "|---|---|---|---|---|---|"]
    for i in range(1, 21):
        pid = f"C{i:02d}"
        m = json.loads((V / "manifest.d" / f"{pid}.json").read_text())
        level = re.match(r"\s*proof[^:]*", m["level_text"]).group(0).strip()
        level = level[:90] + ("…" if len(level) > 90 else "")
        level += ")" * (level.count("(") - level.count(")"))
        f = json.loads((V / "findings.d" / f"{pid}.json").read_text()) if (V / "findings.d" / f"{pid}.json").exists() else {"open": [], "fixed": []}
        ev = json.loads((V / "evidence" / f"{pid}.json").read_text()) if (V / "evidence" / f"{pid}.json").exists() else {}
        cov = ev.get("coverage", {})
        th = cov.get("theorems", {})
        fixed = sorted(set(re.findall(r"F-C\d+-\d+", " ".join(f.get("fixed", [])))), key=lambda s: int(s.split("-")[-1]))
        rows.append(f"| {pid} | {level} | {len(th)} | {cov.get('evaluations', '?')} ({cov.get('distinct_nontrivial', '?')}) | "
                    f"{', '.join(x['id'] for x in f.get('open', [])) or '–'} | {', '.join(fixed) or '–'} |")
    return "\n".join(rows)

def matrix():
    p = V / "seeded" / "matrix.json"
    if not p.exists():
        return "(matrix not built)"
    mat = json.loads(p.read_text())
    rows = ["| seeded change | file(s) changed | reported by (VIOLATION, quick tier) | not applicable |", "|---|---|---|---|"]
    missed = []
    for sid in sorted(mat, key=lambda s: (s[:3], 0 if "-r" not in s else int(s.split("-r")[1][0]), s)):
        r = mat[sid]
        if "_error" in r and not any(k.startswith("C") for k in r):
            rows.append(f"| {sid} | | | {r['_error']} |")
            continue
        diff = (V / "seeded" / sid / "patch.diff").read_text()
        files = sorted(set(re.findall(r"^\+\+\+ b/src/krrood/(\S+)", diff, flags=re.M)))
        caught = [c for c in sorted(r) if c.startswith("C") and r[c].get("caught")]
        broken = [c for c in sorted(r) if c.startswith("C") and r[c].get("exit") == 2]
        meta = json.loads((V / "seeded" / sid / "meta.json").read_text())
        if meta.get("neutralised"):
            rows.append(f"| {sid} | {', '.join(files)} | {', '.join(caught) or '–'} | neutralised by a later repair (its own demonstration passes with the patch): not a property-breaking change any more |")
            continue
        if not caught:
            missed.append(sid)
        rows.append(f"| {sid} | {', '.join(files)} | {', '.join(caught) or '**none**'} | {('check broken (exit 2): ' + ', '.join(broken)) if broken else ''} |")
    head = f"{len(mat)} seeded changes x {len([c for c in next(iter(mat.values())) if c.startswith('C')])} checks; " \
           f"reported by at least one check: {len(mat) - len(missed)}; by none: {missed or 'none'}\n\n"
    return head + "\n".join(rows)

def inject(text, tag, body):
    a, b = f"<!-- {tag}:BEGIN -->", f"<!-- {tag}:END -->"
    if a not in text:
        return text
    return text[:text.index(a) + len(a)] + "\n" + body + "\n" + text[text.index(b):]

if __name__ == "__main__":
    d = V / "DESIGN.md"
    t = d.read_text()
    t = inject(t, "STATUS", status())
    t = inject(t, "MATRIX", matrix())
    d.write_text(t)
    print(status())
