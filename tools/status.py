#!/usr/bin/env python3
"""Generate the status table (per property: level, theorems audited, open / fixed findings, last evidence) and the
seeded-change table from manifest.d/, findings.d/, evidence/ and seeded/matrix.json; inject both into DESIGN.md between
the STATUS / MATRIX markers."""
import json, re
from pathlib import Path
V = Path(__file__).resolve().parent.parent

def status():
    rows = ["| prop | level | theorems audited | cases (quick, distinct non-trivial) | open findings | repaired in /repo |", "|---|---|---|---|---|---|"]
    for i in range(1, 21):
        pid = f"C{i:02d}"
        m = json.loads((V / "manifest.d" / f"{pid}.json").read_text())
        level = re.match(r"\s*proof[^:]*", m["level_text"]).group(0).strip()
        level = level[:90] + ("…" if len(level) > 90 else "")
        level += ")" * (level.count("(") - level.count(")"))
        f = json.loads((V / "findings.d" / f"{pid}.json").read_text()) if (V / "findings.d" / f"{pid}.json").exists() else {"open": [], "fixed": []}
        ev = json.loads((V / "evidence" / f"{pid}.json").read_text()) if (V / "evidence" / f"{pid}.json").exists() else {}
        cov = ev.get("coverage", {})
        th = cov.get("theorems", {})
        fixed = sorted(set(re.findall(r"F-C\d+-\d+", " ".join(f.get("fixed", [])))), key=lambda s: int(s.split("-")[-1]))
        rows.append(f"| {pid} | {level} | {len(th)} | {cov.get('evaluations', '?')} ({cov.get('distinct_nontrivial', '?')}) | "
                    f"{', '.join(x['id'] for x in f.get('open', [])) or '–'} | {', '.join(fixed) or '–'} |")
    return "\n".join(rows)

def matrix():
    """one row per seeded change: the checks that report it (VIOLATION with a replay, quick tier) according to the last run
    of tools/seeded.py / tools/own_matrix.py (seeded/<id>/last_run.json: the own property's check and re-classified ones) and
    to the full cross matrix of round 1 (seeded/matrix.json: every check against every change)"""
    mp = V / "seeded" / "matrix.json"
    mat = json.loads(mp.read_text()) if mp.exists() else {}
    ids = sorted((p.name for p in (V / "seeded").iterdir() if (p / "patch.diff").exists()),
                 key=lambda s: (s[:3], 0 if "-r" not in s else int(s.split("-r")[1].split("m")[0]), s))
    rows = ["| seeded change | round | file(s) changed | reported by (VIOLATION with replay, quick tier) | note |", "|---|---|---|---|---|"]
    missed, neutral = [], []
    for sid in ids:
        d = V / "seeded" / sid
        meta = json.loads((d / "meta.json").read_text()) if (d / "meta.json").exists() else {}
        lr = json.loads((d / "last_run.json").read_text()) if (d / "last_run.json").exists() else {}
        diff = (d / "patch.diff").read_text()
        files = sorted(set(re.findall(r"^\+\+\+ b/src/krrood/(\S+)", diff, flags=re.M)))
        caught = {c for c, r in lr.get("checks", {}).items() if r.get("violation_lines")}
        caught |= {c for c, r in mat.get(sid, {}).items() if c.startswith("C") and r.get("caught")} if not meta.get("rebased") else set()
        note = []
        if meta.get("neutralised"):
            neutral.append(sid); note.append("neutralised by a later repair (its own demonstration passes with the patch)")
        elif not caught:
            missed.append(sid)
        if meta.get("rebased"):
            note.append("re-based")
        if meta.get("reclassified"):
            note.append("re-classified")
        rows.append(f"| {sid} | {meta.get('round', 1)} | {', '.join(files)} | {', '.join(sorted(caught)) or ('–' if meta.get('neutralised') else '**none**')} | {'; '.join(note)} |")
    head = (f"{len(ids)} seeded changes; reported by at least one check: {len(ids) - len(missed) - len(neutral)}; neutralised by repairs: "
            f"{len(neutral)}; reported by none: {missed or 'none'}\n\n")
    return head + "\n".join(rows)

def inject(text, tag, body):
    a, b = f"<!-- {tag}:BEGIN -->", f"<!-- {tag}:END -->"
    if a not in text:
        return text
    return text[:text.index(a) + len(a)] + "\n" + body + "\n" + text[text.index(b):]

if __name__ == "__main__":
    d = V / "DESIGN.md"
    t = d.read_text()
    t = inject(t, "STATUS", status())
    t = inject(t, "MATRIX", matrix())
    d.write_text(t)
    print(status())
