#!/usr/bin/env python3
"""Run registered checks against a seeded change (seeded/<id>/patch.diff) in a scratch worktree of /repo.

usage: tools/seeded.py <id> [--checks C01,C02] [--tier quick] [--verify]   (id = directory under seeded/)
  --verify : also run the demonstration with/without the patch and the pinned test suite with the patch
The worktree lives under /tmp and is removed afterwards; /repo itself is never modified."""
import argparse, json, os, subprocess, sys, time
from pathlib import Path
V = Path(__file__).resolve().parent.parent

def sh(cmd, cwd=None, env=None, timeout=3600):
    p = subprocess.run(cmd, shell=True, cwd=cwd, env=env, capture_output=True, text=True, timeout=timeout)
    return p.returncode, (p.stdout or "") + (p.stderr or "")

def main():
    ap = argparse.ArgumentParser()
    ap.add_argument("id"); ap.add_argument("--checks"); ap.add_argument("--tier", default="quick"); ap.add_argument("--verify", action="store_true")
    a = ap.parse_args()
    d = V / "seeded" / a.id
    meta = json.loads((d / "meta.json").read_text()) if (d / "meta.json").exists() else {}
    checks = (a.checks.split(",") if a.checks else meta.get("checks") or [meta.get("property")])
    wt = f"/tmp/seedrun_{a.id}_{os.getpid()}"
    rc, out = sh(f"git -C /repo worktree add -q {wt} HEAD")
    if rc: print(out); sys.exit(2)
    res = {"at": time.strftime("%Y-%m-%dT%H:%M:%SZ", time.gmtime()), "repo_head": sh("git -C /repo rev-parse --short HEAD")[1].strip(), "checks": {}}
    try:
        env = dict(os.environ, PYTHONPATH=f"{wt}/src", KRROOD_VERIF_REPO=wt)
        if a.verify:
            demo = next((p for p in [d / "demo.py", d / "demo_test.py"] if p.exists()), None)
            if demo:
                # demos were written to live under <worktree>/_out/m<i>/: run a copy from there
                dd = Path(wt) / "_out" / "m0"
                dd.mkdir(parents=True, exist_ok=True)
                (dd / demo.name).write_text(demo.read_text())
                demo = dd / demo.name
                res["demo_without_patch"] = sh(f"/venv/bin/python {demo}", cwd=wt, env=env, timeout=900)[0]
        rc, out = sh(f"git apply {d / 'patch.diff'}", cwd=wt)
        if rc: print("patch does not apply:", out); res["applies"] = False; return res
        res["applies"] = True
        if a.verify:
            if demo:
                res["demo_with_patch"] = sh(f"/venv/bin/python {demo}", cwd=wt, env=env, timeout=900)[0]
            rc, out = sh("/venv/bin/python -m pytest -q -p no:cacheprovider --timeout=900 test/ 2>&1 | tail -4", cwd=wt, env=env, timeout=1800)
            res["pytest_tail"] = out.strip().splitlines()[-1] if out.strip() else ""
        for c in checks:
            t0 = time.time()
            rc, out = sh(f"/venv/bin/python harness/check.py {c} --tier {a.tier}", cwd=str(V), env=dict(os.environ, KRROOD_VERIF_REPO=wt, KRROOD_VERIF_EVIDENCE_DIR=f"/tmp/seeded_ev_{os.getpid()}"), timeout=7200)
            viol = [l for l in out.splitlines() if l.startswith("VIOLATION")]
            res["checks"][c] = {"exit": rc, "violation_lines": viol, "wall_s": round(time.time() - t0, 1),
                                "tail": out.strip().splitlines()[-12:]}
            print(f"{a.id}: {c} exit={rc} {'CAUGHT ' + viol[0] if viol else 'not caught'}")
    finally:
        sh(f"git -C /repo worktree remove --force {wt}")
    return res

if __name__ == "__main__":
    r = main()
    print(json.dumps({k: v for k, v in r.items() if k != "checks"}, indent=1))
    for c, v in r.get("checks", {}).items():
        print(c, "exit", v["exit"]); print("\n".join(v["tail"][-6:]))
    out = V / "seeded" / sys.argv[1] / "last_run.json"
    if out.exists():
        # keep the demonstration / suite verification of an earlier --verify run when this run did not repeat it
        try:
            prev = json.loads(out.read_text())
            for k in ("demo_without_patch", "demo_with_patch", "pytest_tail"):
                if k not in r and k in prev:
                    r[k] = prev[k]
                    r.setdefault("verified_at_repo_head", prev.get("verified_at_repo_head", prev.get("repo_head")))
        except Exception:
            pass
    out.write_text(json.dumps(r, indent=1))
