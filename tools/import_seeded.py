#!/usr/bin/env python3
"""Import the deliverables of a mutation sub-agent (<worktree>/_out/m<k>/{patch.diff,demo.py,README.md}) as seeded/<pid>-r<round>m<k>/.

usage: tools/import_seeded.py <pid> <round> <worktree>"""
import json, shutil, sys
from pathlib import Path
V = Path(__file__).resolve().parent.parent
pid, rnd, wt = sys.argv[1], int(sys.argv[2]), Path(sys.argv[3])
for k in (1, 2, 3):
    src = wt / "_out" / f"m{k}"
    if not (src / "patch.diff").exists():
        continue
    dst = V / "seeded" / f"{pid}-r{rnd}m{k}"
    dst.mkdir(parents=True, exist_ok=True)
    for f in ("patch.diff", "demo.py", "README.md"):
        if (src / f).exists():
            shutil.copy(src / f, dst / f)
    readme = (src / "README.md").read_text() if (src / "README.md").exists() else ""
    meta = {"property": pid, "checks": [pid], "round": rnd,
            "source": "independent sub-agent given only the property text, a scratch worktree and the one-line ideas of earlier rounds to avoid",
            "needs": readme[:3000]}
    (dst / "meta.json").write_text(json.dumps(meta, indent=1))
    print("imported", dst.name)
