#!/usr/bin/env python3
"""Run every registered check (or --checks) against every seeded change (or --ids); write seeded/matrix.json.
Each change is applied in its own scratch worktree of /repo (removed afterwards); checks run with KRROOD_VERIF_REPO."""
import argparse, json, os, subprocess, sys, time
from concurrent.futures import ThreadPoolExecutor
from pathlib import Path
V = Path(__file__).resolve().parent.parent

def sh(cmd, cwd=None, env=None, timeout=7200):
    p = subprocess.run(cmd, shell=True, cwd=cwd, env=env, capture_output=True, text=True, timeout=timeout)
    return p.returncode, (p.stdout or "") + (p.stderr or "")

def one(sid, checks, tier):
    wt = f"/tmp/matrix_{sid}_{os.getpid()}"
    rc, out = sh(f"git -C /repo worktree add -q {wt} HEAD")
    res = {}
    try:
        rc, out = sh(f"git apply {V / 'seeded' / sid / 'patch.diff'}", cwd=wt)
        if rc:
            return sid, {"_error": "patch does not apply"}
        for c in checks:
            env = dict(os.environ, KRROOD_VERIF_REPO=wt, KRROOD_VERIF_EVIDENCE_DIR=f"/tmp/matrix_ev_{os.getpid()}")
            rc, out = sh(f"/venv/bin/python harness/check.py {c} --tier {tier}", cwd=str(V), env=env)
            v = [l for l in out.splitlines() if l.startswith("VIOLATION")]
            res[c] = {"exit": rc, "caught": bool(v), "line": v[0] if v else ""}
    finally:
        sh(f"git -C /repo worktree remove --force {wt}")
    return sid, res

def main():
    ap = argparse.ArgumentParser(); ap.add_argument("--ids"); ap.add_argument("--checks"); ap.add_argument("--tier", default="quick"); ap.add_argument("-j", type=int, default=4)
    a = ap.parse_args()
    ids = a.ids.split(",") if a.ids else sorted(p.name for p in (V / "seeded").iterdir() if (p / "patch.diff").exists())
    man = json.loads((V / "MANIFEST.json").read_text())
    checks = a.checks.split(",") if a.checks else [c["property_id"] for c in man["checks"]]
    out = V / "seeded" / "matrix.json"
    mat = json.loads(out.read_text()) if out.exists() else {}
    with ThreadPoolExecutor(a.j) as ex:
        for sid, res in ex.map(lambda s: one(s, checks, a.tier), ids):
            mat.setdefault(sid, {}).update(res)
            print(sid, {c: ("CAUGHT" if r.get("caught") else f"exit{r.get('exit')}") for c, r in res.items() if not c.startswith("_")})
            out.write_text(json.dumps(mat, indent=1, sort_keys=True))

if __name__ == "__main__":
    main()
