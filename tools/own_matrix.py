#!/usr/bin/env python3
"""Run, for every seeded change (or --ids / --round), the checks its meta.json lists (own property, plus re-classified ones)
in the quick tier and print one line per change; seeded/<id>/last_run.json is rewritten by tools/seeded.py.

usage: tools/own_matrix.py [-j N] [--ids a,b] [--round 5] [--props C03,C13]"""
import argparse, json, subprocess, sys
from concurrent.futures import ThreadPoolExecutor
from pathlib import Path
V = Path(__file__).resolve().parent.parent
ap = argparse.ArgumentParser(); ap.add_argument("-j", type=int, default=4); ap.add_argument("--ids"); ap.add_argument("--round", type=int); ap.add_argument("--props")
a = ap.parse_args()
ids = a.ids.split(",") if a.ids else sorted(p.name for p in (V / "seeded").iterdir() if (p / "patch.diff").exists())
def meta(i):
    f = V / "seeded" / i / "meta.json"
    return json.loads(f.read_text()) if f.exists() else {}
if a.round is not None:
    ids = [i for i in ids if meta(i).get("round", 1) == a.round]
if a.props:
    ps = set(a.props.split(","))
    ids = [i for i in ids if ps & set(meta(i).get("checks") or [meta(i).get("property")])]
def one(i):
    m = meta(i)
    if m.get("status") == "neutralised" or m.get("neutralised"):
        return i, "neutralised (not expected to be reported)"
    p = subprocess.run([sys.executable, str(V / "tools" / "seeded.py"), i], capture_output=True, text=True)
    lines = [l for l in p.stdout.splitlines() if l.startswith(i + ":")]
    return i, " ; ".join(l.split(": ", 1)[1] for l in lines) or ("ERROR " + (p.stdout + p.stderr)[-300:])
with ThreadPoolExecutor(a.j) as ex:
    for i, r in ex.map(one, ids):
        print(i, "|", r, flush=True)
