#!/usr/bin/env python3
"""Assemble MANIFEST.json from manifest.d/Cxx.json and known_findings.json from findings.d/Cxx.json; validate."""
import json, sys
from pathlib import Path
V = Path(__file__).resolve().parent.parent
props = [json.loads(l) for l in (V / "properties.jsonl").read_text().splitlines() if l.strip()]
ids = [p["id"] for p in props]
checks, na = [], []
for pid in ids:
    f = V / "manifest.d" / f"{pid}.json"
    if f.exists():
        d = json.loads(f.read_text())
        c = {
            "property_id": pid,
            "quick_cmd": f"/venv/bin/python harness/check.py {pid} --tier quick",
            "thorough_cmd": f"/venv/bin/python harness/check.py {pid} --tier thorough",
            "evidence_file": f"evidence/{pid}.json",
            "replay_cmd_template": f"/venv/bin/python harness/check.py {pid} --replay {{path}}",
            "engine": "lean4-proof+correspondence",
            "level_claimed": {"category": "proof", "text": d["level_text"], "design_ref": f"DESIGN.md section 5/{pid}"},
            "level_note": d["level_note"],
            "technique": d["technique"],
        }
        checks.append(c)
    else:
        na.append({"property_id": pid, "reason": "not claimed yet: the Lean model and correspondence for this property are not built at this commit (DESIGN.md section 8 gives the build order)"})
man = {
    "version": 1,
    "setup_cmd": "cd lean && lake build",
    "hooks": {
        "guard": "KRROOD_VERIF",
        "enable": "no instrumentation inside krrood is needed: checks import krrood in-process from /repo/src (current working tree) and observe it through its public API, harness-supplied callables, weakref and gc; KRROOD_VERIF=1 is set by the harness but no source line reads it",
        "baseline_off_cmd": "cd /repo && /venv/bin/python -m pytest -ra -q -p no:cacheprovider --timeout=900 --continue-on-collection-errors",
        "source_commits": [],
        "add_only": True,
    },
    "engines": [{
        "name": "lean4-proof+correspondence",
        "path": "lean/ (theorems, models, native driver) + harness/ (correspondence, search, findings, evidence)",
        "serves_properties": [c["property_id"] for c in checks],
        "kind_free_text": "Lean 4 theorems about hand-written executable models; every run rebuilds and audits the proofs (#print axioms), then runs the same model definitions (native driver) and the real krrood code (in-process, /repo working tree) on the same cases and compares through the property's observation function",
    }],
    "checks": checks,
    "not_applicable": na,
    "notes": "Exit 0 held / 1 VIOLATION line / 2 the check itself is broken (never a statement about /repo). known_findings.json lists recorded genuine defects (KNOWN-FINDING lines) and fixed ones.",
}
if (V / "manifest.d" / "_source_commits.json").exists():
    # no hook/instrumentation commit exists; the unguarded `fix:` commits made to /repo are listed in the notes
    fixes = json.loads((V / "manifest.d" / "_source_commits.json").read_text())
    man["notes"] += " Repairs of genuine defects committed to /repo (each a separate unguarded `fix:` commit; also listed as `fixed:` in known_findings.json): " + "; ".join(fixes) + "."
(V / "MANIFEST.json").write_text(json.dumps(man, indent=1) + "\n")
# findings
open_, fixed = [], []
for f in sorted((V / "findings.d").glob("*.json")):
    d = json.loads(f.read_text())
    open_.extend(d.get("open", []))
    fixed.extend(d.get("fixed", []))
(V / "known_findings.json").write_text(json.dumps({
    "_doc": "Genuine defects of code-iai/krrood recorded rather than repaired (open) and repaired ones (fixed). Read-only at run time. A finding is identified by its witness (exact case line, replayed on the real code every run) and its Lean-defined trigger; other violations of the same property are still reported.",
    "open": open_, "fixed": fixed}, indent=1) + "\n")
print(f"{len(checks)} checks, {len(na)} not claimed, {len(open_)} open findings, {len(fixed)} fixed")
