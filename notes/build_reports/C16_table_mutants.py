"""C16 mutator-table translator: semantic mutations (must break the regenerated obligation) and harmless rewrites
(must not).  Usage:

    /venv/bin/python notes/build_reports/C16_table_mutants.py            # translator + kernel only (fast)
    /venv/bin/python notes/build_reports/C16_table_mutants.py --check    # also run the whole check on a scratch worktree

Nothing is written to /repo: the sources are transformed in memory; `--check` uses `git worktree add /tmp/wt_c16t`.
"""
import os
import subprocess
import sys
from pathlib import Path

W = Path(__file__).resolve().parents[2]
sys.path.insert(0, str(W / "harness"))
from translate import c16_translate as T  # noqa: E402

REPO = Path(os.environ.get("KRROOD_VERIF_REPO", "/repo"))
MC, PD = T.MC, T.PD

# (id, file, old, new, really breaks the property on generated inputs?)
MUTATIONS = [
    ("M1 append without the hook", MC,
     "    def append(self, item):\n        self._add_item(item)\n",
     "    def append(self, item):\n        super().append(item)\n", True),
    ("M2 extend walks the live argument (no snapshot)", MC,
     "        for item in list(items):\n            self._add_item(item)\n",
     "        for item in items:\n            self._add_item(item)\n", False),
    ("M3 __iadd__ no longer overridden", MC,
     "    def __iadd__(self, items):\n        self.extend(items)\n        return self\n\n", "", True),
    ("M4 __set__ clears before it reads the value", PD,
     "            values = list(value) if is_iterable(value) else [value]\n            attr._clear()\n",
     "            attr._clear()\n            values = list(value) if is_iterable(value) else [value]\n", True),
    ("M5 slice assignment hands the whole value to the hook", MC,
     "            value = [self._on_add(item) for item in value]\n", "            value = self._on_add(value)\n", True),
    ("M6 insert stores before it records", MC,
     "        item = self._on_add(item)\n        super().insert(idx, item)\n",
     "        super().insert(idx, item)\n        self._on_add(item)\n", False),
    ("M7 set.update stores in bulk without the hook", MC,
     "        for value in values:\n            self._add_item(value)\n", "        super().update(values)\n", True),
    ("M8 _add_item does not add the relation by default", MC,
     "    def _add_item(\n        self, item, inferred: bool = False, add_relation_to_the_graph: bool = True\n    ):",
     "    def _add_item(\n        self, item, inferred: bool = False, add_relation_to_the_graph: bool = False\n    ):", True),
    ("M9 __ior__ does not return self", MC,
     "        self.update(values)\n        return self\n", "        self.update(values)\n", True),
    ("M10 __set__ walks make_set(value)", PD,
     "            values = list(value) if is_iterable(value) else [value]\n", "            values = make_set(value)\n", True),
    ("M11 the hook ignores a falsy element", PD,
     "        if domain_value is not None and range_value is not None:", "        if domain_value and range_value:", True),
    ("M12 slice assignment records but stores the original iterable", MC,
     "            value = [self._on_add(item) for item in value]\n",
     "            for item in value:\n                self._on_add(item)\n", True),
    ("M13 set.add stores only", MC,
     "    def add(self, value):\n        self._add_item(value)\n", "    def add(self, value):\n        super().add(value)\n", True),
    ("M14 MonitoredList overrides __iter__", MC,
     "    def _remove_item(self, item):\n        self.remove(item)\n\n    def _clear(self):\n        self.clear()\n\n\n@dataclass(init=False)\nclass MonitoredSet",
     "    def _remove_item(self, item):\n        self.remove(item)\n\n    def _clear(self):\n        self.clear()\n\n"
     "    def __iter__(self):\n        return iter(list(super().__iter__())[:1])\n\n\n@dataclass(init=False)\nclass MonitoredSet", True),
    ("M15 a module-level patch replaces append", MC,
     "\n@dataclass(init=False)\nclass MonitoredSet",
     "\nMonitoredList.append = list.append\n\n\n@dataclass(init=False)\nclass MonitoredSet", True),
    ("M16 __set__ does not clear", PD, "            attr._clear()\n", "", True),
]

REWRITES = [
    ("H1 parameters and loop variable renamed", MC,
     "    def extend(self, items):\n        for item in list(items):\n            self._add_item(item)\n",
     "    def extend(self, new_elements):\n        for element in list(new_elements):\n            self._add_item(element)\n"),
    ("H2 append written out instead of calling _add_item", MC,
     "    def append(self, item):\n        self._add_item(item)\n",
     "    def append(self, item):\n        \"\"\"Record, then store.\"\"\"\n        item = self._on_add(item)\n        super().append(item)\n"),
    ("H3 __iadd__ as its own loop, snapshot in a statement of its own, tuple()", MC,
     "    def __iadd__(self, items):\n        self.extend(items)\n        return self\n",
     "    def __iadd__(self, items):\n        snapshot = tuple(items)  # taken first\n        for x in snapshot:\n"
     "            self._add_item(x)\n        return self\n"),
    ("H4 item assignment with the branches swapped and a new local", MC,
     "        if isinstance(idx, slice):\n            # record every element on its own (like append does) and keep what a one-shot iterable yields\n"
     "            value = [self._on_add(item) for item in value]\n        else:\n            value = self._on_add(value)\n"
     "        super().__setitem__(idx, value)\n",
     "        if not isinstance(idx, slice):\n            stored = self._on_add(value)\n        else:\n"
     "            stored = [self._on_add(element) for element in value]\n        super().__setitem__(idx, stored)\n"),
    ("H5 __set__ with renamed locals", PD,
     "            values = list(value) if is_iterable(value) else [value]\n            attr._clear()\n            for v in values:\n"
     "                attr._add_item(v, inferred=False)\n",
     "            new_items = list(value) if is_iterable(value) else [value]\n            attr._clear()\n            for element in new_items:\n"
     "                attr._add_item(element)\n"),
    ("H6 insert with the defaults spelled out and list.insert(self, …)", MC,
     "        item = self._on_add(item)\n        super().insert(idx, item)\n",
     "        self._on_add(item, inferred=False, add_relation_to_the_graph=True)\n        list.insert(self, idx, item)\n"),
    ("H7 set.update delegating element-wise to add is NOT in the vocabulary -> written via _add_item with a snapshot-free loop and a comment", MC,
     "        for value in values:\n            self._add_item(value)\n",
     "        # every element goes through the hook\n        for v in values:\n            self._add_item(v, False, True)\n"),
    ("H8 the hook's local renamed (pinned function, alpha-renaming)", MC,
     "        owner = self._owner\n        if owner is not None and add_relation_to_the_graph:\n"
     "            self._descriptor.add_relation_to_the_graph(owner, value, inferred=inferred)\n",
     "        bound_to = self._owner\n        if bound_to is not None and add_relation_to_the_graph:\n"
     "            self._descriptor.add_relation_to_the_graph(bound_to, value, inferred=inferred)\n"),
]


def sources(file, old, new):
    mc, pd = (REPO / MC).read_text(), (REPO / PD).read_text()
    src = mc if file == MC else pd
    if src.count(old) != 1:
        raise SystemExit(f"pattern not unique / not found ({src.count(old)}x): {old[:50]!r}")
    src = src.replace(old, new)
    return (src, pd) if file == MC else (mc, src)


def kernel(text: str, tag: str):
    d = W / "lean" / ".lake" / "audit"
    d.mkdir(parents=True, exist_ok=True)
    f = d / f"C16Mut_{os.getpid()}.lean"
    f.write_text(text)
    try:
        p = subprocess.run(["lake", "env", "lean", str(f)], cwd=str(W / "lean"), capture_output=True, text=True)
    finally:
        f.unlink()
    return p.returncode == 0, (p.stdout + p.stderr)


def translate_only():
    base = T.table_of((REPO / MC).read_text(), (REPO / PD).read_text())
    print("== semantic mutations (the obligation must break)")
    for name, file, old, new, _ in MUTATIONS:
        mc, pd = sources(file, old, new)
        try:
            rows = T.table_of(mc, pd)
        except T.TranslationError as e:
            print(f"  {name}: REJECTED — {str(e)[:110]}")
            continue
        diff = [(a, b) for a, b in zip(base, rows) if a != b]
        ok, out = kernel(T.lean_of(rows), name)
        print(f"  {name}: table rows changed {[(c, m, s) for (_, (c, m, s)) in diff]}; kernel "
              f"{'ACCEPTS (NOT DETECTED!)' if ok else 'rejects the obligation'}")
    print("== harmless rewrites (the obligation must still check)")
    for name, file, old, new in REWRITES:
        mc, pd = sources(file, old, new)
        try:
            rows = T.table_of(mc, pd)
        except T.TranslationError as e:
            print(f"  {name}: REJECTED (FALSE ALARM!) — {e}")
            continue
        ok, out = kernel(T.lean_of(rows), name)
        same = "raw table identical" if rows == base else "raw table differs, same normal form"
        print(f"  {name}: kernel {'accepts' if ok else 'REJECTS (FALSE ALARM!)'} ({same})")


def full_checks(which):
    wt = Path("/tmp/wt_c16t")
    subprocess.run(["git", "-C", str(REPO), "worktree", "remove", "--force", str(wt)], capture_output=True)
    subprocess.run(["git", "-C", str(REPO), "worktree", "add", str(wt), "HEAD"], check=True, capture_output=True)
    try:
        items = [(n, f, o, nw) for n, f, o, nw, _ in MUTATIONS] + REWRITES
        for name, file, old, new in items:
            if which and not any(name.startswith(w + " ") for w in which):
                continue
            mc, pd = sources(file, old, new)
            (wt / MC).write_text(mc)
            (wt / PD).write_text(pd)
            env = dict(os.environ, KRROOD_VERIF_REPO=str(wt), VERIF_SEED="0")
            p = subprocess.run(["/venv/bin/python", "harness/check.py", "C16", "--tier", "quick"], cwd=str(W), env=env,
                               capture_output=True, text=True)
            lines = [l for l in (p.stdout + p.stderr).splitlines() if l.startswith(("VIOLATION", "C16 quick", "CHECK-BROKEN"))]
            print(f"  {name}: exit {p.returncode}; " + " | ".join(lines)[:300])
            subprocess.run(["git", "-C", str(wt), "checkout", "--", "."], capture_output=True)
    finally:
        subprocess.run(["git", "-C", str(REPO), "worktree", "remove", "--force", str(wt)], capture_output=True)
        subprocess.run(["git", "-C", str(W), "checkout", "--", "evidence/C16.json"], capture_output=True)


if __name__ == "__main__":
    if "--check" in sys.argv:
        full_checks([a for a in sys.argv[1:] if not a.startswith("--")])
    else:
        translate_only()
