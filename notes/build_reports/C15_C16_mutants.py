"""Build-phase self test of the C15 / C16 checks: apply hand-made mutants to a scratch worktree of krrood and run the
check against it.  usage: git -C /repo worktree add /tmp/wt_pd HEAD; python C15_C16_mutants.py C15|C16 [names];
git -C /repo worktree remove --force /tmp/wt_pd"""
import subprocess, sys, os, re
VERIF = os.environ.get("VERIF_COPY", "/verif")
WT = os.environ.get("WT", "/tmp/wt_pd")
REL = WT + "/src/krrood/ontomatic/property_descriptor/property_descriptor_relation.py"
PD = WT + "/src/krrood/ontomatic/property_descriptor/property_descriptor.py"
MC = WT + "/src/krrood/ontomatic/property_descriptor/monitored_container.py"
M = {
 "c15-trans-outgoing-only": (REL, "            self.infer_transitive_relations_incoming_to_target()\n", "            pass\n"),
 "c15-inverse-not-for-inferred": (REL, "        if self.inverse_of:\n            inverse_domain", "        if self.inverse_of and not self.inferred:\n            inverse_domain"),
 "c15-super-not-for-inferred": (REL, "        for super_domain, super_field in self.super_relations:", "        for super_domain, super_field in ([] if self.inferred else self.super_relations):"),
 "c15-trans-one-step": (REL, "        if self.transitive:\n            self.infer_transitive_relations_outgoing", "        if self.transitive and not self.inferred:\n            self.infer_transitive_relations_outgoing"),
 "c15-no-writeback": (REL, "            if self.inferred:\n                self.update_source_wrapped_field_value()", "            if False:\n                self.update_source_wrapped_field_value()"),
 "c15-no-role-taker-supers": (REL, "        yield from self.role_taker_super_relations\n", "        pass\n"),
 "c15-trans-incoming-only": (REL, "            self.infer_transitive_relations_outgoing_from_source()\n", "            pass\n"),
 "c15-direct-super-only-first": (REL, "            for f in property_descriptor_cls.get_fields_of_superproperties(source_type)\n", "            for f in property_descriptor_cls.get_fields_of_superproperties(source_type)[:1]\n"),
 "c16-extend-base": (MC, "    def extend(self, items):\n        for item in list(items):\n            self._add_item(item)", "    def extend(self, items):\n        list.extend(self, items)"),
 "c16-update-base": (MC, "    def update(self, values):\n        for value in values:\n            self._add_item(value)", "    def update(self, values):\n        set.update(self, values)"),
 "c16-insert-bypass": (MC, "    def insert(self, idx, item):\n        item = self._on_add(item)\n", "    def insert(self, idx, item):\n"),
 "c16-setitem-bypass": (MC, "    def __setitem__(self, idx, value):\n        value = self._on_add(value)\n", "    def __setitem__(self, idx, value):\n"),
 "c16-insert-appends": (MC, "        super().insert(idx, item)", "        super().append(item)"),
 "c16-set-no-clear": (PD, "            attr._clear()\n", "            pass\n"),
 "c16-append-inferred-flag": (MC, "    def append(self, item):\n        self._add_item(item)", "    def append(self, item):\n        self._add_item(item, add_relation_to_the_graph=False)"),
}
def sh(cmd, **kw):
    return subprocess.run(cmd, shell=True, capture_output=True, text=True, **kw)
names = sys.argv[2:] or [k for k in M if k.startswith(sys.argv[1].lower())]
pid = sys.argv[1].upper()
for name in names:
    f, old, new = M[name]
    src = open(f).read()
    assert src.count(old) == 1, (name, src.count(old))
    open(f, "w").write(src.replace(old, new))
    try:
        t = sh(f"cd {WT} && PYTHONPATH={WT}/src /venv/bin/python -m pytest -q -p no:cacheprovider --timeout=900 -x test/test_ontomatic 2>&1 | tail -1")
        r = sh(f"cd {VERIF} && KRROOD_VERIF_REPO={WT} /venv/bin/python harness/check.py {pid} --tier quick 2>&1 | grep -E 'VIOLATION|quick:|BROKEN' | cut -c1-200")
        print(f"== {name}: tests[{t.stdout.strip()[-40:]}]\n{r.stdout.strip()}")
    finally:
        sh(f"git -C {WT} checkout -- src")
