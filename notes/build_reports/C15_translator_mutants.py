"""Translator test for C15 (`harness/translate/c15_translate.py`): semantic mutations of the translated source must
break an obligation, harmless rewrites must not change the translated table.

    /venv/bin/python notes/build_reports/C15_translator_mutants.py            # translator + kernel only (seconds each)
    /venv/bin/python notes/build_reports/C15_translator_mutants.py --check S1 # additionally: full quick check in a scratch
                                                                              # worktree of /repo with the mutation applied

Every mutation is a list of (file, old, new) text replacements on /repo HEAD (asserted to apply).
"""
from __future__ import annotations

import os
import re
import shutil
import subprocess
import sys
import tempfile
from pathlib import Path

HERE = Path(__file__).resolve().parents[2]
sys.path.insert(0, str(HERE / "harness"))
from translate import c15_translate as T  # noqa: E402

REPO = Path(os.environ.get("KRROOD_VERIF_REPO", "/repo"))
REL, PD = T.REL_PATH, T.PD_PATH

OUT_LAMBDA = """        relation_condition = (
            lambda relation: relation.property_descriptor_cls
            is self.property_descriptor_cls
            and relation.target.instance is not None
        )"""
IN_LAMBDA = """        relation_condition = (
            lambda relation: relation.property_descriptor_cls
            is self.property_descriptor_cls
            and relation.source.instance is not None
        )"""
ADD = """        if super().add_to_graph():
            if self.inferred:
                self.update_source_wrapped_field_value()
            self.infer_super_relations()
            self.infer_inverse_relation()
            self.infer_transitive_relations()
"""
OUT_LOOP = """        for nxt_relation in self.target_outgoing_relations_with_same_descriptor_type:
            self.__class__(
                self.source,
                nxt_relation.target,
                nxt_relation.wrapped_field,
                inferred=True,
            ).add_to_graph()"""
INV = """            self.__class__(
                inverse_domain, self.source, inverse_field, inferred=True
            ).add_to_graph()"""
SUP = """            self.__class__(
                super_domain, self.target, super_field, inferred=True
            ).add_to_graph()"""

SEMANTIC = {
    "S1-joins-skip-inferred(C15-r5m2)": [
        (REL, OUT_LAMBDA, OUT_LAMBDA.replace("and relation.target", "and not relation.inferred\n            and relation.target")),
        (REL, IN_LAMBDA, IN_LAMBDA.replace("and relation.source", "and not relation.inferred\n            and relation.source"))],
    "S2-no-transitive-from-inferred(C15-m1)": [
        (REL, "        if self.transitive:\n", "        if self.transitive and not self.inferred:\n")],
    "S3-join-by-wrapped-field(C15-r4m2)": [
        (REL, OUT_LAMBDA, OUT_LAMBDA.replace("relation.property_descriptor_cls\n            is self.property_descriptor_cls",
                                             "relation.wrapped_field == self.wrapped_field")),
        (REL, IN_LAMBDA, IN_LAMBDA.replace("relation.property_descriptor_cls\n            is self.property_descriptor_cls",
                                           "relation.wrapped_field == self.wrapped_field"))],
    "S4-incoming-liveness-on-target(C14-r5m2)": [
        (REL, IN_LAMBDA, IN_LAMBDA.replace("relation.source.instance", "relation.target.instance"))],
    "S5-no-incoming-join": [
        (REL, "            self.infer_transitive_relations_incoming_to_target()\n", "")],
    "S6-inverse-without-recursion": [
        (REL, INV, "            SymbolGraph().add_relation(self.__class__(\n                inverse_domain, self.source, inverse_field, inferred=True\n            ))")],
    "S7-inverse-outside-new-guard": [
        (REL, ADD, ADD.replace("            self.infer_inverse_relation()\n", "") + "        self.infer_inverse_relation()\n")],
    "S8-super-wrong-direction": [
        (REL, SUP, SUP.replace("self.target", "self.source"))],
    "S9-transitive-out-not-flagged-inferred": [
        (REL, OUT_LOOP, OUT_LOOP.replace("inferred=True", "inferred=False"))],
    "S10-no-write-back": [
        (REL, "            if self.inferred:\n                self.update_source_wrapped_field_value()\n", "")],
    "S11-truthiness-gate(F-C15-2)": [
        (PD, "        if domain_value is not None and range_value is not None:\n", "        if domain_value and range_value:\n")],
    "S12-outgoing-join-at-source": [
        (REL, "get_outgoing_relations_with_condition(\n            self.target, relation_condition", "get_outgoing_relations_with_condition(\n            self.source, relation_condition")],
    "S13-super-only-for-transitive": [
        (REL, "        for super_domain, super_field in self.super_relations:\n" + SUP,
         "        if self.transitive:\n            for super_domain, super_field in self.super_relations:\n    " + SUP.replace("\n", "\n    "))],
}

HARMLESS = {
    "H1-renamed-locals": [
        (REL, OUT_LAMBDA, OUT_LAMBDA.replace("relation_condition", "cond").replace("relation", "e")),
        (REL, "self.target, relation_condition", "self.target, cond"),
        (REL, OUT_LOOP, OUT_LOOP.replace("nxt_relation", "nb"))],
    "H2-conjuncts-reordered": [
        (REL, IN_LAMBDA, """        relation_condition = (
            lambda relation: relation.source.instance is not None
            and self.property_descriptor_cls is relation.property_descriptor_cls
        )""")],
    "H3-helper-inlined": [
        (REL, "            self.infer_transitive_relations_outgoing_from_source()\n", "    " + OUT_LOOP.replace("\n", "\n    ") + "\n")],
    "H4-early-return": [
        (REL, ADD, """        if not super().add_to_graph():
            return
        if self.inferred:
            self.update_source_wrapped_field_value()
        self.infer_super_relations()
        self.infer_inverse_relation()
        self.infer_transitive_relations()
""")],
    "H5-condition-as-method": [
        (REL, OUT_LAMBDA + "\n", ""),
        (REL, "self.target, relation_condition", "self.target, self._same_descriptor_and_live_target"),
        (REL, "    @property\n    def source_incoming_relations_with_same_descriptor_type(",
         "    def _same_descriptor_and_live_target(self, rel) -> bool:\n        \"\"\"doc\"\"\"\n        return (\n"
         "            rel.property_descriptor_cls is self.property_descriptor_cls\n            and rel.target.instance is not None\n        )\n\n"
         "    @property\n    def source_incoming_relations_with_same_descriptor_type(")],
    "H6-positional-flag-type-self": [
        (REL, INV, "            type(self)(inverse_domain, self.source, inverse_field, True).add_to_graph()")],
    "H7-comments-docstrings-flag-variable": [
        (REL, ADD, """        # insert, then infer
        new = super().add_to_graph()
        if new:
            if self.inferred:
                # keep the field in step with the graph
                self.update_source_wrapped_field_value()
            self.infer_super_relations()
            self.infer_inverse_relation()
            self.infer_transitive_relations()
""")],
    "H8-return-list-instead-of-yield-from": [
        (REL, "        yield from SymbolGraph().get_outgoing_relations_with_condition(\n            self.target, relation_condition\n        )",
         "        return list(SymbolGraph().get_outgoing_relations_with_condition(\n            self.target, relation_condition\n        ))")],
}


def mutated_tree(edits, root: Path) -> None:
    for rel in (REL, PD):
        (root / rel).parent.mkdir(parents=True, exist_ok=True)
        shutil.copy(REPO / rel, root / rel)
    for rel, old, new in edits:
        p = root / rel
        s = p.read_text()
        assert s.count(old) >= 1, f"pattern not found in {rel}: {old[:60]!r}"
        p.write_text(s.replace(old, new, 1))
    import ast
    for rel in (REL, PD):
        ast.parse((root / rel).read_text())


def obligations(root: Path):
    """(table text or rejection, {obligation: ok})"""
    try:
        text = T.generate(root)
    except T.TranslationError as e:
        return f"REJECTED: {e}", {n.split(".")[-1]: False for n in T.OBLIGATIONS}
    lean_dir = HERE / "lean"
    f = lean_dir / ".lake" / "audit" / f"C15Tmut_{os.getpid()}.lean"
    f.parent.mkdir(parents=True, exist_ok=True)
    f.write_text(text + "".join(f"#print axioms {n}\n" for n in T.OBLIGATIONS))
    try:
        p = subprocess.run(["lake", "env", "lean", str(f)], cwd=str(lean_dir), capture_output=True, text=True, timeout=600)
    finally:
        f.unlink()
    out = " ".join((p.stdout + p.stderr).split())
    res = {}
    for n in T.OBLIGATIONS:
        m = re.search(r"'" + re.escape(n) + r"' depends on axioms: \[([^\]]*)\]", out)
        none = re.search(r"'" + re.escape(n) + r"' does not depend on any axioms", out)
        ax = [a.strip() for a in m.group(1).split(",")] if m else ([] if none else None)
        res[n.split(".")[-1]] = ax is not None and set(ax) <= {"propext", "Classical.choice", "Quot.sound"}
    return text.split("def proc")[0].split("def rules", 1)[-1], res


def full_check(name, edits):
    wt = Path(f"/tmp/wt_c15_{os.getpid()}")
    subprocess.run(["git", "-C", "/repo", "worktree", "add", "--detach", str(wt), "HEAD"], check=True, capture_output=True)
    try:
        for rel, old, new in edits:
            p = wt / rel
            s = p.read_text()
            assert old in s
            p.write_text(s.replace(old, new, 1))
        env = dict(os.environ, KRROOD_VERIF_REPO=str(wt), VERIF_SEED="0")
        p = subprocess.run(["/venv/bin/python", "harness/check.py", "C15", "--tier", "quick"], cwd=str(HERE), env=env,
                           capture_output=True, text=True)
        tail = [l for l in p.stdout.splitlines() if l.startswith(("VIOLATION", "impl :", "spec :", "case :", "obligation", "C15 quick"))]
        print(f"  full check exit={p.returncode}")
        for l in tail:
            print("   ", l[:300])
    finally:
        subprocess.run(["git", "-C", "/repo", "worktree", "remove", "--force", str(wt)], capture_output=True)
        subprocess.run(["git", "-C", str(HERE), "checkout", "--", "evidence"], capture_output=True)


def main():
    want = [a for a in sys.argv[1:] if not a.startswith("--")]
    do_check = "--check" in sys.argv
    base_table, base = obligations(REPO)
    print("HEAD:", base)
    assert all(base.values())
    bad = 0
    for group, muts in (("semantic", SEMANTIC), ("harmless", HARMLESS)):
        for name, edits in muts.items():
            if want and not any(name.startswith(w) for w in want):
                continue
            tmp = Path(tempfile.mkdtemp(prefix="c15mut_"))
            try:
                mutated_tree(edits, tmp)
                table, res = obligations(tmp)
            finally:
                shutil.rmtree(tmp, ignore_errors=True)
            broken = [k for k, v in res.items() if not v]
            if group == "semantic":
                verdict = "caught" if broken else "MISSED"
            else:
                verdict = "unchanged" if (not broken and table == base_table) else "FALSE-ALARM"
            bad += verdict in ("MISSED", "FALSE-ALARM")
            print(f"{group:9s} {name:45s} {verdict:11s} broken={[b.replace('C15_translated_', '') for b in broken]}"
                  + (f"  [{table[:120]}]" if table.startswith("REJECTED") else ""))
            if do_check and group == "semantic":
                full_check(name, edits)
    sys.exit(1 if bad else 0)


if __name__ == "__main__":
    main()
