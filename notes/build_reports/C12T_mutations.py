"""translator-level test: apply textual rewrites to predicate.py / symbolic.py, translate, let Lean check the obligations"""
import sys, os, re, subprocess, tempfile
from pathlib import Path
W = Path("/root/work/bld_c12")
sys.path.insert(0, str(W / "harness"))
from translate.c12_translate import translate, TranslationError, OBLIGATIONS
B = Path("/repo/src/krrood/entity_query_language")
PRED, SYM = (B / "predicate.py").read_text(), (B / "symbolic.py").read_text()

def rw(src, old, new):
    assert src.count(old) == 1, (src.count(old), old)
    return src.replace(old, new)

MERGE_OLD = '''    starting_index = 1 if ignore_first else 0
    all_kwargs = {
        name: arg
        for name, arg in zip(
            get_function_argument_names(function)[starting_index:], args
        )
    }
    all_kwargs.update(kwargs)
    return all_kwargs'''
WRAP_OLD = '''        all_kwargs = merge_args_and_kwargs(function, args, kwargs, ignore_first=False)
        if _any_of_the_kwargs_is_a_variable(all_kwargs):
            return Variable(
                _name__=function.__name__,
                _type_=function,
                _kwargs_=all_kwargs,
                _predicate_type_=PredicateType.DecoratedMethod,
            )
        return function(*args, **kwargs)'''
NEW_OLD = '''        all_kwargs = merge_args_and_kwargs(
            cls.__init__, args, kwargs, ignore_first=True
        )'''
DEC_OLD = '''    return any(
        isinstance(binding, CanBehaveLikeAVariable) for binding in bindings.values()
    )'''

MUT = {  # name: (file, old, new)   semantic mutations: the obligation must break
 "m01 starting index flipped": ("p", "starting_index = 1 if ignore_first else 0", "starting_index = 0 if ignore_first else 1"),
 "m02 wrapper ignore_first=True (fix reverted)": ("p", "function, args, kwargs, ignore_first=False", "function, args, kwargs, ignore_first=True"),
 "m03 Predicate.__new__ ignore_first=False": ("p", "cls.__init__, args, kwargs, ignore_first=True", "cls.__init__, args, kwargs, ignore_first=False"),
 "m04 slice one further": ("p", "[starting_index:], args", "[starting_index + 1 :], args"),
 "m05 zip swapped": ("p", MERGE_OLD, MERGE_OLD.replace("get_function_argument_names(function)[starting_index:], args", "args, get_function_argument_names(function)[starting_index:]")),
 "m06 positionals win over keywords": ("p", "    all_kwargs.update(kwargs)\n    return all_kwargs", "    kwargs.update(all_kwargs)\n    return kwargs"),
 "m07 kwargs not merged": ("p", "    all_kwargs.update(kwargs)\n", ""),
 "m08 isinstance Variable only": ("s", "isinstance(binding, CanBehaveLikeAVariable) for", "isinstance(binding, Variable) for"),
 "m09 all instead of any": ("s", DEC_OLD, DEC_OLD.replace("any(", "all(")),
 "m10 decision on SymbolicExpression": ("s", "isinstance(binding, CanBehaveLikeAVariable) for", "isinstance(binding, SymbolicExpression) for"),
 "m11 concrete call drops kwargs": ("p", "return function(*args, **kwargs)", "return function(*args)"),
 "m12 condition carries kwargs only": ("p", "_type_=function,\n                _kwargs_=all_kwargs,", "_type_=function,\n                _kwargs_=kwargs,"),
 "m13 decision inverted": ("p", "if _any_of_the_kwargs_is_a_variable(all_kwargs):\n            return Variable(\n                _name__=function.__name__", "if not _any_of_the_kwargs_is_a_variable(all_kwargs):\n            return Variable(\n                _name__=function.__name__"),
 "m14 decision on kwargs only (wrapper)": ("p", "if _any_of_the_kwargs_is_a_variable(all_kwargs):\n            return Variable(\n                _name__=function.__name__", "if _any_of_the_kwargs_is_a_variable(kwargs):\n            return Variable(\n                _name__=function.__name__"),
 "m15 Attribute no longer behaves like a variable": ("s", "class DomainMapping(CanBehaveLikeAVariable[T], ABC):", "class DomainMapping(Selectable[T], ABC):"),
 "m16 concrete call by merged keywords": ("p", "return function(*args, **kwargs)", "return function(**all_kwargs)"),
 "m17 names of the wrong function": ("p", "cls.__init__, args, kwargs, ignore_first=True", "cls.__call__, args, kwargs, ignore_first=True"),
 "m18 default flag flipped and left to default": ("p", "function, args, kwargs, ignore_first=False", "function, args, kwargs"),
}
HARMLESS = {
 "h01 locals renamed, comments": ("p", MERGE_OLD, '''    # where the user-visible parameters start
    first = 1 if ignore_first else 0  # skip self
    merged = {
        n: a
        for n, a in zip(
            get_function_argument_names(function)[first:], args
        )
    }
    merged.update(kwargs)
    return merged'''),
 "h02 dict(zip), names in a local, reordered": ("p", MERGE_OLD, '''    names = get_function_argument_names(function)
    starting_index = 1 if ignore_first else 0
    all_kwargs = dict(zip(names[starting_index:], args))
    all_kwargs.update(kwargs)
    return all_kwargs'''),
 "h03 dict display instead of update": ("p", MERGE_OLD, '''    starting_index = int(ignore_first)
    positional = {name: arg for name, arg in zip(get_function_argument_names(function)[starting_index:], args)}
    return {**positional, **kwargs}'''),
 "h04 flag tested negatively": ("p", "starting_index = 1 if ignore_first else 0", "starting_index = 0 if not ignore_first else 1"),
 "h05 decision as a loop": ("s", DEC_OLD, '''    for value in bindings.values():
        if isinstance(value, CanBehaveLikeAVariable):
            return True
    return False'''),
 "h06 decision over a list comprehension, renamed": ("s", DEC_OLD, "    return any([isinstance(b, CanBehaveLikeAVariable) for b in bindings.values()])"),
 "h07 wrapper: else branch, flag positional, keywords reordered": ("p", WRAP_OLD, '''        merged = merge_args_and_kwargs(function, args, kwargs, False)
        if not _any_of_the_kwargs_is_a_variable(merged):
            return function(*args, **kwargs)
        else:
            return Variable(
                _type_=function,
                _kwargs_=merged,
                _name__=function.__name__,
                _predicate_type_=PredicateType.DecoratedMethod,
            )'''),
 "h08 __new__ flag left to its default (True)": ("p", NEW_OLD, "        all_kwargs = merge_args_and_kwargs(cls.__init__, args, kwargs)"),
 "h09 unrelated class added to symbolic.py": ("s", "class From:", "class Unrelated(SymbolicExpression):\n    pass\n\n\nclass From:"),
 "h10 dict union operator": ("p", "    all_kwargs.update(kwargs)\n    return all_kwargs", "    return all_kwargs | kwargs"),
}

def check(pred, sym):
    try:
        text = translate(pred, sym)
    except TranslationError as e:
        return "REJECTED: " + str(e)[:110], None
    d = W / "lean/.lake/audit"; d.mkdir(exist_ok=True, parents=True)
    f = d / f"C12T_mut_{os.getpid()}.lean"
    f.write_text(text + "".join(f"#print axioms {n}\n" for n in OBLIGATIONS))
    p = subprocess.run(["lake", "env", "lean", str(f)], cwd=str(W / "lean"), capture_output=True, text=True)
    f.unlink()
    out = " ".join((p.stdout + p.stderr).split())
    bad = []
    for n in OBLIGATIONS:
        m = re.search(r"'" + re.escape(n) + r"' depends on axioms: \[([^\]]*)\]", out)
        none = re.search(r"'" + re.escape(n) + r"' does not depend on any axioms", out)
        ax = [a.strip() for a in m.group(1).split(",")] if m else ([] if none else None)
        if ax is None or not set(ax) <= {"propext", "Classical.choice", "Quot.sound"}:
            bad.append(n.split(".")[-1])
    return ("OK" if not bad else "BROKEN: " + ",".join(bad)), text

base = translate(PRED, SYM)
which = sys.argv[1] if len(sys.argv) > 1 else "all"
for title, table in (("SEMANTIC MUTATIONS (must break)", MUT), ("HARMLESS REWRITES (must not)", HARMLESS)):
    print("==", title)
    for name, (fl, old, new) in table.items():
        if which != "all" and not name.startswith(which):
            continue
        pred, sym = (rw(PRED, old, new), SYM) if fl == "p" else (PRED, rw(SYM, old, new))
        r, text = check(pred, sym)
        same = "" if text is None else (" [output identical]" if text == base else " [output differs]")
        print(f"{name:55s} {r}{same}")
