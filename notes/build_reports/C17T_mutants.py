"""Translator test for C17 (second tie): semantic mutations of wrapped_field.py that MUST break a regenerated obligation
(or be rejected), and harmless rewrites that MUST NOT. Works on the source text only (no krrood import): mutate ->
translate -> `lake env lean` on the generated file -> which `C17_…` obligations the kernel no longer accepts.

    /venv/bin/python notes/build_reports/C17T_mutants.py            # all, 6 in parallel
    /venv/bin/python notes/build_reports/C17T_mutants.py M3 H2      # some

The end-to-end behaviour of the check (VIOLATION with a concrete input / no-failing-input-found) on scratch worktrees
of /repo is recorded in notes/build_reports/C17T.md.
"""
import os
import re
import subprocess
import sys
from concurrent.futures import ThreadPoolExecutor
from pathlib import Path

W = Path(__file__).resolve().parents[2]
sys.path.insert(0, str(W / "harness"))
from translate.c17_translate import translate, TranslationError, THEOREM_NAMES  # noqa: E402

REPO = Path(os.environ.get("KRROOD_VERIF_REPO", "/repo"))
SRC = (REPO / "src/krrood/class_diagrams/wrapped_field.py").read_text()


def rep(*pairs):
    def f(s):
        for old, new in pairs:
            assert s.count(old) >= 1, old
            s = s.replace(old, new, 1)
        return s
    return f


def move_method_to_end(name):
    def f(s):
        m = re.search(r"    @cached_property\n    def " + name + r"\(self\).*?(?=\n    @cached_property|\n\n@lru_cache)", s, re.S)
        assert m, name
        block = m.group(0)
        s = s.replace(block, "", 1)
        anchor = "\n\n@lru_cache"
        i = s.index(anchor)
        return s[:i] + "\n" + block + s[i:]
    return f


SEMANTIC = {
    "M1_len_ge_2": rep(("return len(args) == 2 and NoneType in args", "return len(args) >= 2 and NoneType in args")),
    "M2_no_none_test": rep(("return len(args) == 2 and NoneType in args", "return len(args) == 2")),
    "M3_no_sequence": rep(("[list, set, tuple, type, Sequence]", "[list, set, tuple, type]")),
    "M4_no_datetime": rep(("[int, float, str, bool, datetime, NoneType]", "[int, float, str, bool, NoneType]")),
    "M5_is_none": rep(("if arg is not NoneType", "if arg is NoneType")),
    "M6_one_to_many_builtin": rep(("return self.is_container and not self.is_builtin_type and not self.is_optional",
                                   "return self.is_container and not self.is_optional")),
    "M7_enum_container": rep(("        if self.is_container:\n            return False\n        if self.is_optional:\n            return issubclass",
                              "        if self.is_optional:\n            return issubclass")),
    "M8_endpoint_no_optional": rep(("if self.is_container or self.is_optional:\n            return self.contained_type",
                                    "if self.is_container:\n            return self.contained_type")),
    "M9_arg_one": rep(("return get_args(self.resolved_type)[0]", "return get_args(self.resolved_type)[1]")),
    "M10_typing_Type": rep(("return get_origin(self.resolved_type) is type", "return get_origin(self.resolved_type) is Type")),
    "M11_one_to_one_or": rep(("return not self.is_container and not self.is_builtin_type",
                              "return not self.is_container or not self.is_builtin_type")),
    "M12_pipe_not_optional": rep(("if origin not in [Union, Optional, UnionType]:", "if origin not in [Union, Optional]:")),
    "M13_typing_sequence": rep(("from collections.abc import Sequence", "from typing import Sequence")),
    "M14_arg_zero": rep(("""            return next(
                arg for arg in get_args(self.resolved_type) if arg is not NoneType
            )""", "            return get_args(self.resolved_type)[0]")),
    "M15_not_a_property": rep(("    @cached_property\n    def is_container", "    def is_container")),
    "M16_iterable_no_hasattr": rep(("""return self.is_one_to_many_relationship and hasattr(
            self.container_type, "__iter__"
        )""", "return self.is_one_to_many_relationship")),
    "M17_container_type_always": rep(("        if not self.is_container:\n            return None\n        return get_origin",
                                      "        return get_origin")),
    "M18_for_loop": rep(("""            return next(
                arg for arg in get_args(self.resolved_type) if arg is not NoneType
            )""", """            for arg in get_args(self.resolved_type):
                if arg is not NoneType:
                    return arg""")),
    # the independently seeded change C17-r5m2: membership became issubclass (subclasses of the scalars count as builtin)
    "M19_issubclass_builtin": rep(("return self.type_endpoint in [int, float, str, bool, datetime, NoneType]",
                                   """try:
            return issubclass(self.type_endpoint, (int, float, str, bool, datetime, NoneType))
        except TypeError:
            return False""")),
    "M20_enum_is_builtin": rep(("return self.type_endpoint in [int, float, str, bool, datetime, NoneType]",
                                "return self.type_endpoint in [int, float, str, bool, datetime, NoneType] or (not self.is_container and not self.is_optional and issubclass(self.resolved_type, enum.Enum))")),
}

HARMLESS = {
    "H1_rename_locals": rep(("        origin = get_origin(self.resolved_type)\n        if origin not in", "        o = get_origin(self.resolved_type)\n        if o not in"),
                            ("if origin in [Union, UnionType]:", "if o in [Union, UnionType]:"),
                            ("            args = get_args(self.resolved_type)\n            return len(args) == 2 and NoneType in args",
                             "            tup = get_args(self.resolved_type)  # the members\n            return len(tup) == 2 and NoneType in tup")),
    "H2_reorder_methods": lambda s: move_method_to_end("is_optional")(move_method_to_end("is_container")(s)),
    "H3_optional_one_expression": rep(("""        origin = get_origin(self.resolved_type)
        if origin not in [Union, Optional, UnionType]:
            return False
        if origin in [Union, UnionType]:
            args = get_args(self.resolved_type)
            return len(args) == 2 and NoneType in args
        return True""", """        args = get_args(self.resolved_type)
        return (
            get_origin(self.resolved_type) in (UnionType, Union)
            and len(args) == 2
            and NoneType in args
        )""")),
    "H4_de_morgan": rep(("if not self.is_container and not self.is_optional:", "if not (self.is_container or self.is_optional):")),
    "H5_import_alias": rep(("from types import NoneType, UnionType", "import types\nfrom typing import get_origin as origin_of\nfrom types import NoneType, UnionType"),
                           ("return get_origin(self.resolved_type) in self.container_types", "return origin_of(self.resolved_type) in WrappedField.container_types"),
                           ("[int, float, str, bool, datetime, NoneType]", "[int, float, str, bool, datetime, types.NoneType]"),
                           ("return len(args) == 2 and NoneType in args", "return len(args) == 2 and types.NoneType in args"),
                           ("if arg is not NoneType", "if arg is not types.NoneType")),
    "H6_redundant_conjunct": rep(("return self.is_container and not self.is_builtin_type and not self.is_optional",
                                  "return self.is_container and not self.is_builtin_type")),
    "H7_enum_restructured": rep(("""        if self.is_optional:
            return issubclass(self.contained_type, enum.Enum)

        return issubclass(self.resolved_type, enum.Enum)""", """        candidate = self.contained_type if self.is_optional else self.resolved_type
        return issubclass(candidate, enum.Enum)""")),
    "H8_plain_property": rep(("    @cached_property\n    def type_endpoint", "    @property\n    def type_endpoint")),
    "H9_swap_or_and_list_order": rep(("if self.is_container or self.is_optional:\n            return self.contained_type",
                                      "if self.is_optional or self.is_container:\n            return self.contained_type"),
                                     ("[list, set, tuple, type, Sequence]", "[Sequence, type, tuple, set, list]")),
    "H10_if_else_and_elif": rep(("""        if not self.is_container:
            return None
        return get_origin(self.resolved_type)""", """        if self.is_container:
            result = get_origin(self.resolved_type)
        else:
            result = None
        return result""")),
    "H11_next_with_filter_negated": rep(("if arg is not NoneType", "if not (arg is NoneType)")),
    "H12_typing_instead_of_extensions": rep(("from typing_extensions import (", "from typing import (")),
}


def run(tag, f):
    try:
        src = f(SRC)
        compile(src, tag, "exec")
    except AssertionError as e:
        return tag, "PATTERN-NOT-FOUND " + str(e)[:60], []
    try:
        text = translate(src)
    except TranslationError as e:
        return tag, f"rejected: {e}", list(THEOREM_NAMES)
    d = W / "lean/.lake/audit"
    d.mkdir(parents=True, exist_ok=True)
    p = d / f"C17Mut_{tag}.lean"
    p.write_text(text + "".join(f"#print axioms {n}\n" for n in THEOREM_NAMES))
    try:
        r = subprocess.run(["lake", "env", "lean", str(p)], cwd=str(W / "lean"), capture_output=True, text=True, timeout=900)
    finally:
        p.unlink()
    out = " ".join(((r.stdout or "") + (r.stderr or "")).split())
    bad = []
    for n in THEOREM_NAMES:
        m = re.search(r"'" + re.escape(n) + r"' depends on axioms: \[([^\]]*)\]", out)
        none = re.search(r"'" + re.escape(n) + r"' does not depend on any axioms", out)
        ax = [a.strip() for a in m.group(1).split(",")] if m else ([] if none else None)
        if ax is None or not set(ax) <= {"propext", "Classical.choice", "Quot.sound"}:
            bad.append(n)
    return tag, "translated", bad


if __name__ == "__main__":
    want = sys.argv[1:]
    jobs = [(t, f) for t, f in list(SEMANTIC.items()) + list(HARMLESS.items())
            if not want or any(t.startswith(w + "_") or t == w for w in want)]
    rc = 0
    with ThreadPoolExecutor(6) as ex:
        for tag, how, bad in ex.map(lambda tf: run(*tf), jobs):
            short = [b.split(".C17_")[1].replace("_translated_eq_model", "") for b in bad]
            semantic = tag in SEMANTIC
            ok = bool(bad) if semantic else not bad
            if not ok:
                rc = 1
            print(f"{'ok ' if ok else 'BAD'} {tag:34s} {how[:90]:90s} broken={'ALL' if len(bad) == len(THEOREM_NAMES) else short}")
    sys.exit(rc)
