namespace Closure
abbrev Fact := Nat × Nat × Nat   -- (field, source, target)

structure Rules where
  u  : Fact → List Fact      -- unary consequences: super-properties, inverse, role-taker variants
  tr : Nat → Bool            -- is the field's descriptor transitive

/-- fuelled transcription of PropertyDescriptorRelation.add_to_graph -/
def addFact (R : Rules) : Nat → List Fact → Fact → List Fact
  | 0, g, _ => g
  | n+1, g, r =>
    if r ∈ g then g else
    let g1 := r :: g
    let g2 := (R.u r).foldl (fun h q => addFact R n h q) g1
    if R.tr r.1 then
      let outs := g2.filter (fun q => q.1 == r.1 && q.2.1 == r.2.2)
      let g3 := (outs.map fun q => (r.1, r.2.1, q.2.2)).foldl (fun h t => addFact R n h t) g2
      let ins := g3.filter (fun q => q.1 == r.1 && q.2.2 == r.2.1)
      (ins.map fun q => (r.1, q.2.1, r.2.2)).foldl (fun h t => addFact R n h t) g3
    else g2

inductive Der (R : Rules) (A : Fact → Prop) : Fact → Prop
  | base {f} : A f → Der R A f
  | unary {p q} : Der R A p → q ∈ R.u p → Der R A q
  | trans {f a b c} : R.tr f = true → Der R A (f, a, b) → Der R A (f, b, c) → Der R A (f, a, c)

/-- every rule instance whose premises are in `new` and at least one of which is not in `old`
    has its conclusion in `new` -/
def ClosedRel (R : Rules) (old new : List Fact) : Prop :=
  (∀ p ∈ new, p ∉ old → ∀ q ∈ R.u p, q ∈ new) ∧
  (∀ f a b c, R.tr f = true → (f, a, b) ∈ new → (f, b, c) ∈ new →
      ((f, a, b) ∉ old ∨ (f, b, c) ∉ old) → (f, a, c) ∈ new)

def Closed (R : Rules) (g : List Fact) : Prop := ClosedRel R [] g

structure UClosed (R : Rules) (U : List Fact) : Prop where
  unary : ∀ p ∈ U, ∀ q ∈ R.u p, q ∈ U
  trans : ∀ f a b c, (f, a, b) ∈ U → (f, b, c) ∈ U → (f, a, c) ∈ U

def missing (U g : List Fact) : Nat := (U.filter fun x => !decide (x ∈ g)).length

theorem ClosedRel.comp {R : Rules} {a b c : List Fact} (h1 : ClosedRel R a b) (h2 : ClosedRel R b c)
    (hbc : ∀ x ∈ b, x ∈ c) : ClosedRel R a c := by
  constructor
  · intro p hp hpa q hq
    by_cases hpb : p ∈ b
    · exact hbc _ (h1.1 p hpb hpa q hq)
    · exact h2.1 p hp hpb q hq
  · intro f x y z htr h1' h2' hnew
    by_cases hb : (f, x, y) ∈ b ∧ (f, y, z) ∈ b
    · exact hbc _ (h1.2 f x y z htr hb.1 hb.2 hnew)
    · apply h2.2 f x y z htr h1' h2'
      by_cases hx : (f, x, y) ∈ b
      · right; intro hy; exact hb ⟨hx, hy⟩
      · left; exact hx

theorem ClosedRel.refl (R : Rules) (a : List Fact) : ClosedRel R a a := by
  constructor
  · intro p hp hpa; exact absurd hp hpa
  · intro f x y z _ h1 h2 hnew; rcases hnew with h | h
    · exact absurd h1 h
    · exact absurd h2 h

theorem missing_mono {U g g' : List Fact} (h : ∀ x ∈ g, x ∈ g') : missing U g' ≤ missing U g := by
  unfold missing
  induction U with
  | nil => simp
  | cons a t ih =>
    simp only [List.filter_cons]
    by_cases ha' : a ∈ g'
    · by_cases ha : a ∈ g
      · simp [ha, ha', ih]
      · simp [ha, ha']; omega
    · have ha : a ∉ g := fun hh => ha' (h a hh)
      simp [ha, ha']; omega

theorem missing_cons_lt {U g : List Fact} {r : Fact} (hr : r ∈ U) (hg : r ∉ g) :
    missing U (r :: g) < missing U g := by
  unfold missing
  induction U with
  | nil => simp at hr
  | cons a t ih =>
    simp only [List.filter_cons]
    by_cases har : a = r
    · subst har
      have hle := @missing_mono t g (a :: g) (fun x hx => List.mem_cons_of_mem _ hx)
      unfold missing at hle
      simp [hg] at hle ⊢; omega
    · have hr' : r ∈ t := by
        rcases List.mem_cons.mp hr with h | h
        · exact absurd h.symm har
        · exact h
      have := ih hr'
      by_cases ha : a ∈ g
      · simp [ha, har]; simpa using this
      · simp [ha, har]; simpa using this

structure Post (R : Rules) (U g ts g' : List Fact) : Prop where
  sub : ∀ x ∈ g, x ∈ g'
  mem : ∀ t ∈ ts, t ∈ g'
  inU : ∀ x ∈ g', x ∈ U
  snd : ∀ A : Fact → Prop, (∀ x ∈ g, Der R A x) → (∀ t ∈ ts, Der R A t) → ∀ x ∈ g', Der R A x
  clo : ClosedRel R g g'

theorem Post.nil (R : Rules) (U g : List Fact) (hg : ∀ x ∈ g, x ∈ U) : Post R U g [] g :=
  ⟨fun _ h => h, by simp, hg, fun _ h _ => h, ClosedRel.refl R g⟩

theorem fold_spec (R : Rules) (U : List Fact) (n : Nat)
    (step : ∀ g r, (∀ x ∈ g, x ∈ U) → r ∈ U → missing U g < n → Post R U g [r] (addFact R n g r)) :
    ∀ ts g, (∀ x ∈ g, x ∈ U) → (∀ t ∈ ts, t ∈ U) → missing U g < n →
      Post R U g ts (ts.foldl (fun h t => addFact R n h t) g) := by
  intro ts
  induction ts with
  | nil => intro g hg _ _; exact Post.nil R U g hg
  | cons t ts ih =>
    intro g hg hts hm
    simp only [List.foldl_cons]
    have p1 := step g t hg (hts t (by simp)) hm
    have hm1 : missing U (addFact R n g t) < n := Nat.lt_of_le_of_lt (missing_mono p1.sub) hm
    have p2 := ih (addFact R n g t) p1.inU (fun x hx => hts x (List.mem_cons_of_mem _ hx)) hm1
    refine ⟨fun x hx => p2.sub x (p1.sub x hx), ?_, p2.inU, ?_, ClosedRel.comp p1.clo p2.clo p2.sub⟩
    · intro x hx
      rcases List.mem_cons.mp hx with rfl | hx
      · exact p2.sub _ (p1.mem _ (by simp))
      · exact p2.mem x hx
    · intro A hA hT
      apply p2.snd A
      · exact p1.snd A hA (fun x hx => by simp at hx; subst hx; exact hT _ (by simp))
      · intro x hx; exact hT x (List.mem_cons_of_mem _ hx)

theorem addFact_spec (R : Rules) (U : List Fact) (hU : UClosed R U) :
    ∀ n g r, (∀ x ∈ g, x ∈ U) → r ∈ U → missing U g < n → Post R U g [r] (addFact R n g r) := by
  intro n
  induction n with
  | zero => intro g r _ _ h; exact absurd h (Nat.not_lt_zero _)
  | succ n ih =>
    intro g r hg hr hm
    unfold addFact
    by_cases hmem : r ∈ g
    · simp only [hmem, if_true]
      exact ⟨fun _ h => h, by simpa using hmem, hg, fun _ h _ => h, ClosedRel.refl R g⟩
    · simp only [hmem, if_false]
      -- g1
      have hg1U : ∀ x ∈ r :: g, x ∈ U := by
        intro x hx; rcases List.mem_cons.mp hx with rfl | hx
        · exact hr
        · exact hg x hx
      have hm1 : missing U (r :: g) < n := by
        have := @missing_cons_lt U g r hr hmem; omega
      -- unary fold
      have pu := fold_spec R U n ih (R.u r) (r :: g) hg1U (fun q hq => hU.unary r hr q hq) hm1
      generalize hg2 : (R.u r).foldl (fun h q => addFact R n h q) (r :: g) = g2 at pu
      have hrg2 : r ∈ g2 := pu.sub r (by simp)
      have hgg2 : ∀ x ∈ g, x ∈ g2 := fun x hx => pu.sub x (List.mem_cons_of_mem _ hx)
      have snd2 : ∀ A : Fact → Prop, (∀ x ∈ g, Der R A x) → Der R A r → ∀ x ∈ g2, Der R A x := by
        intro A hA hrA
        apply pu.snd A
        · intro x hx; rcases List.mem_cons.mp hx with rfl | hx
          · exact hrA
          · exact hA x hx
        · intro q hq; exact Der.unary hrA hq
      by_cases htr : R.tr r.1 = true
      · simp only [htr, if_true]
        -- outgoing fold
        have hm2 : missing U g2 < n := Nat.lt_of_le_of_lt (missing_mono pu.sub) hm1
        have houtsU : ∀ t ∈ (g2.filter (fun q => q.1 == r.1 && q.2.1 == r.2.2)).map (fun q => (r.1, r.2.1, q.2.2)), t ∈ U := by
          intro t ht
          simp only [List.mem_map, List.mem_filter, Bool.and_eq_true, beq_iff_eq] at ht
          obtain ⟨q, ⟨hq, hq1, hq2⟩, rfl⟩ := ht
          have hqU := pu.inU q hq
          have : q = (r.1, r.2.2, q.2.2) := by rw [← hq1, ← hq2]
          rw [this] at hqU
          exact hU.trans r.1 r.2.1 r.2.2 q.2.2 hr hqU
        have po := fold_spec R U n ih _ g2 pu.inU houtsU hm2
        generalize hg3 : ((g2.filter (fun q => q.1 == r.1 && q.2.1 == r.2.2)).map (fun q => (r.1, r.2.1, q.2.2))).foldl (fun h t => addFact R n h t) g2 = g3 at po
        have hm3 : missing U g3 < n := Nat.lt_of_le_of_lt (missing_mono po.sub) hm2
        have hinsU : ∀ t ∈ (g3.filter (fun q => q.1 == r.1 && q.2.2 == r.2.1)).map (fun q => (r.1, q.2.1, r.2.2)), t ∈ U := by
          intro t ht
          simp only [List.mem_map, List.mem_filter, Bool.and_eq_true, beq_iff_eq] at ht
          obtain ⟨q, ⟨hq, hq1, hq2⟩, rfl⟩ := ht
          have hqU := po.inU q hq
          have : q = (r.1, q.2.1, r.2.1) := by rw [← hq1, ← hq2]
          rw [this] at hqU
          exact hU.trans r.1 q.2.1 r.2.1 r.2.2 hqU hr
        have pi := fold_spec R U n ih _ g3 po.inU hinsU hm3
        generalize hg4 : ((g3.filter (fun q => q.1 == r.1 && q.2.2 == r.2.1)).map (fun q => (r.1, q.2.1, r.2.2))).foldl (fun h t => addFact R n h t) g3 = g4 at pi
        have h24 : ∀ x ∈ g2, x ∈ g4 := fun x hx => pi.sub x (po.sub x hx)
        refine ⟨fun x hx => h24 x (hgg2 x hx), ?_, pi.inU, ?_, ?_⟩
        · intro t ht; simp at ht; subst ht; exact h24 _ hrg2
        · intro A hA hT
          have hrA : Der R A r := hT r (by simp)
          have d2 := snd2 A hA hrA
          have d3 : ∀ x ∈ g3, Der R A x := by
            apply po.snd A d2
            intro t ht
            simp only [List.mem_map, List.mem_filter, Bool.and_eq_true, beq_iff_eq] at ht
            obtain ⟨q, ⟨hq, hq1, hq2⟩, rfl⟩ := ht
            have hqA := d2 q hq
            have : q = (r.1, r.2.2, q.2.2) := by rw [← hq1, ← hq2]
            rw [this] at hqA
            exact Der.trans htr hrA hqA
          apply pi.snd A d3
          intro t ht
          simp only [List.mem_map, List.mem_filter, Bool.and_eq_true, beq_iff_eq] at ht
          obtain ⟨q, ⟨hq, hq1, hq2⟩, rfl⟩ := ht
          have hqA := d3 q hq
          have : q = (r.1, q.2.1, r.2.1) := by rw [← hq1, ← hq2]
          rw [this] at hqA
          exact Der.trans htr hqA hrA
        · -- local closure relative to g
          have c14 : ClosedRel R (r :: g) g4 :=
            ClosedRel.comp (ClosedRel.comp pu.clo po.clo po.sub) pi.clo pi.sub
          constructor
          · intro p hp hpg q hq
            by_cases hp1 : p ∈ r :: g
            · have : p = r := by
                rcases List.mem_cons.mp hp1 with h | h
                · exact h
                · exact absurd h hpg
              subst this
              exact h24 q (pu.mem q hq)
            · exact c14.1 p hp hp1 q hq
          · intro f a b c hf h1 h2 hnew
            by_cases hold : (f, a, b) ∈ r :: g ∧ (f, b, c) ∈ r :: g
            · -- one of them is r
              have hcase : (f, a, b) = r ∨ (f, b, c) = r := by
                rcases hnew with h | h
                · left; rcases List.mem_cons.mp hold.1 with h' | h'
                  · exact h'
                  · exact absurd h' h
                · right; rcases List.mem_cons.mp hold.2 with h' | h'
                  · exact h'
                  · exact absurd h' h
              rcases hcase with hr1 | hr2
              · -- r = (f,a,b); partner (f,b,c) ∈ g2, so in outs
                have hp2 : (f, b, c) ∈ g2 := pu.sub _ hold.2
                have : (f, a, c) ∈ (g2.filter (fun q => q.1 == r.1 && q.2.1 == r.2.2)).map (fun q => (r.1, r.2.1, q.2.2)) := by
                  simp only [List.mem_map, List.mem_filter, Bool.and_eq_true, beq_iff_eq]
                  refine ⟨(f, b, c), ⟨hp2, ?_, ?_⟩, ?_⟩ <;> simp [← hr1]
                exact pi.sub _ (po.mem _ this)
              · have hp1 : (f, a, b) ∈ g3 := po.sub _ (pu.sub _ hold.1)
                have : (f, a, c) ∈ (g3.filter (fun q => q.1 == r.1 && q.2.2 == r.2.1)).map (fun q => (r.1, q.2.1, r.2.2)) := by
                  simp only [List.mem_map, List.mem_filter, Bool.and_eq_true, beq_iff_eq]
                  refine ⟨(f, a, b), ⟨hp1, ?_, ?_⟩, ?_⟩ <;> simp [← hr2]
                exact pi.mem _ this
            · apply c14.2 f a b c hf h1 h2
              by_cases hx : (f, a, b) ∈ r :: g
              · right; intro hy; exact hold ⟨hx, hy⟩
              · left; exact hx
      · simp only [htr]
        refine ⟨hgg2, ?_, pu.inU, ?_, ?_⟩
        · intro t ht; simp at ht; subst ht; exact hrg2
        · intro A hA hT; exact snd2 A hA (hT r (by simp))
        · constructor
          · intro p hp hpg q hq
            by_cases hp1 : p ∈ r :: g
            · have : p = r := by
                rcases List.mem_cons.mp hp1 with h | h
                · exact h
                · exact absurd h hpg
              subst this
              exact pu.mem q hq
            · exact pu.clo.1 p hp hp1 q hq
          · intro f a b c hf h1 h2 hnew
            by_cases hold : (f, a, b) ∈ r :: g ∧ (f, b, c) ∈ r :: g
            · exfalso
              have hcase : (f, a, b) = r ∨ (f, b, c) = r := by
                rcases hnew with h | h
                · left; rcases List.mem_cons.mp hold.1 with h' | h'
                  · exact h'
                  · exact absurd h' h
                · right; rcases List.mem_cons.mp hold.2 with h' | h'
                  · exact h'
                  · exact absurd h' h
              rcases hcase with h | h <;> (rw [← h] at htr; exact htr hf)
            · apply pu.clo.2 f a b c hf h1 h2
              by_cases hx : (f, a, b) ∈ r :: g
              · right; intro hy; exact hold ⟨hx, hy⟩
              · left; exact hx

/-- assert a whole history of facts, in the order given -/
def run (R : Rules) (fuel : Nat) (hist : List Fact) : List Fact :=
  hist.foldl (fun g r => addFact R fuel g r) []

theorem missing_le (U g : List Fact) : missing U g ≤ U.length := by
  unfold missing; exact List.length_filter_le _ _

theorem closed_of_closedRel_nil {R : Rules} {g : List Fact} (h : ClosedRel R [] g) : Closed R g := h

/-- C15 core: after any history, the graph is exactly the derivable closure of what was asserted -/
theorem run_eq_closure (R : Rules) (U : List Fact) (hU : UClosed R U) (hist : List Fact)
    (hh : ∀ t ∈ hist, t ∈ U) (x : Fact) :
    x ∈ run R (U.length + 1) hist ↔ Der R (fun y => y ∈ hist) x := by
  have step := addFact_spec R U hU (U.length + 1)
  have P := fold_spec R U (U.length + 1) step hist [] (by simp) hh
    (Nat.lt_succ_of_le (missing_le U []))
  constructor
  · intro hx
    exact P.snd (fun y => y ∈ hist) (by simp) (fun t ht => Der.base ht) x hx
  · intro hd
    induction hd with
    | base h => exact P.mem _ h
    | unary _ hq ih => exact P.clo.1 _ ih (by simp) _ hq
    | trans htr _ _ ih1 ih2 => exact P.clo.2 _ _ _ _ htr ih1 ih2 (Or.inl (by simp))

/-- C15: the result does not depend on the order (or repetition) of the assertions -/
theorem run_order_independent (R : Rules) (U : List Fact) (hU : UClosed R U) (h1 h2 : List Fact)
    (hh1 : ∀ t ∈ h1, t ∈ U) (hsame : ∀ t, t ∈ h1 ↔ t ∈ h2) (x : Fact) :
    x ∈ run R (U.length + 1) h1 ↔ x ∈ run R (U.length + 1) h2 := by
  have hh2 : ∀ t ∈ h2, t ∈ U := fun t ht => hh1 t ((hsame t).mpr ht)
  rw [run_eq_closure R U hU h1 hh1, run_eq_closure R U hU h2 hh2]
  have : (fun y => y ∈ h1) = (fun y => y ∈ h2) := by funext y; exact propext (hsame y)
  rw [this]

#print axioms run_eq_closure
#print axioms run_order_independent

/-- non-vacuity: a transitive chain asserted leaf-to-root and root-to-leaf gives the same 6 facts -/
def R0 : Rules := { u := fun _ => [], tr := fun _ => true }
example : (run R0 20 [(0,3,2),(0,2,1),(0,1,0)]).length = 6 := by decide
example : (run R0 20 [(0,1,0),(0,2,1),(0,3,2)]).length = 6 := by decide
end Closure
