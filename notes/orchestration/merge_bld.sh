#!/bin/bash
# usage: merge_bld.sh <tag> "<commit message>"
T=$1; MSG=$2
cd /verif
git fetch -q /root/work/bld_$T HEAD || exit 1
git merge --no-edit --no-commit FETCH_HEAD > /tmp/merge_$T.log 2>&1
for f in $(git diff --name-only --diff-filter=U); do
  case $f in
    evidence/*) git checkout --theirs $f ;;
    lean/KrroodVerif.lean) python3 /root/work/resolve_imports.py ;;
    MANIFEST.json|known_findings.json) git checkout --ours $f ;;
    *) echo "UNRESOLVED $f" ;;
  esac
done
if git diff --name-only --diff-filter=U | grep -v -E "^(evidence/|lean/KrroodVerif.lean|MANIFEST.json|known_findings.json)" | grep . ; then echo "manual resolution needed"; exit 1; fi
python3 /root/work/resolve_imports.py
/venv/bin/python tools/assemble.py | tail -1
git add -A && git commit -qm "$MSG" && echo merged $T
