#!/bin/bash
# usage: finish.sh Cxx   — import round-5 deliverables, remove the worktree, verify + run own check
P=$1
cd /verif
python3 tools/import_seeded.py $P 6 /tmp/mut6_$P
git -C /repo worktree remove --force /tmp/mut6_$P
for k in 1 2; do
  [ -d seeded/$P-r6m$k ] && /venv/bin/python tools/seeded.py $P-r6m$k --verify > /root/work/mut6/$P-r6m$k.log 2>&1
  grep -E "CAUGHT|not caught|demo_|pytest_tail|applies" /root/work/mut6/$P-r6m$k.log
done
