import sys
p='/verif/lean/KrroodVerif.lean'
out=[];seen=set()
for l in open(p):
    if l.startswith(('<<<<<<<','=======','>>>>>>>')): continue
    if l.strip() and l in seen: continue
    seen.add(l); out.append(l)
open(p,'w').write(''.join(out))
