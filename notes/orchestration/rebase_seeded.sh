#!/bin/bash
# usage: rebase_seeded.sh <id>...   — re-base seeded/<id>/patch.diff onto /repo HEAD by 3-way apply (keeps patch.orig.diff)
for ID in "$@"; do
  WT=/tmp/rb_$ID
  git -C /repo worktree add -q $WT HEAD || continue
  cd $WT
  if git apply --3way /verif/seeded/$ID/patch.diff >/tmp/rb_$ID.log 2>&1 && ! grep -rl "^<<<<<<< " src >/dev/null 2>&1; then
    git reset -q; git diff > /tmp/rb_$ID.diff
    [ -f /verif/seeded/$ID/patch.orig.diff ] || cp /verif/seeded/$ID/patch.diff /verif/seeded/$ID/patch.orig.diff
    cp /tmp/rb_$ID.diff /verif/seeded/$ID/patch.diff
    python3 - "$ID" <<'P'
import json,sys,subprocess
i=sys.argv[1]; p=f'/verif/seeded/{i}/meta.json'; m=json.load(open(p))
h=subprocess.run(['git','-C','/repo','rev-parse','--short','HEAD'],capture_output=True,text=True).stdout.strip()
m['rebased']=f"patch.diff re-based onto /repo HEAD {h} by 3-way apply after fix: commits touched the same lines (same change, same intent); the sub-agent's original is patch.orig.diff"
json.dump(m,open(p,'w'),indent=1)
P
    echo "rebased $ID"
  else
    echo "CONFLICT $ID"; grep -l "^<<<<<<< " -r src | head
  fi
  cd /; git -C /repo worktree remove --force $WT; rm -f /tmp/rb_$ID.diff /tmp/rb_$ID.log
done
