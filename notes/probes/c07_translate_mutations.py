"""Translator-level test of harness/translate/c07_translate.py: semantic mutations of eql_interface.py that must break an
obligation (or be rejected), harmless rewrites that must leave all four obligations standing.
Run: cd <copy> && /venv/bin/python notes/probes/c07_translate_mutations.py   (compiles each generated file with lean)"""
import os, re, subprocess, sys, tempfile
from pathlib import Path
ROOT = Path(__file__).resolve().parents[2]
sys.path.insert(0, str(ROOT / "harness"))
from translate.c07_translate import translate, TranslationError  # noqa: E402
SRC = Path(os.environ.get("KRROOD_VERIF_REPO", "/repo")) / "src/krrood/ormatic/eql_interface.py"
src = SRC.read_text()
NAMES = ["C07_opTable_translated_eq_model", "C07_dispatch_translated_eq_model", "C07_translated_table_ok", "C07_translated_preserves"]


def sub(old, new, count=1):
    assert src.count(old) >= 1, old
    return src.replace(old, new, count)


MUT = {
    "m1 le as lt": sub("return left <= right", "return left < right"),
    "m2 ge as gt": sub("return left >= right", "return left > right"),
    "m3 ne not null-safe": sub("""            if left_is_sql:
                return left.is_distinct_from(right)
            if right_is_sql:
                return right.is_distinct_from(left)
            return left != right""", "            return left != right"),
    "m4 eq col col plain": sub("return left.is_not_distinct_from(right)", "return left == right"),
    "m5 in without IS NULL": sub("return or_(column.in_(not_none_values), column.is_(None))", "return column.in_(not_none_values)"),
    "m6 in and_ for or_": sub("return or_(column.in_(not_none_values), column.is_(None))", "return and_(column.in_(not_none_values), column.is_(None))"),
    "m7 instr operands swapped": sub("expression = func.instr(left, literal(right)) > 0", "expression = func.instr(literal(right), left) > 0"),
    "m8 LIKE again": sub("expression = func.instr(left, literal(right)) > 0", "expression = left.contains(right)"),
    "m9 negation dropped": sub("return sa_not(expression) if is_negated else expression", "return expression"),
    "m10 unknown node ignored": sub('        raise UnsupportedQueryTypeError(f"Unknown query type: {type(query)}")', "        return None"),
    "m11 operand guard removed": sub("""        if isinstance(operand, SymbolicExpression):
            raise UnsupportedQueryTypeError(
                f"Unknown comparator operand type: {type(operand)}"
            )

""", ""),
    "m12 set_of guard raises ValueError": sub("""            raise UnsupportedQueryTypeError(
                f"Only entity(...) queries can be translated, got {type(self.select_like)}"
            )""", "            raise ValueError('not an entity')"),
    "m13 gt branch tests lt name": sub('if operation is operator.gt or operator_name == "gt":', 'if operation is operator.gt or operator_name == "lt":'),
    "m14 lt operands swapped": sub("return left < right", "return right < left"),
    "m15 collections without tuple": sub("if isinstance(left, (list, tuple, set)):", "if isinstance(left, (list, set)):"),
    "m16 member test inverted": sub("if not any(value is None for value in values):", "if any(value is None for value in values):"),
    "m17 r4m2 lookup table le->lt": None,  # filled below
    "m18 ge branch deleted": sub("""        if operation is operator.ge or operator_name == "ge":
            return left >= right
""", ""),
}
r4m2 = ROOT / "seeded/C07-r4m2/patch.diff"
if r4m2.exists():
    d = tempfile.mkdtemp()
    try:
        os.makedirs(d + "/src/krrood/ormatic")
        Path(d + "/src/krrood/ormatic/eql_interface.py").write_text(src)
        p = subprocess.run(["patch", "-p1", "-s", "-d", d, "-i", str(r4m2)], capture_output=True, text=True)
        MUT["m17 r4m2 lookup table le->lt"] = Path(d + "/src/krrood/ormatic/eql_interface.py").read_text() if p.returncode == 0 else None
    finally:
        subprocess.run(["rm", "-rf", d])
HARMLESS = {
    "h1 locals renamed": src.replace("operator_name", "opname").replace("left_is_sql", "lsql").replace("right_is_sql", "rsql"),
    "h2 branches reordered (le before gt)": sub("""        if operation is operator.gt or operator_name == "gt":
            return left > right
        if operation is operator.lt or operator_name == "lt":
            return left < right
        if operation is operator.ge or operator_name == "ge":
            return left >= right
        if operation is operator.le or operator_name == "le":
            return left <= right
""", """        if operation is operator.le or operator_name == "le":
            return left <= right
        # comment
        if operator_name == "ge":
            return left >= right
        if operation is operator.lt:
            return left < right
        if "gt" == operator_name or operation is operator.gt:
            return left > right
"""),
    "h3 mirrored operands": sub("return left >= right", "return right <= left").replace("return right.is_distinct_from(left)", "return left.is_distinct_from(right)"),
    "h4 lookup table (correct)": sub("""        if operation is operator.gt or operator_name == "gt":
            return left > right
        if operation is operator.lt or operator_name == "lt":
            return left < right
        if operation is operator.ge or operator_name == "ge":
            return left >= right
        if operation is operator.le or operator_name == "le":
            return left <= right
""", """        comparison = self.ordering_operators.get(operator_name)
        if comparison is not None:
            return comparison(left, right)
""").replace('''    """Maps EQL operators to SQLAlchemy expressions."""

    def map_comparison_operator''', '''    """Maps EQL operators to SQLAlchemy expressions."""

    ordering_operators = {"gt": operator.gt, "ge": operator.ge, "lt": operator.lt, "le": operator.le}

    def map_comparison_operator'''),
    "h5 dispatch reordered, elif->nested": sub("""        if isinstance(query, AND):
            return self.translate_and(query)
        if isinstance(query, OR):
            return self.translate_or(query)
""", """        if isinstance(query, OR):
            return self.translate_or(query)
        if isinstance(query, AND):
            return self.translate_and(query)
"""),
    "h6 null_safe_in restructured": sub("""    values = list(values)
    if not any(value is None for value in values):
        return column.in_(values)
    not_none_values = [value for value in values if value is not None]
    return or_(column.in_(not_none_values), column.is_(None))""", """    values = list(values)
    present = [v for v in values if v is not None]
    if any(x is None for x in values):
        return or_(column.in_(present), column.is_(None))
    else:
        return column.in_(present)"""),
    "h7 literal() dropped around instr args, else->elif": sub("expression = func.instr(literal(left), right) > 0", "expression = func.instr(left, right) > 0"),
}


def check(name, text):
    if text is None:
        return name, "SKIPPED"
    try:
        lean = translate(text)
    except TranslationError as e:
        return name, f"REJECTED by the translator: {e}"
    f = ROOT / "lean/.lake/audit" / f"C07Mut_{os.getpid()}.lean"
    f.parent.mkdir(parents=True, exist_ok=True)
    f.write_text(lean + "".join(f"#print axioms KrroodVerif.SqlTr.Translated.{n}\n" for n in NAMES))
    try:
        p = subprocess.run(["lake", "env", "lean", str(f)], cwd=str(ROOT / "lean"), capture_output=True, text=True)
    finally:
        f.unlink()
    out = " ".join((p.stdout + p.stderr).split())
    ok = []
    for n in NAMES:
        full = r"'KrroodVerif\.SqlTr\.Translated\." + n + "'"
        m = re.search(full + r" depends on axioms: \[([^\]]*)\]", out)
        if (m and "sorryAx" not in m.group(1)) or re.search(full + r" does not depend on any axioms", out):
            ok.append(n)
    bad = [n for n in NAMES if n not in ok]
    return name, ("ALL FOUR OBLIGATIONS STAND" if not bad else "BROKEN: " + ", ".join(bad))


if __name__ == "__main__":
    for group, items in (("semantic mutations (must be rejected or break an obligation)", MUT), ("harmless rewrites (must leave all obligations standing)", HARMLESS)):
        print("==", group)
        for k, v in items.items():
            print("  %-42s %s" % check(k, v))
