import gc, sys
sys.path.insert(0, "/repo")
from test.dataset.university_ontology_like_classes import Company, Person, CEO
from krrood.entity_query_language.symbol_graph import SymbolGraph
SymbolGraph().clear(); sg = SymbolGraph()
def prefix():
    p = Person(name="OldP"); c = Company(name="Old")
    p.works_for = c
    assert p in c.members
prefix(); gc.collect()
sg.remove_dead_instances()
person = Person(name="NewP"); company = Company(name="New")
print("indices:", sg.get_wrapped_instance(person).index, sg.get_wrapped_instance(company).index)
person.works_for = company
print("C14 person in company.members:", person in company.members, "works_for", person.works_for, "relations:", len(list(sg.relations())))
# without sweep
SymbolGraph().clear(); sg = SymbolGraph()
prefix(); gc.collect()
person = Person(name="NewP"); company = Company(name="New")
print("indices(no sweep):", sg.get_wrapped_instance(person).index, sg.get_wrapped_instance(company).index)
person.works_for = company
print("C14 no sweep:", person in company.members, len(list(sg.relations())))

# C15 orders
import itertools
def run(order):
    SymbolGraph().clear(); SymbolGraph()
    cs = [Company(name=f"c{i}") for i in range(4)]
    edges = [(3,2),(2,1),(1,0)]
    for i in order:
        a,b = edges[i]; cs[a].sub_organization_of = [cs[b]] if False else cs[a].sub_organization_of + [cs[b]] if False else None
    return cs
def run2(order):
    SymbolGraph().clear(); SymbolGraph()
    cs = [Company(name=f"c{i}") for i in range(4)]
    edges = [(3,2),(2,1),(1,0)]
    for i in order:
        a,b = edges[i]; cs[a].sub_organization_of.append(cs[b])
    return {c.name: sorted(x.name for x in c.sub_organization_of) for c in cs}
for order in itertools.permutations(range(3)):
    print(order, run2(order))
