"""Mutation test of harness/translate/c18_translate.py (run by hand; not part of the check).

For every entry: copy of /repo's json_serializer.py / utils.py with one textual edit, placed in a scratch worktree of
/repo; then (1) the translator alone (rejected / tables), (2) the whole check `harness/check.py C18 --tier quick` with
KRROOD_VERIF_REPO pointing at the worktree: its exit code and VIOLATION line.

  usage: /venv/bin/python notes/probes/c18_translate_mutations.py [name …]
"""
from __future__ import annotations

import os
import subprocess
import sys
from pathlib import Path

W = Path(__file__).resolve().parents[2]
WT = Path("/tmp/wt_c18_mut")
JS = "src/krrood/adapters/json_serializer.py"
UT = "src/krrood/utils.py"

TO_JSON_HEAD = '''    if isinstance(obj, leaf_types):
        return obj

    if isinstance(obj, list_like_classes):
        return [to_json(item) for item in obj]
'''
REG_TAIL = '''    registered_json_serializer = JSONSerializableTypeRegistry().get_serializer(
        type(obj)
    )
    if not registered_json_serializer:
        raise ClassNotSerializableError(type(obj))

    return registered_json_serializer(obj)
'''
FROM_HEAD = '''        if isinstance(data, leaf_types):
            return data

        if isinstance(data, list_like_classes):
            return [from_json(d) for d in data]
'''
GET_SER = "        return self._serializers.get(type_class)\n"
GET_DESER = "        return self._deserializers.get(type_class)\n"

# name -> (kind, file, old, new, expectation)
#   kind S = semantic (obligation must break); H = harmless (obligations must hold, exit 0)
#   expectation for S: "concrete" (VIOLATION with a replay of a failing input) | "nofail" (VIOLATION … no-failing-input-found)
MUTATIONS = {
    # ------------------------------------------------------------------ semantic
    "S01_bool_after_int_coerce": ("S", JS, TO_JSON_HEAD.split("\n\n")[0] + "\n", '''    for leaf_type in leaf_types:
        if isinstance(obj, leaf_type):
            return obj if type(obj) is leaf_type else leaf_type(obj)
''', "concrete"),
    "S02_list_fast_path_first_element": ("S", JS, "        return [to_json(item) for item in obj]\n", '''        if obj and isinstance(next(iter(obj)), leaf_types):
            return list(obj)
        return [to_json(item) for item in obj]
''', "concrete"),
    "S03_tag_name_only": ("S", JS, "return {JSON_TYPE_NAME: get_full_class_name(self.__class__)}",
                          "return {JSON_TYPE_NAME: self.__class__.__name__}", "concrete"),
    "S04_tag_qualname": ("S", UT, 'return cls.__module__ + "." + cls.__name__', 'return cls.__module__ + "." + cls.__qualname__', "nofail"),
    "S05_serializer_lookup_isinstance_order": ("S", JS, GET_SER, '''        for registered_type, serializer in self._serializers.items():
            if issubclass(type_class, registered_type):
                return serializer
        return None
''', "concrete"),
    "S06_tuple_as_leaf": ("S", JS, "    bool,\n    NoneType,\n)", "    bool,\n    NoneType,\n    tuple,\n)", "nofail"),
    "S07_from_json_sniffs_strings": ("S", JS, FROM_HEAD, '''        if isinstance(data, str) and data.lstrip().startswith(("{", "[")):
            try:
                data = __import__("json").loads(data)
            except ValueError:
                pass

''' + FROM_HEAD, "concrete"),
    "S08_from_json_list_not_recursive": ("S", JS, "            return [from_json(d) for d in data]\n", "            return list(data)\n", "concrete"),
    "S09_str_not_a_leaf": ("S", JS, "    float,\n    str,\n    bool,", "    float,\n    bool,", "concrete"),
    "S10_deserializer_lookup_mro": ("S", JS, GET_DESER, '''        for base in type_class.__mro__:
            if base in self._deserializers:
                return self._deserializers[base]
        return None
''', "nofail"),
    "S11_register_swapped": ("S", JS, "        self._serializers[type_class] = serializer\n        self._deserializers[type_class] = deserializer\n",
                             "        self._serializers[type_class] = deserializer\n        self._deserializers[type_class] = serializer\n", "concrete"),
    "S12_uuid_keys_differ": ("S", JS, '        "value": str(obj),', '        "hex": str(obj),', "concrete"),
    "S13_registry_before_method": ("S", JS, "    if isinstance(obj, SubclassJSONSerializer):\n        return obj.to_json()\n\n" + REG_TAIL,
                                   REG_TAIL.replace("    if not registered_json_serializer:\n        raise ClassNotSerializableError(type(obj))\n\n    return registered_json_serializer(obj)\n",
                                                    "    if registered_json_serializer:\n        return registered_json_serializer(obj)\n\n    if isinstance(obj, SubclassJSONSerializer):\n        return obj.to_json()\n\n    raise ClassNotSerializableError(type(obj))\n"),
                                   "nofail"),
    "S14_set_not_list_like": ("S", JS, "    tuple,\n    set,\n)", "    tuple,\n)", "nofail"),
    "S15_bool_serialised_as_int": ("S", JS, TO_JSON_HEAD.split("\n\n")[0] + "\n", '''    if isinstance(obj, int):
        return int(obj)
    if isinstance(obj, leaf_types):
        return obj
''', "concrete"),
    "S16_registry_not_singleton": ("S", JS, "class JSONSerializableTypeRegistry(metaclass=SingletonMeta):", "class JSONSerializableTypeRegistry:", "concrete"),
    # ------------------------------------------------------------------ harmless
    "H01_leaf_types_reordered": ("H", JS, "    int,\n    float,\n    str,\n    bool,\n    NoneType,\n)", "    NoneType,\n    bool,\n    str,\n    int,\n    float,\n)", None),
    "H02_elif_chain": ("H", JS, TO_JSON_HEAD + "\n    if isinstance(obj, SubclassJSONSerializer):\n        return obj.to_json()\n", '''    if isinstance(obj, leaf_types):
        return obj
    elif isinstance(obj, list_like_classes):
        return [to_json(item) for item in obj]
    elif isinstance(obj, SubclassJSONSerializer):
        return obj.to_json()
''', None),
    "H03_registry_branch_other_way_round": ("H", JS, REG_TAIL, '''    serializer = JSONSerializableTypeRegistry().get_serializer(type(obj))
    if serializer is not None:
        return serializer(obj)
    raise ClassNotSerializableError(type(obj))
''', None),
    "H04_renamed_locals_comments": ("H", JS, TO_JSON_HEAD, '''    # plain JSON values pass through
    if isinstance(obj, leaf_types):
        return obj

    # containers: element-wise
    if isinstance(obj, list_like_classes):
        return [to_json(element) for element in obj]
''', None),
    "H05_fstring_full_class_name": ("H", UT, 'return cls.__module__ + "." + cls.__name__', 'return f"{cls.__module__}.{cls.__name__}"', None),
    "H06_leaf_test_split": ("H", JS, TO_JSON_HEAD.split("\n\n")[0] + "\n", '''    if obj is None or type(obj) is bool:
        return obj
    if isinstance(obj, (int, float)) or isinstance(obj, str):
        return obj
''', None),
    "H07_from_json_list_before_leaf": ("H", JS, FROM_HEAD, '''        if isinstance(data, list_like_classes):
            return [from_json(d) for d in data]

        if isinstance(data, leaf_types):
            return data
''', None),
    "H08_type_self": ("H", JS, "get_full_class_name(self.__class__)", "get_full_class_name(type(self))", None),
    "H09_list_like_reordered_map": ("H", JS, "        return [to_json(item) for item in obj]\n", "        return list(map(to_json, obj))\n", None),
    "H10_from_json_recursion_via_cls": ("H", JS, "            return [from_json(d) for d in data]\n", "            return [cls.from_json(d, **kwargs) for d in data]\n", None),
}


def sh(cmd, **kw):
    return subprocess.run(cmd, capture_output=True, text=True, **kw)


def main():
    names = sys.argv[1:] or list(MUTATIONS)
    sh(["git", "-C", "/repo", "worktree", "remove", "--force", str(WT)])
    r = sh(["git", "-C", "/repo", "worktree", "add", str(WT), "HEAD"])
    if r.returncode:
        print(r.stderr)
        return 1
    bad = 0
    try:
        sys.path.insert(0, str(W / "harness"))
        from translate import c18_translate as T
        for name in names:
            kind, file, old, new, expect = MUTATIONS[name]
            sh(["git", "-C", str(WT), "checkout", "--", "."])
            p = WT / file
            src = p.read_text()
            if src.count(old) != 1:
                print(f"{name}: ANCHOR NOT FOUND ({src.count(old)} occurrences)")
                bad += 1
                continue
            p.write_text(src.replace(old, new))
            try:
                t = T.tables_of((WT / JS).read_text(), (WT / UT).read_text())
                tr = "translated"
            except T.TranslationError as e:
                tr = f"rejected ({e})"
            env = dict(os.environ, KRROOD_VERIF_REPO=str(WT), VERIF_SEED="0")
            c = sh(["/venv/bin/python", "harness/check.py", "C18", "--tier", "quick"], cwd=str(W), env=env)
            out = c.stdout + c.stderr
            viol = [l for l in out.splitlines() if l.startswith("VIOLATION")]
            obl = [l.split()[1] for l in out.splitlines() if l.startswith("obligation ")]
            if kind == "H":
                ok = c.returncode == 0 and not viol and tr == "translated"
            else:
                got = "nofail" if viol and "no-failing-input-found" in viol[0] else "concrete" if viol else "none"
                ok = c.returncode == 1 and got == expect
            bad += not ok
            print(f"{'ok  ' if ok else 'BAD '} {name}: translator {tr[:150]}; exit {c.returncode}; {viol[0] if viol else 'no violation'}"
                  + (f"; expected {expect}" if kind == "S" else ""))
            if not ok:
                print(out[-1500:])
    finally:
        sh(["git", "-C", "/repo", "worktree", "remove", "--force", str(WT)])
        sh(["git", "-C", str(W), "checkout", "--", "evidence"])
    print("failures:", bad)
    return 1 if bad else 0


if __name__ == "__main__":
    sys.exit(main())
