import gc, sys
sys.path.insert(0, "/repo")
from test.dataset.university_ontology_like_classes import Company, Person, CEO
from krrood.entity_query_language.symbol_graph import SymbolGraph
SymbolGraph().clear(); sg = SymbolGraph()
def prefix():
    p = Person(name="OldP"); c = Company(name="Old")
    p.works_for = c
prefix(); gc.collect()
sg.remove_dead_instances()
company = Company(name="New"); person = Person(name="NewP")
print("indices:", sg.get_wrapped_instance(person).index, sg.get_wrapped_instance(company).index)
person.works_for = company
print("C14 person in company.members:", person in company.members, "relations:", len(list(sg.relations())))
