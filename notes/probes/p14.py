import sys
sys.path.insert(0, "/repo")
from sqlalchemy.orm import configure_mappers
from krrood.ormatic.dao import to_dao, ToDAOState, FromDAOState
from test.dataset.example_classes import *
from test.dataset.ormatic_interface import *
configure_mappers()
ref = Reference(3); back = Backreference({1:1}, ref); ref.backreference = back
d = to_dao(back); r = d.from_dao()
print("start at alt-mapped:", type(r).__name__, type(r.reference).__name__, type(r.reference.backreference).__name__, r.reference.backreference is r)
d = to_dao(ref); r = d.from_dao()
print("start at ref:", type(r).__name__, type(r.backreference).__name__, type(r.backreference.reference).__name__, r.backreference.reference is r)
# entity alt-mapped shared in two lists
e = Entity("e")
agg = AlternativeMappingAggregator([e, Entity("f")], [e])
r = to_dao(agg).from_dao()
print("alt shared:", r.entities1[0] is r.entities2[0], type(r.entities1[0]).__name__)
# list with duplicates, order
p = Position(1,2,3); q = Position(1,2,3)
ps = Positions([p, q, p], ["a","b"])
r = to_dao(ps).from_dao()
print("dups/order:", len(r.positions), r.positions[0] is r.positions[2], r.positions[0] is not r.positions[1], type(r.positions).__name__)
# container cycle
i1, i2 = ItemWithBackreference(1), ItemWithBackreference(2)
c = ContainerGeneration([i1, i2])
r = to_dao(c).from_dao()
print("container cycle:", all(i.container is r for i in r.items), type(r.items).__name__)
r = to_dao(i1).from_dao()
print("start at item:", r.container.items[0] is r, [i.container is r.container for i in r.container.items])
# subclass in base-typed field
t = Torso("t", [KinematicChain("a"), Torso("b", [])])
r = to_dao(t).from_dao()
print("subclass:", [type(k).__name__ for k in r.kinematic_chains], r == t)
