import sys, importlib, os
sys.path.insert(0, "/tmp/probe/gen")
from krrood.class_diagrams.class_diagram import ClassDiagram
from krrood.ormatic.ormatic import ORMatic
from krrood.ormatic.utils import classes_of_module
for name in ["m1", "m2"]:
    m = importlib.import_module(name)
    o = ORMatic(ClassDiagram(classes_of_module(m)))
    o.make_all_tables()
    out = f"/tmp/probe/gen/{name}_orm.py"
    with open(out, "w") as f: o.to_sqlalchemy_file(f)
    try:
        g = importlib.import_module(f"{name}_orm")
        from sqlalchemy.orm import configure_mappers
        configure_mappers()
        print(name, "OK")
    except Exception as e:
        print(name, "FAILED", type(e).__name__, str(e)[:200])
