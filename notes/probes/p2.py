from dataclasses import dataclass
from krrood.entity_query_language.entity import *
from krrood.entity_query_language.quantify_entity import an, the
from krrood.entity_query_language.predicate import Predicate, symbolic_function, merge_args_and_kwargs
from krrood.entity_query_language.symbolic import Variable

@dataclass(eq=False)
class P:
    a: int
    def __repr__(self): return f"P{self.a}"
D = [P(0), P(1), P(2)]
calls=[]
@symbolic_function
def f(p, k=1):
    calls.append((p,k)); return p.a >= k
@symbolic_function
def g2(p, q):
    calls.append((p,q)); return p.a > q.a

@dataclass(eq=False)
class Big(Predicate):
    p: P
    k: int = 1
    def __call__(self):
        calls.append(("Big", self.p, self.k)); return self.p.a >= self.k

x = let(P, D, name="x")
print("merge f(x):", merge_args_and_kwargs(f.__wrapped__, (x,), {}))
try:
    c = f(x); print("f(x) positional ->", type(c).__name__, calls)
except Exception as e: print("f(x) positional raised", type(e).__name__, e)
calls.clear()
c = f(p=x); print("f(p=x) ->", type(c).__name__, calls)
print(list(an(entity(x, c)).evaluate()), calls)
calls.clear()
try:
    c = f(x, 2); print("f(x,2) ->", type(c).__name__, getattr(c,'_kwargs_',None)); print(list(an(entity(x, c)).evaluate()))
except Exception as e: print("f(x,2) raised", type(e).__name__, e)
calls.clear()
y = let(P, D, name="y")
try:
    c = g2(x, y); print("g2(x,y) ->", type(c).__name__, getattr(c,'_kwargs_',None)); print(list(an(set_of([x,y], c)).evaluate()))
except Exception as e: print("g2(x,y) raised", type(e).__name__, e)
calls.clear()
c = Big(x); print("Big(x) ->", type(c).__name__, c._kwargs_)
print(list(an(entity(x, c)).evaluate()), calls); calls.clear()
c = Big(x, 2); print("Big(x,2) ->", type(c).__name__, c._kwargs_)
print(list(an(entity(x, c)).evaluate()));calls.clear()
c = Big(p=x, k=2); print(list(an(entity(x, c)).evaluate()));calls.clear()
c = Big(k=2, p=x); print(list(an(entity(x, c)).evaluate()));calls.clear()
print("concrete:", Big(D[2])(), f(D[2]), f(D[2], 5), f(p=D[2],k=2))
