"""Prototype v2: more vocabulary (falsy ints, bool attrs as conditions, membership, exists/for_all, selected attrs)."""
import sys, random, operator, itertools
from dataclasses import dataclass, field
from krrood.entity_query_language.entity import let, entity, set_of, and_, or_, not_, in_, contains, exists, for_all
from krrood.entity_query_language.quantify_entity import an
from krrood.entity_query_language import symbolic as S

@dataclass(eq=False)
class P:
    a: int
    f: bool
    items: list
    def __repr__(self): return f"P({self.a},{self.f},{self.items})"

OPS = {"eq": operator.eq, "ne": operator.ne, "lt": operator.lt, "le": operator.le, "gt": operator.gt, "ge": operator.ge}
KIND = {}   # var name -> "obj" | "int"

def vars_of(e):
    t = e[0]
    if t == "var": return {e[1]}
    if t == "lit": return set()
    if t == "attr": return vars_of(e[1])
    if t in ("cmp", "contains"): return vars_of(e[2]) | vars_of(e[3]) if t == "cmp" else vars_of(e[1]) | vars_of(e[2])
    if t in ("and", "or"): return vars_of(e[1]) | vars_of(e[2])
    if t in ("not",): return vars_of(e[1])
    if t in ("exists", "forall"): return {e[1]} | vars_of(e[2])
    if t == "battr": return vars_of(e[1])
    raise ValueError(t)

def num_term(rnd, vs):
    k = rnd.random()
    if k < 0.3: return ("lit", rnd.randrange(0, 3))
    v = rnd.choice(vs)
    return ("var", v) if KIND[v] == "int" else ("attr", ("var", v), "a")

def gen_atom(rnd, vs):
    k = rnd.random()
    objs = [v for v in vs if KIND[v] == "obj"]
    if k < 0.55 or not objs:
        v = rnd.choice(vs)
        l = ("var", v) if KIND[v] == "int" else ("attr", ("var", v), "a")
        return ("cmp", rnd.choice(list(OPS)), l, num_term(rnd, vs))
    if k < 0.7: return ("battr", ("attr", ("var", rnd.choice(objs)), "f"))
    if k < 0.85: return ("contains", ("lit", [rnd.randrange(0, 3) for _ in range(rnd.randrange(0, 3))]), num_term(rnd, vs))  # in_(term, literal list)
    return ("contains", ("attr", ("var", rnd.choice(objs)), "items"), num_term(rnd, vs))                                     # contains(x.items, term)

def gen_cond(rnd, vs, depth, allow_q=True):
    if depth == 0 or rnd.random() < 0.3: return gen_atom(rnd, vs)
    k = rnd.random()
    if k < 0.35: return ("and", gen_cond(rnd, vs, depth-1, allow_q), gen_cond(rnd, vs, depth-1, allow_q))
    if k < 0.7: return ("or", gen_cond(rnd, vs, depth-1, allow_q), gen_cond(rnd, vs, depth-1, allow_q))
    if k < 0.85 or not allow_q: return ("not", gen_cond(rnd, vs, depth-1, allow_q))
    q = rnd.choice(vs)
    return (rnd.choice(["exists", "forall"]), q, gen_cond(rnd, vs, depth-1, False))

def build(e, V):
    t = e[0]
    if t == "var": return V[e[1]]
    if t == "lit": return e[1]
    if t == "attr": return getattr(build(e[1], V), e[2])
    if t == "battr": return build(e[1], V)
    if t == "cmp": return S.Comparator(build(e[2], V), build(e[3], V), OPS[e[1]])
    if t == "contains": return contains(build(e[1], V), build(e[2], V))
    if t == "and": return and_(build(e[1], V), build(e[2], V))
    if t == "or": return or_(build(e[1], V), build(e[2], V))
    if t == "not": return not_(build(e[1], V))
    if t == "exists": return exists(V[e[1]], build(e[2], V))
    if t == "forall": return for_all(V[e[1]], build(e[2], V))

def run_impl(cond, sel, doms):
    V = {n: let(P if KIND[n] == "obj" else int, list(d), name=n) for n, d in doms.items()}
    c = build(cond, V)
    S_ = [V[s[1]] if s[0] == "var" else getattr(V[s[1][1]], s[2]) for s in sel]
    if len(S_) == 1 and sel[0][0] == "var":
        return [(r,) for r in an(entity(S_[0], c)).evaluate()]
    return [tuple(r[k] for k in S_) for r in an(set_of(S_, c)).evaluate()]

def truthy(v): return bool(v)
def m_term(e, env, doms, cond_pos=False):
    t = e[0]
    if t == "var":
        n = e[1]
        if n in env: return [(env, env[n], not truthy(env[n]))]
        return [({**env, n: v}, v, False) for v in doms[n]]
    if t == "lit":
        k = ("L", id(e))
        if k in env: return [(env, env[k], not truthy(env[k]))]
        return [({**env, k: e[1]}, e[1], False)]
    if t == "attr":
        out = []
        for env2, v, _f in m_term(e[1], env, doms):
            val = getattr(v, e[2]); out.append((env2, val, (not truthy(val)) if cond_pos else False))
        return out
def nodes_of(e):
    """variables incl. literal nodes (a Literal is a Variable in the engine)"""
    t = e[0]
    if t == "var": return {e[1]}
    if t == "lit": return {("L", id(e))}
    if t in ("attr", "battr", "not"): return nodes_of(e[1])
    if t == "cmp": return nodes_of(e[2]) | nodes_of(e[3])
    if t in ("contains", "and", "or"): return nodes_of(e[1]) | nodes_of(e[2])
    if t in ("exists", "forall"): return {e[1]} | nodes_of(e[2])
def apply(op, lv, rv):
    if op in ("eq", "ne") and hasattr(lv, "__iter__") and hasattr(rv, "__iter__") and not isinstance(lv, str) and not isinstance(rv, str):
        lv, rv = set(lv), set(rv)
    return OPS[op](lv, rv)
def m_cmp(l, r, fn, env, doms):
    first, second, swap = l, r, False
    if env and any(v in env for v in nodes_of(r)): first, second, swap = r, l, True
    out = []
    for env1, v1, f1 in m_term(first, env, doms):
        if f1: continue
        for env2, v2, f2 in m_term(second, env1, doms):
            if f2: continue
            lv, rv = (v2, v1) if swap else (v1, v2)
            out.append((env2, not fn(lv, rv)))
    return out
def invert(e):
    if e[0] == "exists": return ("forall", e[1], invert(e[2]))
    if e[0] == "forall": return ("exists", e[1], invert(e[2]))
    return ("not", e)
class ForAllEmpty(Exception): pass
class ExistsKey(Exception): pass
def m_eval(e, env, doms):
    t = e[0]
    if t == "cmp": return m_cmp(e[2], e[3], lambda a, b: apply(e[1], a, b), env, doms)
    if t == "contains": return m_cmp(e[1], e[2], lambda c, i: operator.contains(c, i), env, doms)
    if t == "battr": return [(env1, f) for env1, _v, f in m_term(e[1], env, doms, cond_pos=True)]
    if t == "and":
        out = []
        for env1, f in m_eval(e[1], env, doms):
            if f: out.append((env1, True))
            else: out.extend(m_eval(e[2], env1, doms))
        return out
    if t == "or":
        same = vars_of(e[1]) == vars_of(e[2]); out = []
        for env1, f in m_eval(e[1], env, doms):
            if f: out.extend(m_eval(e[2], env1, doms))
            else: out.append((env1, False))
        if not same: out.extend(m_eval(e[2], env, doms))
        return out
    if t == "not":
        return [(env1, not f) for env1, f in m_eval(e[1], env, doms)]
    if t == "exists":
        seen, out = [], []
        for env1, f in m_eval(e[2], env, doms):
            if e[1] not in env1: raise ExistsKey()
            v = env1[e[1]]
            if (not f) and v not in seen:
                seen.append(v); out.append((env1, False))
        return out
    if t == "forall":
        q = e[1]; sols = None; others = nodes_of(e[2]) - {q}
        for envq, _v, _f in m_term(("var", q), env, doms):
            if sols is None:
                sols = [{k: v for k, v in env1.items() if k in others} for env1, f in m_eval(e[2], envq, doms) if not f]
            else:
                def ok(sol):
                    rs = m_eval(e[2], {**sol, **envq}, doms)
                    return (not rs[0][1]) if rs else False
                sols = [s for s in sols if ok(s)]
            if not sols: sols = []; break
        if sols is None: raise ForAllEmpty()
        return [({**env, **s}, False) for s in sols]
def norm(e):
    """construction-time rewriting done by not_(): operand._invert_() bottom-up"""
    t = e[0]
    if t == "not": return invert(norm(e[1]))
    if t in ("and", "or"): return (t, norm(e[1]), norm(e[2]))
    if t in ("exists", "forall"): return (t, e[1], norm(e[2]))
    return e
def run_model(cond, sel, doms):
    cond = norm(cond)
    rows = []
    for env, f in m_eval(cond, {}, doms):
        if f: continue
        per = [[v for _e, v, _f in m_term(s, dict(env), doms)] for s in sel]
        rows.extend(itertools.product(*per))
    return rows

def main(N, seed):
    rnd = random.Random(seed)
    exact = order_only = diff = 0; examples = []; stats = {}
    for i in range(N):
        nv = rnd.choice([1, 2, 2, 3]); vs = ["x", "y", "z"][:nv]
        for v in vs: KIND[v] = "int" if rnd.random() < 0.3 else "obj"
        objs = [P(rnd.randrange(0, 3), rnd.random() < 0.5, [rnd.randrange(0, 3) for _ in range(rnd.randrange(0, 3))]) for _ in range(rnd.randrange(0, 4))]
        doms = {n: ([o for o in objs if rnd.random() < 0.8] if KIND[n] == "obj" else sorted(rnd.sample(range(0, 4), rnd.randrange(0, 4)))) for n in vs}
        cond = gen_cond(rnd, vs, rnd.randrange(0, 4))
        sel = []
        for v in rnd.sample(vs, rnd.randrange(1, nv + 1)):
            sel.append(("var", v))
            if KIND[v] == "obj" and rnd.random() < 0.3: sel.append(("attr", ("var", v), "a"))
        try: impl = run_impl(cond, sel, doms)
        except Exception as ex: impl = f"EXC {type(ex).__name__}"
        try: model = run_model(cond, sel, doms)
        except ForAllEmpty: model = "EXC TypeError"
        except ExistsKey: model = "EXC KeyError"
        key = lambda rows: [tuple(id(o) if isinstance(o, P) else ("i", o) for o in r) for r in rows]
        if isinstance(impl, str) or isinstance(model, str):
            if impl == model: exact += 1
            else:
                diff += 1
                if len(examples) < 8: examples.append((cond, sel, doms, impl, model))
            continue
        ii, mm = key(impl), key(model)
        if ii == mm: exact += 1
        elif sorted(ii) == sorted(mm): order_only += 1
        else:
            diff += 1
            if len(examples) < 8: examples.append((cond, sel, doms, impl, model))
    print(f"N={N} exact={exact} order-only={order_only} DIFF={diff}")
    for ex in examples: print("  ", ex)
main(int(sys.argv[1]), int(sys.argv[2]))
