"""Throwaway prototype of the planned Lean list-monad model of EQL evaluation, diffed against the real engine."""
import sys, random, operator, itertools
from dataclasses import dataclass
from krrood.entity_query_language.entity import let, entity, set_of, and_, or_, not_
from krrood.entity_query_language.quantify_entity import an
from krrood.entity_query_language import symbolic as S

@dataclass(eq=False)
class P:
    a: int
    b: int
    def __repr__(self): return f"P({self.a},{self.b})"

OPS = {"eq": operator.eq, "ne": operator.ne, "lt": operator.lt, "le": operator.le, "gt": operator.gt, "ge": operator.ge}

# ---------- expression AST ----------
def vars_of(e):
    t = e[0]
    if t == "var": return {e[1]}
    if t == "lit": return set()
    if t == "attr": return vars_of(e[1])
    if t == "cmp": return vars_of(e[2]) | vars_of(e[3])
    if t in ("and", "or"): return vars_of(e[1]) | vars_of(e[2])
    if t == "not": return vars_of(e[1])
    raise ValueError(t)

def gen_term(rnd, vs):
    if rnd.random() < 0.35: return ("lit", rnd.randrange(0, 3))
    return ("attr", ("var", rnd.choice(vs)), rnd.choice("ab"))

def gen_cond(rnd, vs, depth):
    if depth == 0 or rnd.random() < 0.3:
        l = ("attr", ("var", rnd.choice(vs)), rnd.choice("ab"))
        return ("cmp", rnd.choice(list(OPS)), l, gen_term(rnd, vs))
    k = rnd.random()
    if k < 0.4: return ("and", gen_cond(rnd, vs, depth-1), gen_cond(rnd, vs, depth-1))
    if k < 0.8: return ("or", gen_cond(rnd, vs, depth-1), gen_cond(rnd, vs, depth-1))
    return ("not", gen_cond(rnd, vs, depth-1))

# ---------- real engine ----------
def build(e, V):
    t = e[0]
    if t == "var": return V[e[1]]
    if t == "lit": return e[1]
    if t == "attr": return getattr(build(e[1], V), e[2])
    if t == "cmp":
        l, r = build(e[2], V), build(e[3], V)
        return S.Comparator(l, r, OPS[e[1]])
    if t == "and": return and_(build(e[1], V), build(e[2], V))
    if t == "or": return or_(build(e[1], V), build(e[2], V))
    if t == "not": return not_(build(e[1], V))

def run_impl(cond, sel, doms):
    V = {n: let(P, list(d), name=n) for n, d in doms.items()}
    c = build(cond, V)
    if len(sel) == 1:
        q = an(entity(V[sel[0]], c)); return [(r,) for r in q.evaluate()]
    q = an(set_of([V[s] for s in sel], c))
    return [tuple(r[V[s]] for s in sel) for r in q.evaluate()]

# ---------- model (what Lean `eval` will be) ----------
def truthy(v): return bool(v)
def m_term(e, env, doms, as_condition=False):
    t = e[0]
    if t == "var":
        n = e[1]
        if n in env: return [(env, env[n], not truthy(env[n]))]
        return [({**env, n: v}, v, False) for v in doms[n]]
    if t == "lit": return [(env, e[1], False)]       # fresh literal node: unbound on first use
    if t == "attr":
        out = []
        for env2, v, _f in m_term(e[1], env, doms):
            val = getattr(v, e[2]); out.append((env2, val, (not truthy(val)) if as_condition else False))
        return out
def m_eval(e, env, doms):
    t = e[0]
    if t == "cmp":
        l, r = e[2], e[3]
        first, second, swap = l, r, False
        if env and any(v in env for v in vars_of(r)): first, second, swap = r, l, True
        out = []
        for env1, v1, f1 in m_term(first, env, doms):
            if f1: continue
            for env2, v2, f2 in m_term(second, env1, doms):
                if f2: continue
                lv, rv = (v2, v1) if swap else (v1, v2)
                out.append((env2, not OPS[e[1]](lv, rv)))
        return out
    if t == "and":
        out = []
        for env1, f in m_eval(e[1], env, doms):
            if f: out.append((env1, True))
            else: out.extend(m_eval(e[2], env1, doms))
        return out
    if t == "or":
        same = vars_of(e[1]) == vars_of(e[2])
        out = []
        for env1, f in m_eval(e[1], env, doms):
            if f: out.extend(m_eval(e[2], env1, doms))
            else: out.append((env1, False))
        if not same: out.extend(m_eval(e[2], env, doms))     # Union: right alone as well
        return out
    if t == "not":
        return [(env1, not f) for env1, f in m_eval(e[1], env, doms)]
def run_model(cond, sel, doms):
    rows = []
    for env, f in m_eval(cond, {}, doms):
        if f: continue
        per = []
        for s in sel:   # selected variables evaluated independently from the row's bindings
            per.append([v for _e, v, _f in m_term(("var", s), dict(env), doms)])
        rows.extend(itertools.product(*per))
    return rows

def spec(cond, sel, doms):
    names = sorted(doms)
    def sat(e, s):
        t = e[0]
        if t == "cmp": return OPS[e[1]](val(e[2], s), val(e[3], s))
        if t == "and": return sat(e[1], s) and sat(e[2], s)
        if t == "or": return sat(e[1], s) or sat(e[2], s)
        if t == "not": return not sat(e[1], s)
    def val(e, s):
        if e[0] == "lit": return e[1]
        if e[0] == "var": return s[e[1]]
        return getattr(val(e[1], s), e[2])
    out = set()
    for combo in itertools.product(*[doms[n] for n in names]):
        s = dict(zip(names, combo))
        if sat(cond, s): out.add(tuple(id(s[x]) for x in sel))
    return out

def main(N, seed):
    rnd = random.Random(seed)
    exact = order_only = diff = 0; specbad = 0; examples = []
    for i in range(N):
        nv = rnd.choice([1, 2, 2, 3]); vs = ["x", "y", "z"][:nv]
        objs = [P(rnd.randrange(0, 3), rnd.randrange(0, 3)) for _ in range(rnd.randrange(0, 4))]
        doms = {n: [o for o in objs if rnd.random() < 0.8] for n in vs}
        cond = gen_cond(rnd, vs, rnd.randrange(0, 4))
        sel = rnd.sample(vs, rnd.randrange(1, nv + 1))
        try: impl = run_impl(cond, sel, doms)
        except Exception as ex: impl = f"EXC {type(ex).__name__}: {ex}"
        model = run_model(cond, sel, doms)
        if isinstance(impl, str): diff += 1; examples.append((cond, sel, impl)); continue
        ii = [tuple(id(o) for o in r) for r in impl]; mm = [tuple(id(o) for o in r) for r in model]
        if ii == mm: exact += 1
        elif sorted(ii) == sorted(mm): order_only += 1
        else:
            diff += 1
            if len(examples) < 6: examples.append((cond, sel, {n: d for n, d in doms.items()}, impl, model))
        if set(ii) != spec(cond, sel, doms): specbad += 1
    print(f"N={N} exact={exact} same-multiset-different-order={order_only} DIFF={diff}  (impl!=spec as sets: {specbad})")
    for ex in examples: print("  ", ex)
main(int(sys.argv[1]), int(sys.argv[2]))
