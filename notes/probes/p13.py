import sys
sys.path.insert(0, "/repo")
from sqlalchemy import select
from sqlalchemy.orm import Session, configure_mappers
from krrood.ormatic.utils import create_engine
from krrood.ormatic.dao import to_dao
from krrood.ormatic.eql_interface import eql_to_sql, EQLTranslationError
from krrood.entity_query_language.entity import *
from krrood.entity_query_language.quantify_entity import an, the
from test.dataset.example_classes import *
from test.dataset.ormatic_interface import *
configure_mappers()
engine = create_engine("sqlite:///:memory:")
Base.metadata.create_all(engine)
ps = [Position(1,2,3), Position(1,5,9), Position(2,2,2), Position(7,7,8)]
with Session(engine) as s:
    s.add_all([to_dao(p) for p in ps]); s.commit()
    def both(build):
        p = let(Position, ps, name="p"); q = let(Position, ps, name="q")
        query = build(p, q)
        mem = sorted((o.x,o.y,o.z) for o in query.evaluate())
        p = let(Position, ps, name="p"); q = let(Position, ps, name="q")
        query = build(p, q)
        try:
            t = eql_to_sql(query, s); sql = sorted((o.x,o.y,o.z) for o in t.evaluate())
            print("mem", mem, "\nsql", sql, "\n", str(t.sql_query).replace("\n"," ")[-120:])
        except EQLTranslationError as e: print("mem", mem, "rejected", type(e).__name__)
        except Exception as e: print("mem", mem, "ESCAPE", type(e).__name__, e)
    both(lambda p,q: an(entity(p, p.x > q.z)))
    both(lambda p,q: an(entity(p, and_(p.x == 1, q.z == 9))))
    both(lambda p,q: an(entity(p, not_(p.x == 1))))
    both(lambda p,q: an(entity(p, in_(p.x, [1, 7]))))
    both(lambda p,q: an(entity(p, p.x == p.y)))
