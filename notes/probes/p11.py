import sys
sys.path.insert(0, "/repo")
from sqlalchemy import select
from sqlalchemy.orm import Session, configure_mappers
from krrood.ormatic.utils import create_engine
from krrood.ormatic.dao import to_dao
from test.dataset.example_classes import *
from test.dataset.ormatic_interface import *
configure_mappers()
engine = create_engine("sqlite:///:memory:")
Base.metadata.create_all(engine)

# C04: in-memory round trip with sharing
root = Node(); a = Node(parent=root); b = Node(parent=root)
da, db = to_dao(a), to_dao(b)
print("C04 separate to_dao states -> distinct parents (expected, separate calls)")
from krrood.ormatic.dao import ToDAOState, FromDAOState
st = ToDAOState(); da = to_dao(a, st); db = to_dao(b, st)
print("C04 shared state: same parent dao:", da.parent is db.parent)
fs = FromDAOState(); ra = da.from_dao(fs); rb = db.from_dao(fs)
print("C04 from_dao shared parent:", ra.parent is rb.parent, type(ra).__name__)

# positions shared
p = Position(1,2,3)
agg = DoublePositionAggregator([p, Position(4,5,6)], [p])
d = to_dao(agg); r = d.from_dao()
print("C04 aggregator aliasing:", r.positions1[0] is r.positions2[0], r == agg)

# C05 Node with two children through DB
with Session(engine) as s:
    st = ToDAOState(); s.add_all([to_dao(a, st), to_dao(b, st)]); s.commit()
with Session(engine) as s:
    rows = s.scalars(select(NodeDAO)).all()
    print("C05 Node rows:", len(rows), [(r.database_id, r.parent_id) for r in rows])
    fs = FromDAOState()
    objs = [r.from_dao(fs) for r in rows]
    print("C05 parents:", [o.parent is not None for o in objs])
print("direction of NodeDAO.parent:", NodeDAO.parent.property.direction)
