from dataclasses import dataclass
from krrood.entity_query_language.entity import *
from krrood.entity_query_language.quantify_entity import an, the
from krrood.entity_query_language.predicate import Symbol
from krrood.entity_query_language.rule import refinement, alternative, next_rule
from krrood.entity_query_language.conclusion import Add
from krrood.entity_query_language.symbol_graph import SymbolGraph

@dataclass(eq=False)
class P:
    a: int
    def __repr__(self): return f"P{self.a}"
@dataclass
class V:
    p: P
@dataclass
class A(V): pass
@dataclass
class B(V): pass
@dataclass
class C(V): pass
@dataclass
class E(V): pass
D = [P(i) for i in range(6)]

def show(q):
    return sorted((type(v).__name__, v.p.a) for v in q.evaluate())

# three alternatives in a chain
x = let(P, D, name="x"); v = inference(V)()
q = an(entity(v, x.a == 0))
with q:
    Add(v, inference(A)(p=x))
    with alternative(x.a == 1):
        Add(v, inference(B)(p=x))
    with alternative(x.a == 2):
        Add(v, inference(C)(p=x))
    with alternative(x.a == 3):
        Add(v, inference(E)(p=x))
print("3 alternatives:", show(q))
print("re-evaluate:", show(q))

# refinement of refinement
x = let(P, D, name="x"); v = inference(V)()
q = an(entity(v, x.a >= 0))
with q:
    Add(v, inference(A)(p=x))
    with refinement(x.a >= 2):
        Add(v, inference(B)(p=x))
        with refinement(x.a >= 4):
            Add(v, inference(C)(p=x))
print("nested refinement:", show(q))

# next rule
x = let(P, D, name="x"); v = inference(V)()
q = an(entity(v, x.a <= 1))
with q:
    Add(v, inference(A)(p=x))
    with next_rule(x.a >= 1):
        Add(v, inference(B)(p=x))
print("next:", show(q))
