"""Translator test for C06 (`harness/translate/c06_translate.py`): semantic mutations of `parse_field` /
`create_mapper_args` that must break an obligation, and harmless rewrites that must not.

usage: /venv/bin/python notes/probes/c06_translate_mutations.py [--emit DIR]   (run from the framework root)
With --emit DIR the mutated `wrapped_table.py` files are written to DIR/<name>.py (to be copied into a scratch worktree)."""
import os, re, subprocess, sys, tempfile
from pathlib import Path

ROOT = Path(__file__).resolve().parents[2]
sys.path.insert(0, str(ROOT / "harness"))
from translate.c06_translate import translate, TranslationError, SOURCE  # noqa: E402

REPO = Path(os.environ.get("KRROOD_VERIF_REPO", "/repo"))
SRC = (REPO / SOURCE).read_text()
OBL = ["C06_dispatch_translated_eq_model", "C06_mapper_translated_eq_model", "C06_dispatch_translated_ok",
       "C06_mapper_translated_ok", "C06_translated_meets_property"]

BUILTIN = """        elif (
            wrapped_field.is_builtin_type or wrapped_field.is_enum
        ) and not wrapped_field.is_container:"""
O2O = """        elif (
            wrapped_field.is_one_to_one_relationship
            and wrapped_field.type_endpoint in self.ormatic.mapped_classes
        ):"""
CUSTOM = """        elif (
            wrapped_field.is_one_to_one_relationship
            and wrapped_field.type_endpoint in self.ormatic.type_mappings
        ):"""
JSON_ = """        elif (
            wrapped_field.is_collection_of_builtins
            or wrapped_field.type_endpoint in self.ormatic.type_mappings
            and wrapped_field.is_container
        ):"""
O2M = "        elif wrapped_field.is_one_to_many_relationship:"
ROOT_RULE = "        if self.parent_table is None and self.has_children:"
JOINED = "            if self.ormatic.inheritance_strategy == InheritanceStrategy.JOINED:"


def rep(old, new, count=1):
    def f(s):
        assert s.count(old) >= 1, old
        return s.replace(old, new, count)
    return f


def chain(*fs):
    def f(s):
        for g in fs:
            s = g(s)
        return s
    return f


def body_of(s, name):
    m = re.search(r"    def %s\(.*?(?=\n    def |\n    @|\Z)" % name, s, re.S)
    return m.group(0)


def early_returns(s):
    """the elif chain of parse_field rewritten with early returns, parameter renamed, an alias for the endpoint"""
    old = body_of(s, "parse_field")
    new = '''    def parse_field(self, wf: WrappedField):
        """dispatch on the kind of the field"""
        endpoint = wf.type_endpoint
        mapped = self.ormatic.mapped_classes
        if wf.is_type_type:
            self.create_type_type_column(wf)
            return
        if not wf.is_container and (wf.is_enum or wf.is_builtin_type):
            self.create_builtin_column(wf)
            return
        rel = wf.is_one_to_one_relationship
        if rel and endpoint in mapped:
            self.create_one_to_one_relationship(wf)
            return
        if rel and endpoint in self.ormatic.type_mappings:
            self.create_custom_type(wf)
            return
        # JSON
        if (endpoint in self.ormatic.type_mappings and wf.is_container) or wf.is_collection_of_builtins:
            self.create_json_column(wf)
            return
        if wf.is_one_to_many_relationship:
            self.create_one_to_many_relationship(wf)
'''
    return s.replace(old, new)


def mapper_rewrite(s):
    old = body_of(s, "create_mapper_args")
    new = '''    def create_mapper_args(self):
        if self.parent_table is not None and InheritanceStrategy.JOINED == self.ormatic.inheritance_strategy:
            self.mapper_args["'inherit_condition'"] = f"{self.primary_key_name} == {self.parent_table.full_primary_key_name}"
        if self.parent_table is not None:
            self.mapper_args["'polymorphic_identity'"] = f"'{self.tablename}'"
        else:
            if self.has_children:
                self.mapper_args.update({"'polymorphic_identity'": f"'{self.tablename}'"})
                self.mapper_args.update({"'polymorphic_on'": f"'{self.polymorphic_on_name}'"})
                self.custom_columns.append(
                    ColumnConstructor(
                        name=self.polymorphic_on_name,
                        type="Mapped[str]",
                        constructor="mapped_column(String(255), nullable=False, use_existing_column=True)",
                    )
                )
'''
    return s.replace(old, new)


SEMANTIC = {
    "S1_builtin_ignores_container": rep(BUILTIN, "        elif wrapped_field.is_builtin_type or wrapped_field.is_enum:"),
    "S2_one_to_one_before_builtin": chain(rep(BUILTIN, "        elif__TMP__:"), rep(O2O, BUILTIN), rep("        elif__TMP__:", O2O),
                                          rep('            logger.info(f"Parsing as builtin type.")\n            self.create_builtin_column(wrapped_field)',
                                              "            self.create_one_to_one_relationship(wrapped_field)"),
                                          rep('            logger.info(f"Parsing as one to one relationship.")\n            self.create_one_to_one_relationship(wrapped_field)',
                                              "            self.create_builtin_column(wrapped_field)")),
    "S3_one_to_one_without_mapped_test": rep(O2O, "        elif wrapped_field.is_one_to_one_relationship:"),
    "S4_one_to_one_tests_one_to_many": rep(O2O, O2O.replace("is_one_to_one_relationship", "is_one_to_many_relationship")),
    "S5_json_or_becomes_and": rep(JSON_, JSON_.replace("            or wrapped_field.type_endpoint", "            and wrapped_field.type_endpoint")),
    "S6_custom_tests_mapped_classes": rep(CUSTOM, CUSTOM.replace("type_mappings", "mapped_classes")),
    "S7_one_to_many_requires_not_enum_dropped_branch": rep(O2M, "        elif wrapped_field.is_one_to_many_relationship and wrapped_field.is_enum:"),
    "S8_inherit_condition_only_for_leaves": rep(JOINED, "            if self.ormatic.inheritance_strategy == InheritanceStrategy.JOINED and not self.has_children:"),
    "S9_discriminator_on_every_root": rep(ROOT_RULE, "        if self.parent_table is None:"),
    "S10_identity_of_parent": rep("""            self.mapper_args.update(
                {
                    "'polymorphic_identity'": f"'{self.tablename}'",
                }
            )
            # only needed""", """            self.mapper_args.update(
                {
                    "'polymorphic_identity'": f"'{self.parent_table.tablename}'",
                }
            )
            # only needed"""),
    "S11_elif_becomes_if": rep(O2O, O2O.replace("        elif (", "        if (")),
    "S12_json_branch_calls_builtin": rep('            logger.info(f"Parsing as JSON.")\n            self.create_json_column(wrapped_field)',
                                         '            logger.info(f"Parsing as JSON.")\n            self.create_builtin_column(wrapped_field)'),
    "S13_private_fields_parsed": rep('            if f.field.name.startswith("_"):', '            if f.field.name.startswith("__"):'),
    "S14_no_inherit_condition": rep(JOINED, "            if False and self.ormatic.inheritance_strategy == InheritanceStrategy.JOINED:"),
}

HARMLESS = {
    "H1_early_returns_renamed_param_aliases": early_returns,
    "H2_de_morgan_commuted": chain(
        rep(BUILTIN, "        elif not (wrapped_field.is_container or not (wrapped_field.is_enum or wrapped_field.is_builtin_type)):"),
        rep(O2O, "        elif wrapped_field.type_endpoint in self.ormatic.mapped_classes and wrapped_field.is_one_to_one_relationship:")),
    "H3_no_logging_no_else": chain(
        lambda s: re.sub(r'\n            logger\.info\(f?"Parsing[^\n]*\)', "", s),
        rep('        else:\n            logger.info("Skipping due to not handled type.")\n', "")),
    "H4_mapper_args_reordered_flattened_keywords": mapper_rewrite,
    "H5_nested_else_if": rep(O2M + '\n            logger.info(f"Parsing as one to many relationship.")\n            self.create_one_to_many_relationship(wrapped_field)\n        else:\n            logger.info("Skipping due to not handled type.")\n',
                             "        else:\n            # collections last\n            if wrapped_field.is_one_to_many_relationship:\n                self.create_one_to_many_relationship(wrapped_field)\n            else:\n                pass\n"),
    "H6_keys_call_and_not_in": rep(CUSTOM, "        elif wrapped_field.is_one_to_one_relationship and not (\n            wrapped_field.type_endpoint not in self.ormatic.type_mappings.keys()\n        ):"),
}


def check(text: str):
    lean = ROOT / "lean"
    d = lean / ".lake" / "audit"
    d.mkdir(parents=True, exist_ok=True)
    f = d / ("C06TranslatedTest_%d.lean" % os.getpid())
    f.write_text(text + "".join("#print axioms KrroodVerif.OrmGen.Translated.%s\n" % n for n in OBL))
    try:
        p = subprocess.run(["lake", "env", "lean", str(f)], cwd=str(lean), capture_output=True, text=True, timeout=600)
    finally:
        f.unlink()
    out = " ".join((p.stdout + p.stderr).split())
    res = {}
    for n in OBL:
        m = re.search(r"Translated\." + n + r"' depends on axioms: \[([^\]]*)\]", out)
        none = re.search(r"Translated\." + n + r"' does not depend on any axioms", out)
        res[n] = bool(none) or (bool(m) and "sorryAx" not in m.group(1))
    return res


def main():
    emit = sys.argv[sys.argv.index("--emit") + 1] if "--emit" in sys.argv else None
    base = translate(SRC)
    bad = 0
    for group, table in (("semantic", SEMANTIC), ("harmless", HARMLESS)):
        for name, fn in table.items():
            src = fn(SRC)
            assert src != SRC, name
            compile(src, name, "exec")
            if emit:
                Path(emit).mkdir(parents=True, exist_ok=True)
                Path(emit, name + ".py").write_text(src)
            try:
                text = translate(src)
            except TranslationError as e:
                verdict = "REJECTED: %s" % e
                broken = True
            else:
                r = check(text)
                broken = not all(r.values())
                verdict = "tables " + ("unchanged text" if text == base else "changed text") + "; failed: " + \
                          (", ".join(k.replace("C06_", "") for k, v in r.items() if not v) or "none")
            expected = group == "semantic"
            flag = "ok " if broken == expected else "BAD"
            bad += flag == "BAD"
            print("%s %-9s %-48s %s" % (flag, group, name, verdict))
    print("unexpected:", bad)
    return bad


if __name__ == "__main__":
    sys.exit(1 if main() else 0)
