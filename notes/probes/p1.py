from dataclasses import dataclass
from krrood.entity_query_language.entity import *
from krrood.entity_query_language.quantify_entity import an, the
from krrood.entity_query_language.symbolic import *
from krrood.entity_query_language.result_quantification_constraint import *
from krrood.entity_query_language.failures import *

@dataclass(eq=False)
class P:
    a: int
    def __repr__(self): return f"P{self.a}"

D = [P(0), P(1), P(2)]
x = let(P, D, name="x"); y = let(P, D, name="y")
q = an(set_of([x, y], not_(or_(x.a == 0, y.a == 0))))
print("C01 not(or x.a==0, y.a==0):", type(q._child_._child_._child_).__name__)
rows = [(r[x], r[y]) for r in q.evaluate()]
print(len(rows), rows)

# cross product w/o conditions
@dataclass(eq=False)
class G:
    top: int
gs = [G(1), G(2)]
g = let(G, gs, name="g")
gt = g.top
q = an(set_of([g, gt]))
print("C01 set_of([g,g.top]):", [(r[g], r[gt]) for r in q.evaluate()])

# C02 union dup
x = let(P, D, name="x"); y = let(P, D, name="y")
q = an(set_of([x, y], or_(x.a == 0, y.a == 0)))
rows = [(r[x], r[y]) for r in q.evaluate()]
print("C02/C01 union rows:", len(rows), rows)

# C03: nested loops sharing a variable
x = let(P, (p for p in D), name="x")
q1 = an(entity(x, x.a >= 0)); q2 = an(entity(x, x.a <= 5))
pairs = [(u, v) for u in q1.evaluate() for v in q2.evaluate()]
print("C03 nested shared var (gen domain):", len(pairs), pairs)
x = let(P, D, name="x")
q1 = an(entity(x, x.a >= 0)); q2 = an(entity(x, x.a <= 5))
pairs = [(u, v) for u in q1.evaluate() for v in q2.evaluate()]
print("C03 nested shared var (list domain):", len(pairs))
# re-eval
print("re-eval:", list(q1.evaluate()), list(q1.evaluate()))
# C09
for c in [Exactly(0), AtMost(0), AtLeast(0), Range(AtLeast(0), AtMost(0)), Range(AtLeast(3), AtMost(3))]:
    x = let(P, D, name="x")
    q = an(entity(x), quantification=c)
    try:
        print("C09", c, len(list(q.evaluate())))
    except Exception as e:
        print("C09", c, type(e).__name__)
x = let(P, [], name="x")
try: print(the(entity(x)).evaluate())
except Exception as e: print("the empty:", type(e).__name__)
x = let(P, [], name="x")
try: print(list(an(entity(x)).evaluate()))
except Exception as e: print("an empty:", type(e).__name__, e)
