from dataclasses import dataclass
from krrood.entity_query_language.entity import *
from krrood.entity_query_language.quantify_entity import an, the
x = let(int, [0,1,2,3], name="x")
print("x>=0 and x<2:", list(an(entity(x, and_(x >= 0, x < 2))).evaluate()))
x = let(int, [0,1,2,3], name="x")
print("x<2:", list(an(entity(x, x < 2)).evaluate()))
@dataclass(eq=False)
class Bag:
    items: list
    def __len__(self): return len(self.items)
bags=[Bag([]), Bag([1]), Bag([1,2])]
b = let(Bag, bags, name="b")
print("bags len>=0 and len<2:", [len(v) for v in an(entity(b, and_(b.items != [5], b.items != [6]))).evaluate()])
# shared attr node
@dataclass(eq=False)
class P:
    a: int
    f: bool
D=[P(0,True),P(1,False),P(2,True)]
x = let(P, D, name="x")
xf = x.f
print("shared node and_(not_(xf), xf==False):", [p.a for p in an(entity(x, and_(not_(xf), xf == False))).evaluate()])
x = let(P, D, name="x")
print("fresh nodes:", [p.a for p in an(entity(x, and_(not_(x.f), x.f == False))).evaluate()])
x = let(P, D, name="x")
print("bool attr as condition:", [p.a for p in an(entity(x, x.f)).evaluate()], [p.a for p in an(entity(x, not_(x.f))).evaluate()])
x = let(P, D, name="x")
print("and_(x.f, x.a>0):", [p.a for p in an(entity(x, and_(x.f, x.a > 0))).evaluate()])
