"""unchanged tree: the generated module defines a DAO before its base DAO when the nearest mapped ancestor is reached
through a class that is not given to ORMatic (the inheritance graph has no edge, so the topological order is arbitrary)"""
import importlib.util, os, sys, tempfile
from dataclasses import dataclass
sys.path.insert(0, "/repo/src")
from krrood.class_diagrams import ClassDiagram
from krrood.ormatic.ormatic import ORMatic
@dataclass
class Device: name: str
@dataclass
class Calibrated(Device): pass
@dataclass
class Scanner(Calibrated): resolution: int
@dataclass
class Tuned(Scanner): pass
@dataclass
class LaserScanner(Tuned): wavelength: float
def gen(classes):
    o = ORMatic(class_dependency_graph=ClassDiagram(classes)); o.make_all_tables()
    p = os.path.join(tempfile.mkdtemp(), "iface_order.py")
    with open(p, "w") as f: o.to_sqlalchemy_file(f)
    spec = importlib.util.spec_from_file_location("iface_order_%d" % len(sys.modules), p)
    m = importlib.util.module_from_spec(spec)
    try: spec.loader.exec_module(m); return "imports fine"
    except Exception as e: return f"{type(e).__name__}: {e}"
    finally:
        from sqlalchemy.orm import clear_mappers
if __name__ == "__main__":
    import itertools
    for perm in itertools.permutations([Device, Scanner, LaserScanner]):
        print([c.__name__ for c in perm], "->", gen(list(perm)))
        break
    print([c.__name__ for c in (Scanner, LaserScanner, Device)], "->", gen([Scanner, LaserScanner, Device]))
