import sys
sys.path.insert(0, "/repo")
from sqlalchemy.orm import Session, configure_mappers
from krrood.ormatic.utils import create_engine
from krrood.ormatic.dao import to_dao
from krrood.ormatic.eql_interface import eql_to_sql, EQLTranslationError
from krrood.entity_query_language.entity import *
from krrood.entity_query_language.quantify_entity import an, the
from test.dataset.example_classes import *
from test.dataset.ormatic_interface import *
configure_mappers()
engine = create_engine("sqlite:///:memory:")
Base.metadata.create_all(engine)
os_ = [Orientation(1,2,3,None), Orientation(1,2,3,1.0), Orientation(1,2,3,2.0)]
with Session(engine) as s:
    s.add_all([to_dao(o) for o in os_]); s.commit()
    def both(build):
        o = let(Orientation, os_, name="o")
        try: mem = sorted(str(v.w) for v in build(o).evaluate())
        except Exception as e: mem = f"raises {type(e).__name__}"
        o = let(Orientation, os_, name="o")
        try:
            t = eql_to_sql(build(o), s); sql = sorted(str(v.w) for v in t.evaluate())
        except EQLTranslationError as e: sql = f"rejected {type(e).__name__}"
        except Exception as e: sql = f"ESCAPE {type(e).__name__}: {e}"
        print("mem", mem, "| sql", sql)
    both(lambda o: an(entity(o, o.w != 1.0)))
    both(lambda o: an(entity(o, o.w == None)))
    both(lambda o: an(entity(o, o.w > 1.5)))
    both(lambda o: an(entity(o, in_(o.w, [None, 2.0]))))
    both(lambda o: an(entity(o, or_(o.w == 2.0, o.x == 1))))
    both(lambda o: the(entity(o, o.w == 2.0)))
    both(lambda o: the(entity(o, o.x == 1)))
    both(lambda o: the(entity(o, o.x == 5)))
