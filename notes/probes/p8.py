import sys, json, uuid, math
sys.path.insert(0, "/repo")
from krrood.adapters.json_serializer import *
def tryit(tag):
    try:
        r = from_json({"__json_type__": tag}); return ("OK", type(r).__name__)
    except JSONSerializationError as e: return ("DOC", type(e).__name__)
    except Exception as e: return ("ESCAPE", type(e).__name__, str(e)[:60])
for tag in [None, "", 0, 5, True, 1.5, [], ["a.b"], {}, {"a":1}, "nodot", ".", "..", ".x", "x.", "a..b", "os.path", "os.", ".os.path", "json.dumps", "typing.TypeVar", "typing.T", "typing_extensions.T", "uuid.UUID", "uuid.NAMESPACE_DNS", "krrood.adapters.json_serializer.JSON_TYPE_NAME", "krrood.adapters.json_serializer.leaf_types", "krrood.adapters.json_serializer.SubclassJSONSerializer", "builtins.int", "krrood.nonexistent.X", "krrood.adapters.json_serializer.Nope", "os.path.join", "a b.c", "krrood.adapters.json_serializer.JSONSerializationError", "collections.abc", " .x"]:
    print(repr(tag), tryit(tag))
try: print(from_json("str"), from_json(3), from_json([1,[2]]), from_json(None))
except Exception as e: print(type(e))
# round trip
vals = [None, True, 0, -1, 2**70, 1.5, 1e308, float("inf"), "ü\u0000\ud800"[:2], uuid.uuid4(), [], [[], [1, "a", None]], (1,2), {1,2}]
for v in vals:
    try:
        r = from_json(json.loads(json.dumps(to_json(v)))); print(repr(v)[:40], "->", repr(r)[:40], r == v, type(r) is type(v))
    except Exception as e: print(repr(v)[:40], "raised", type(e).__name__, e)
try: print(to_json({"a": 1}))
except Exception as e: print("dict:", type(e).__name__)
