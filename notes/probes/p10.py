import sys
sys.path.insert(0, "/repo")
from dataclasses import dataclass, field
from typing import List
from krrood.entity_query_language.entity import *
from krrood.entity_query_language.quantify_entity import an, the
from krrood.entity_query_language.predicate import Symbol
from krrood.entity_query_language.match import *
from krrood.entity_query_language.symbol_graph import SymbolGraph

@dataclass(unsafe_hash=True)
class Dr(Symbol):
    n: int
@dataclass(eq=True)
class Cab(Symbol):
    name: str
    drawers: List[Dr] = field(default_factory=list)
    def __hash__(self): return id(self)
SymbolGraph().clear(); SymbolGraph()
d1, d2, d3 = Dr(1), Dr(2), Dr(3)
c1 = Cab("c1", [d1, d2]); c2 = Cab("c2", [d1, d2]); c3 = Cab("c3", [d3]); c4 = Cab("c4", [])
cabs = [c1, c2, c3, c4]
q = an(entity_matching(Cab, cabs)(drawers=match_any([d1, d2])))
print("match_any:", [c.name for c in q.evaluate()], "expected c1 c2")
q = an(entity_matching(Cab, cabs)(drawers=match_all([d1, d2])))
print("match_all:", [c.name for c in q.evaluate()], "expected c1 c2")
q = an(entity_matching(Cab, cabs)(drawers=match_all([d2, d1])))
print("match_all rev:", [c.name for c in q.evaluate()])
q = an(entity_matching(Cab, cabs)(drawers=match(Dr)(n=1)))
print("nested on collection:", [c.name for c in q.evaluate()], "expected c1 c2 (maybe dup)")
q = an(entity_matching(Cab, cabs)(name="c3"))
print("literal:", [c.name for c in q.evaluate()])
q = an(entity_matching(Cab, cabs)(drawers=d3))
print("literal membership:", [c.name for c in q.evaluate()])
q = an(entity_matching(Cab, cabs)(drawers=[d1,d2]))
print("literal list:", [c.name for c in q.evaluate()])

# C10 laziness
log=[]
@dataclass(eq=False)
class P:
    a_: int
    @property
    def a(self): log.append(("get", self.a_)); return self.a_
def gen():
    for i in range(6):
        log.append(("yield", i)); yield P(i)
x = let(P, gen(), name="x")
cond = x.a >= 2
q = an(entity(x, cond))
print("C10 after build:", log)
it = iter(q.evaluate())
r = next(it); print("first:", r.a_, log)
r = next(it); print("second:", r.a_, log[-4:])
