import sys, random, itertools, gc
sys.path.insert(0, "/repo")
from test.dataset.university_ontology_like_classes import Company, Person, CEO
from krrood.entity_query_language.symbol_graph import SymbolGraph
from krrood.entity_query_language.entity import *
from krrood.entity_query_language.quantify_entity import an

# C13 stale re-evaluation
SymbolGraph().clear(); SymbolGraph()
ps=[Person(name="a")]
q = an(entity(let(Person, None)))
print([p.name for p in q.evaluate()])
ps.append(Person(name="b"))
print("re-evaluated same query:", [p.name for p in q.evaluate()], " fresh query:", [p.name for p in an(entity(let(Person, None))).evaluate()])

def closure(facts):
    # facts: set of (rel, s, t) over names. rules: sub(x,y)&sub(y,z)->sub(x,z); works_for->member_of ; member_of <-> members inverse ; head_of(ceo)->works_for(person)
    f=set(facts); ch=True
    while ch:
        ch=False
        new=set()
        for (r,s,t) in f:
            if r=="sub":
                for (r2,s2,t2) in f:
                    if r2=="sub" and s2==t: new.add(("sub",s,t2))
            if r=="works_for": new.add(("member_of",s,t))
            if r=="member_of": new.add(("members",t,s))
            if r=="members": new.add(("member_of",t,s))
        if not new<=f: f|=new; ch=True
    return f
bad=0
for seed in range(300):
    rnd=random.Random(seed)
    SymbolGraph().clear(); sg=SymbolGraph()
    cs=[Company(name=f"c{i}") for i in range(4)]; ps=[Person(name=f"p{i}") for i in range(3)]
    ops=[]
    for _ in range(rnd.randint(1,7)):
        k=rnd.choice(["sub","works_for","member_of","members"])
        if k=="sub": a,b=rnd.sample(range(4),2); ops.append(("sub",f"c{a}",f"c{b}")); cs[a].sub_organization_of.append(cs[b])
        elif k=="works_for":
            a=rnd.randrange(3); b=rnd.randrange(4)
            if any(o[0]=="works_for" and o[1]==f"p{a}" for o in ops): continue
            ops.append(("works_for",f"p{a}",f"c{b}")); ps[a].works_for=cs[b]
        elif k=="member_of": a=rnd.randrange(3); b=rnd.randrange(4); ops.append(("member_of",f"p{a}",f"c{b}")); ps[a].member_of.append(cs[b])
        else: a=rnd.randrange(3); b=rnd.randrange(4); ops.append(("members",f"c{b}",f"p{a}")); cs[b].members.add(ps[a])
    exp=closure(set(ops))
    got=set()
    for rel in sg.relations():
        n=rel.wrapped_field.public_name
        n={"sub_organization_of":"sub"}.get(n,n)
        got.add((n, rel.source.instance.name, rel.target.instance.name))
    fields=set()
    for c in cs:
        for x in c.sub_organization_of: fields.add(("sub",c.name,x.name))
        for x in c.members: fields.add(("members",c.name,x.name))
    for p in ps:
        for x in p.member_of: fields.add(("member_of",p.name,x.name))
        if p.works_for is not None: fields.add(("works_for",p.name,p.works_for.name))
    if got!=exp or fields!=exp:
        bad+=1
        if bad<=3: print("MISMATCH seed",seed,ops,"\n graph-exp",got-exp,"exp-graph",exp-got,"\n fields-exp",fields-exp,"exp-fields",exp-fields)
print("bad",bad)
