import gc, sys
sys.path.insert(0, "/repo")
from test.dataset.university_ontology_like_classes import Company, Person, CEO
from krrood.entity_query_language.symbol_graph import SymbolGraph
from krrood.entity_query_language.entity import *
from krrood.entity_query_language.quantify_entity import an
from krrood.entity_query_language.symbolic import SymbolicExpression
from krrood.entity_query_language.rxnode import RWXNode

SymbolGraph().clear(); sg = SymbolGraph()
def census():
    return sorted(p.name for p in an(entity(let(Person, None))).evaluate())
# C14: garbage prefix then relation
def prefix():
    c = Company(name="Old"); p = Person(name="OldP")
    p.works_for = c
    assert p in c.members
prefix(); gc.collect()
sg.remove_dead_instances()
print("after prefix: nodes", len(sg.wrapped_instances), "index", len(sg._instance_index), "rel_index", {str(k): v for k,v in sg._relation_index.items()})
company = Company(name="New"); person = Person(name="NewP")
print("indices:", sg.get_wrapped_instance(company).index, sg.get_wrapped_instance(person).index)
person.works_for = company
print("C14 person in company.members:", person in company.members, "relations:", len(list(sg.relations())))

# C13
SymbolGraph().clear(); sg = SymbolGraph()
ps = [Person(name=f"p{i}") for i in range(4)]
print("C13 census", census())
del ps[1]; gc.collect()
print("C13 census after del", census())
ps.append(Person(name="p9"))
print("C13 census after add", census(), "index size", len(sg._instance_index), "nodes", len(sg.wrapped_instances))

# C20
import weakref
SymbolGraph().clear(); sg = SymbolGraph()
n0 = len(SymbolicExpression._id_expression_map_); g0 = RWXNode._graph.num_nodes()
def cycle():
    p = Person(name="tmp"); r = weakref.ref(p)
    v = let(Person, None); q = an(entity(v, v.name == "tmp"))
    res = list(q.evaluate())
    return r
r = cycle(); gc.collect()
print("C20 after query w/o domain: alive?", r() is not None)
def cycle2():
    p = Person(name="tmp2"); r = weakref.ref(p)
    v = let(Person, [p]); q = an(entity(v, v.name == "tmp2"))
    res = list(q.evaluate())
    return r
r = cycle2(); gc.collect()
print("C20 after query with domain: alive?", r() is not None)
print("expr map growth", len(SymbolicExpression._id_expression_map_)-n0, "rx graph growth", RWXNode._graph.num_nodes()-g0)
def cycle3():
    p = Person(name="tmp3"); r = weakref.ref(p); return r
r = cycle3(); gc.collect(); sg.remove_dead_instances()
print("C20 never queried: alive?", r() is not None, "index entries", len(sg._instance_index), "nodes", len(sg.wrapped_instances))
