import sys
sys.path.insert(0, "/repo")
from dataclasses import dataclass
from krrood.entity_query_language.entity import *
from krrood.entity_query_language.quantify_entity import an, the
@dataclass(eq=False)
class P:
    a: int
    def __repr__(self): return f"P{self.a}"
@dataclass(eq=False)
class Q:
    b: int
    def __repr__(self): return f"Q{self.b}"
PS=[P(1),P(2),P(3)]; QS=[Q(1),Q(1),Q(3)]
# exists at root with outer var unbound: x such that exists y. x.a >= y.b  -> all x (y.b=1)
x=let(P,PS,name="x"); y=let(Q,QS,name="y")
print("exists root:", list(an(entity(x, exists(y, x.a >= y.b))).evaluate()), "expected [P1,P2,P3]")
x=let(P,PS,name="x"); y=let(Q,QS,name="y")
print("exists after binding:", list(an(entity(x, and_(x.a >= 1, exists(y, x.a >= y.b)))).evaluate()))
x=let(P,PS,name="x"); y=let(Q,QS,name="y")
print("for_all:", list(an(entity(x, for_all(y, x.a >= y.b))).evaluate()), "expected [P3]")
x=let(P,PS,name="x"); y=let(Q,QS,name="y")
print("not exists:", list(an(entity(x, not_(exists(y, x.a < y.b)))).evaluate()), "expected [P3]")
x=let(P,PS,name="x"); y=let(Q,[],name="y")
try: print("for_all empty dom:", list(an(entity(x, for_all(y, x.a >= y.b))).evaluate()), "expected all 3 (vacuous)")
except Exception as e: print("for_all empty dom raised", type(e).__name__, e)
x=let(P,PS,name="x"); y=let(Q,[],name="y")
try: print("exists empty dom:", list(an(entity(x, exists(y, x.a >= y.b))).evaluate()), "expected []")
except Exception as e: print("exists empty raised", type(e).__name__, e)

# C03 shared node across queries: cond in q1, operand in q2
@dataclass(eq=False)
class R:
    f: bool
    a: int
    def __repr__(self): return f"R{self.a}"
RS=[R(False,0),R(True,1),R(False,2)]
x=let(R,RS,name="x"); xf=x.f
q2=an(entity(x, xf == False))
print("q2 alone:", list(q2.evaluate()))
x=let(R,RS,name="x"); xf=x.f
q1=an(entity(x, xf)); q2=an(entity(x, xf == False))
print("q1:", list(q1.evaluate()), " then q2:", list(q2.evaluate()))
