from dataclasses import dataclass
from krrood.entity_query_language.entity import *
from krrood.entity_query_language.quantify_entity import an
@dataclass(eq=False)
class P:
    a: int
    def __repr__(self): return f"P{self.a}"
D=[P(1),P(2)]
x=let(P,D,name="x"); y=let(P,D,name="y")
try: print(list(an(entity(x, exists(y, and_(x.a > 1, y.a == 1)))).evaluate()), "expected [P2]")
except Exception as e: print("exists(y, and_(x.a>1, y.a==1)) raised", type(e).__name__, e)
x=let(P,D,name="x"); y=let(P,D,name="y")
try: print(list(an(entity(x, exists(y, and_(y.a == 1, x.a > 1)))).evaluate()), "expected [P2]")
except Exception as e: print("reordered raised", type(e).__name__, e)
x=let(P,D,name="x"); y=let(P,D,name="y")
try: print(list(an(entity(x, or_(exists(y, x.a > y.a + 0 if False else x.a > y.a), exists(y, x.a < y.a)))).evaluate()), "expected [P2, P1] (each has a witness on one side)")
except Exception as e: print("or of exists raised", type(e).__name__, e)
