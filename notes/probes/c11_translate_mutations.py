"""Mutation test of harness/translate/c11_translate.py (run: /venv/bin/python notes/probes/c11_translate_mutations.py).

Semantic mutations of match.py must change the regenerated table or be rejected; harmless rewrites must leave the table
identical. `--emit DIR` writes the mutated match.py files (one per mutation) for runs of the whole check on worktrees."""
import sys, os, json
HERE = os.path.dirname(os.path.abspath(__file__))
sys.path.insert(0, os.path.join(HERE, "..", "..", "harness"))
from translate.c11_translate import table_of, TranslationError  # noqa: E402

SRC = open(os.environ.get("KRROOD_VERIF_REPO", "/repo") + "/src/krrood/entity_query_language/match.py").read()


def rep(src, a, b, count=1):
    assert src.count(a) == count, (src.count(a), a)
    return src.replace(a, b)


SEMANTIC = {
    "unconstrained-by-kwargs (C11-r5m1)": lambda s: rep(s, "and not self.assigned_value.conditions\n", "and not self.assigned_value.kwargs\n"),
    "swapped-issubclass (C11-r3m2)": lambda s: rep(s, """        return (not attr_type) or (
            (self.assigned_value.type_ and self.assigned_value.type_ is not attr_type)
            and issubclass(self.assigned_value.type_, attr_type)
        )""", """        match_type = self.assigned_value.type_
        if not attr_type:
            return True
        if not match_type or match_type is attr_type:
            return False
        return issubclass(attr_type, match_type)"""),
    "selected-one-level-up (C11-m2)": lambda s: rep(s, """        if self.parent:
            self.parent._update_selected_variables(variable)
        elif hash(variable) not in map(hash, self.selected_variables):
            self.selected_variables.append(variable)""", """        root = self.parent if self.parent else self
        if hash(variable) not in map(hash, root.selected_variables):
            root.selected_variables.append(variable)"""),
    "select-keeps-own-variable (C11-r4m2)": lambda s: rep(s, """                self._update_selected_variables(attr_assignment.attr)
                attr_assigned_value._var_ = attr_assignment.attr""", """                selected_variable = (
                    attr_assigned_value.variable or attr_assignment.attr
                )
                self._update_selected_variables(selected_variable)
                attr_assigned_value._var_ = selected_variable"""),
    "two-flatten-nodes (C11-r2m2)": lambda s: rep(rep(s, """        possibly_flattened_attr = self.attr
        if self.attr._is_iterable_:
            # a match on a collection attribute always speaks about an element of the collection
            possibly_flattened_attr = flatten(self.attr)

        self.assigned_value._resolve(possibly_flattened_attr, parent_match)""", """        self.assigned_value._resolve(self.possibly_flattened_attr, parent_match)"""),
        "HasType(possibly_flattened_attr, self.assigned_value.type_)", "HasType(self.possibly_flattened_attr, self.assigned_value.type_)").replace(
        "    def infer_condition_between_attribute_and_assigned_value(", """    @property
    def possibly_flattened_attr(self):
        if self.attr._is_iterable_:
            return flatten(self.attr)
        return self.attr

    def infer_condition_between_attribute_and_assigned_value(""", 1),
    "contains/in_ swapped": lambda s: rep(rep(rep(s, "condition = contains(self.attr, self.assigned_variable)", "condition = XX(self.attr, self.assigned_variable)"),
                                              "condition = in_(self.attr, self.assigned_variable)", "condition = contains(self.attr, self.assigned_variable)"),
                                          "condition = XX(self.attr, self.assigned_variable)", "condition = in_(self.attr, self.assigned_variable)"),
    "match_all treated as match_any": lambda s: rep(s, """            and not (
                isinstance(self.assigned_value, Match) and self.assigned_value.universal
            )
""", ""),
    "lazy flatten (before f0a8439)": lambda s: rep(s, "        if self.attr._is_iterable_:\n            # a match on a collection",
                                                   "        if self.attr._is_iterable_ and (self.assigned_value.kwargs or self.is_type_filter_needed):\n            # a match on a collection"),
    "falsy value is no type (before 5fb83cd)": lambda s: rep(s, "    elif type_ is not None and not isinstance(type_, type):\n",
                                                             "    elif type_ and not isinstance(type_, type):\n", 2),
    "entity_selection only: falsy value is no type": lambda s: rep(s, "    elif type_ is not None and not isinstance(type_, type):\n        return Select(",
                                                                   "    elif type_ and not isinstance(type_, type):\n        return Select("),
    "exists wrapper keyed on universal": lambda s: rep(s, "if isinstance(self.assigned_value, Match) and self.assigned_value.existential:",
                                                       "if isinstance(self.assigned_value, Match) and self.assigned_value.universal:"),
    "type filter: `is` for `is not`": lambda s: rep(s, "self.assigned_value.type_ is not attr_type)", "self.assigned_value.type_ is attr_type)"),
    "owner type: subclass test dropped": lambda s: rep(s, """        if isinstance(self.type_, type) and (
            not isinstance(variable_type, type) or issubclass(self.type_, variable_type)
        ):""", "        if isinstance(self.type_, type):"),
    "type filter AND unconstrained": lambda s: rep(s, "if self.is_type_filter_needed or element_is_unconstrained:", "if self.is_type_filter_needed and element_is_unconstrained:"),
    "type filter after the nested conditions": lambda s: rep(rep(s, """        if self.is_type_filter_needed or element_is_unconstrained:
            self.conditions.append(
                HasType(possibly_flattened_attr, self.assigned_value.type_)
            )

        self.conditions.extend(self.assigned_value.conditions)
""", """        self.conditions.extend(self.assigned_value.conditions)
        if self.is_type_filter_needed or element_is_unconstrained:
            self.conditions.append(
                HasType(possibly_flattened_attr, self.assigned_value.type_)
            )
"""), "XXXX", "XXXX", 0),
    "type filter on the unflattened attribute": lambda s: rep(s, "HasType(possibly_flattened_attr, self.assigned_value.type_)", "HasType(self.attr, self.assigned_value.type_)"),
    "is_iterable_value: a match is never iterable": lambda s: rep(s, """            isinstance(self.assigned_value, Match)
            and self.assigned_value.variable._is_iterable_
        ):
            return True""", """            isinstance(self.assigned_value, Match)
            and self.assigned_value.variable._is_iterable_
        ):
            return False"""),
}

HARMLESS = {
    "type filter unrolled into early returns (right direction)": lambda s: rep(s, """        return (not attr_type) or (
            (self.assigned_value.type_ and self.assigned_value.type_ is not attr_type)
            and issubclass(self.assigned_value.type_, attr_type)
        )""", """        match_type = self.assigned_value.type_
        if not attr_type:
            return True
        if not match_type or match_type is attr_type:
            return False
        # the matched type narrows the declared one
        return issubclass(match_type, attr_type)"""),
    "resolve: local renamed, conditional expression, comments": lambda s: rep(rep(rep(s, """        possibly_flattened_attr = self.attr
        if self.attr._is_iterable_:
            # a match on a collection attribute always speaks about an element of the collection
            possibly_flattened_attr = flatten(self.attr)
""", """        # element of the collection, or the value itself
        node = flatten(self.attr) if self.attr._is_iterable_ else self.attr
"""), "self.assigned_value._resolve(possibly_flattened_attr, parent_match)", "self.assigned_value._resolve(node, parent_match)"),
        "HasType(possibly_flattened_attr, self.assigned_value.type_)", "HasType(node, self.assigned_value.type_)"),
    "infer: De Morgan": lambda s: rep(s, """            and not (
                isinstance(self.assigned_value, Match) and self.assigned_value.universal
            )
""", """            and (
                not isinstance(self.assigned_value, Match) or not self.assigned_value.universal
            )
"""),
    "unconstrained: conjuncts reordered and inlined": lambda s: rep(rep(s, """        element_is_unconstrained = (
            self.attr._is_iterable_
            and not self.assigned_value.conditions
            and self.assigned_value.type_
        )
""", ""), "if self.is_type_filter_needed or element_is_unconstrained:",
        "if (self.assigned_value.type_ and not self.assigned_value.conditions and self.attr._is_iterable_) or self.is_type_filter_needed:"),
    "_resolve: locals renamed, temporary inlined, docstring dropped": lambda s: rep(rep(s.replace("attr_assignment", "assignment"), """                condition = (
                    assignment.infer_condition_between_attribute_and_assigned_value()
                )
                self.conditions.append(condition)""", """                self.conditions.append(assignment.infer_condition_between_attribute_and_assigned_value())"""),
        "XXXX", "XXXX", 0),
    "is_iterable_value: branches reordered": lambda s: rep(s, """        if isinstance(self.assigned_value, CanBehaveLikeAVariable):
            return self.assigned_value._is_iterable_
        elif not isinstance(self.assigned_value, Match) and is_iterable(
            self.assigned_value
        ):
            return True
        elif (
            isinstance(self.assigned_value, Match)
            and self.assigned_value.variable._is_iterable_
        ):
            return True
        return False""", """        if isinstance(self.assigned_value, CanBehaveLikeAVariable):
            return self.assigned_value._is_iterable_
        if isinstance(self.assigned_value, Match):
            return bool(self.assigned_value.variable._is_iterable_) if False else (True if self.assigned_value.variable._is_iterable_ else False)
        return True if is_iterable(self.assigned_value) else False"""),
    "infer: chain as nested ifs with early exists": lambda s: rep(s, """        else:
            condition = self.attr == self.assigned_variable

        if isinstance(self.assigned_value, Match) and self.assigned_value.existential:
            condition = exists(self.attr, condition)

        return condition""", """        else:
            condition = self.attr == self.assigned_variable

        is_match = isinstance(self.assigned_value, Match)
        if not is_match:
            return condition
        if not self.assigned_value.existential:
            return condition
        return exists(self.attr, condition)"""),
    "owner type: early return": lambda s: rep(s, """        if isinstance(self.type_, type) and (
            not isinstance(variable_type, type) or issubclass(self.type_, variable_type)
        ):
            return self.type_
        return variable_type""", """        if not isinstance(self.type_, type):
            return variable_type
        if not isinstance(variable_type, type):
            return self.type_
        return self.type_ if issubclass(self.type_, variable_type) else variable_type"""),
}

if __name__ == "__main__":
    base = table_of(SRC)
    emit = sys.argv[sys.argv.index("--emit") + 1] if "--emit" in sys.argv else None
    bad = 0
    for kind, muts in (("semantic", SEMANTIC), ("harmless", HARMLESS)):
        for name, f in muts.items():
            src = f(SRC)
            assert src != SRC, name
            compile(src, "match.py", "exec")
            try:
                t = table_of(src)
                diff = [k for k in base if base[k] != t[k]]
                res = "table changed in " + ",".join(diff) if diff else "table unchanged"
            except TranslationError as e:
                res = "rejected: " + str(e).splitlines()[0][:110]
            ok = (res != "table unchanged") if kind == "semantic" else (res == "table unchanged")
            bad += not ok
            print(f"{'ok ' if ok else 'BAD'} [{kind}] {name}: {res}")
            if emit and kind == "semantic":
                os.makedirs(emit, exist_ok=True)
                slug = "".join(c if c.isalnum() else "_" for c in name)[:40]
                open(os.path.join(emit, slug + ".py"), "w").write(src)
    sys.exit(1 if bad else 0)
