import sys
sys.path.insert(0, "/repo")
from dataclasses import dataclass, field
from typing import List, Optional, Set, Type, Dict
import enum
from krrood.class_diagrams.class_diagram import ClassDiagram, Association, Inheritance

@dataclass
class A:
    x: int = 0
    peers: List["B"] = field(default_factory=list)
    _hidden: Optional["B"] = None
@dataclass
class B(A):
    y: Optional[str] = None
    owner: Optional[A] = None
@dataclass
class C(B):
    kind: Type[A] = A
    tags: Set[str] = field(default_factory=set)
    d: Dict[str,int] = field(default_factory=dict)
    
cd = ClassDiagram([C, A, B])
def snap(d): return sorted((type(e).__name__, e.source.clazz.__name__, e.target.clazz.__name__, getattr(getattr(e,'field',None),'name',None)) for e in d._dependency_graph.edges())
before = snap(cd)
print(before)
sub = cd.to_subdiagram_without_inherited_associations()
after = snap(cd)
print("C17 mutated original:", before != after, "sub is cd:", sub is cd, "shared graph:", sub._dependency_graph is cd._dependency_graph)
print(after)
for wc in cd.wrapped_classes:
    for f in wc.fields:
        try:
            print(wc.clazz.__name__, f.name, dict(builtin=f.is_builtin_type, opt=f.is_optional, cont=f.is_container, enum=f.is_enum, o2o=f.is_one_to_one_relationship, o2m=f.is_one_to_many_relationship, tt=f.is_type_type, ep=getattr(f.type_endpoint,'__name__',f.type_endpoint)))
        except Exception as e: print(wc.clazz.__name__, f.name, "raised", type(e).__name__, e)
