import gc, sys
sys.path.insert(0, "/repo")
from test.dataset.university_ontology_like_classes import Company, Person, CEO
from krrood.entity_query_language.symbol_graph import SymbolGraph
SymbolGraph().clear(); sg = SymbolGraph()
cs = [Company(name=f"c{i}") for i in range(5)]
p = Person(name="p")
def names(l): return [x.name for x in l]
p.member_of = [cs[3], cs[1], cs[2], cs[1]]
print("assign list:", names(p.member_of), type(p.member_of).__name__)
p.member_of = p.member_of
print("self-assign:", names(p.member_of))
p.member_of = [cs[0]]
p.member_of += [cs[1]]
print("+= :", names(p.member_of))
p.member_of = [cs[0]]
p.member_of.extend([cs[1], cs[2]]); print("extend:", names(p.member_of), names(cs[2].members))
p.member_of.insert(0, cs[3]); print("insert:", names(p.member_of), names(cs[3].members))
p.member_of[0] = cs[4]; print("setitem:", names(p.member_of), names(cs[4].members))
q = Person(name="q")
q.member_of = [cs[0]]
try:
    q.member_of[0:1] = [cs[1], cs[2]]; print("slice-assign:", names(q.member_of), names(cs[1].members))
except Exception as e: print("slice-assign raised", type(e).__name__, e)
q.member_of = [cs[0]]
x = q.member_of
x *= 2; print("imul:", names(q.member_of))
c = Company(name="cc")
ps = [Person(name=f"q{i}") for i in range(4)]
c.members = {ps[0]}
c.members |= {ps[1]}; print("|= :", sorted(names(c.members)), names(ps[1].member_of))
c.members.update([ps[2]]); print("update:", sorted(names(c.members)), names(ps[2].member_of))
c.members = c.members; print("set self-assign:", sorted(names(c.members)))
c.members = {ps[0]}
s = c.members
s.__ior__({ps[3]}); print("ior direct:", sorted(names(c.members)), names(ps[3].member_of))
