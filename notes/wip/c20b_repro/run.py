import sys, gc, weakref
sys.path.insert(0, "/repo/src"); import os; sys.path.insert(0, os.path.dirname(os.path.abspath(__file__)))
from krrood.entity_query_language.symbol_graph import SymbolGraph

import schema_mod as m
SymbolGraph().clear(); SymbolGraph()
gc.disable()
p0, p1, k = m.Par(0), m.Par(1), m.Kid(2)
p0.children.append(k)
print("after append: k.parent is p0:", k.parent is p0)
w0 = weakref.ref(p0)
del p0
gc.collect()
print("p0 dropped by user, after gc.collect(): alive =", w0() is not None)
p1.children.append(k)
print("k.parent is p1:", k.parent is p1)
print("after p1.children.append(k), NO gc: p0 alive =", w0() is not None)
gc.collect()
print("after gc.collect(): p0 alive =", w0() is not None)
