from __future__ import annotations
from dataclasses import dataclass, field
from typing_extensions import List, Optional
from krrood.entity_query_language.predicate import Symbol
from krrood.ontomatic.property_descriptor.mixins import HasInverseProperty
from krrood.ontomatic.property_descriptor.property_descriptor import PropertyDescriptor

@dataclass(eq=False)
class Node(Symbol):
    label: int

@dataclass(eq=False)
class Par(Node):
    children: List[Kid] = field(default_factory=list)

@dataclass(eq=False)
class Kid(Node):
    parent: Optional[Par] = None

@dataclass
class HasChild(PropertyDescriptor, HasInverseProperty):
    @classmethod
    def get_inverse(cls):
        return ChildOf

@dataclass
class ChildOf(PropertyDescriptor, HasInverseProperty):
    @classmethod
    def get_inverse(cls):
        return HasChild

Par.children = HasChild(Par, "children")
Kid.parent = ChildOf(Kid, "parent")
