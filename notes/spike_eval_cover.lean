namespace Spike
abbrev Var := Nat
abbrev Env := List (Var × Int)

structure World where
  dom : Var → List Int

inductive Term | var (v : Var) | lit (n : Int)
inductive Expr
  | cmp (op : Int → Int → Bool) (l r : Term)
  | and (l r : Expr) | elseIf (l r : Expr) | not (e : Expr)

def evalTerm (w : World) : Term → Env → List (Env × Int)
  | .var v, env => match env.lookup v with
      | some x => [(env, x)]
      | none => (w.dom v).map fun x => ((v, x) :: env, x)
  | .lit n, env => [(env, n)]

def eval (w : World) : Expr → Env → List (Env × Bool)
  | .cmp op l r, env =>
      (evalTerm w l env).flatMap fun p => (evalTerm w r p.1).map fun q => (q.1, op p.2 q.2)
  | .and l r, env => (eval w l env).flatMap fun p => if p.2 then eval w r p.1 else [(p.1, false)]
  | .elseIf l r, env => (eval w l env).flatMap fun p => if p.2 then [(p.1, true)] else eval w r p.1
  | .not e, env => (eval w e env).map fun p => (p.1, !p.2)

def tval (σ : Var → Int) : Term → Int | .var v => σ v | .lit n => n
def sat (σ : Var → Int) : Expr → Bool
  | .cmp op l r => op (tval σ l) (tval σ r)
  | .and l r => sat σ l && sat σ r
  | .elseIf l r => sat σ l || sat σ r
  | .not e => !sat σ e

/-- σ agrees with env: every binding in env matches σ -/
def agrees (σ : Var → Int) (env : Env) : Bool := env.all fun p => σ p.1 == p.2

theorem agrees_iff {σ : Var → Int} {env : Env} : agrees σ env = true ↔ ∀ p ∈ env, σ p.1 = p.2 := by
  simp [agrees]

theorem lookup_mem {env : Env} {v : Var} {x : Int} (hl : env.lookup v = some x) : (v, x) ∈ env := by
  induction env with
  | nil => simp at hl
  | cons p t ih =>
    rw [List.lookup_cons] at hl
    split at hl
    · rename_i heq; simp at heq hl; subst heq hl; simp
    · exact List.mem_cons_of_mem _ (ih hl)

theorem lookup_agrees {σ : Var → Int} {env : Env} (h : agrees σ env = true) {v : Var} {x : Int}
    (hl : env.lookup v = some x) : σ v = x :=
  (agrees_iff.mp h) (v, x) (lookup_mem hl)

def cells {α} (σ : Var → Int) (rs : List (Env × α)) : List (Env × α) := rs.filter fun p => agrees σ p.1

/-- results only extend the environment -/
def Ext (env env' : Env) : Prop := ∃ pre, env' = pre ++ env

theorem agrees_of_ext {σ : Var → Int} {env env' : Env} (h : Ext env env') (ha : agrees σ env' = true) :
    agrees σ env = true := by
  obtain ⟨pre, rfl⟩ := h
  rw [agrees_iff] at ha ⊢
  intro p hp; exact ha p (List.mem_append_right _ hp)

theorem evalTerm_ext (w : World) (t : Term) (env : Env) : ∀ p ∈ evalTerm w t env, Ext env p.1 := by
  intro p hp
  cases t with
  | lit n => simp [evalTerm] at hp; subst hp; exact ⟨[], rfl⟩
  | var v =>
    simp only [evalTerm] at hp
    split at hp
    · simp at hp; subst hp; exact ⟨[], rfl⟩
    · simp at hp; obtain ⟨x, _, rfl⟩ := hp; exact ⟨[(v, x)], rfl⟩

theorem evalTerm_cover (w : World) (σ : Var → Int) (hσ : ∀ v, (w.dom v).count (σ v) = 1)
    (t : Term) (env : Env) (h : agrees σ env = true) :
    (cells σ (evalTerm w t env)).map (·.2) = [tval σ t] := by
  cases t with
  | lit n => simp [evalTerm, cells, h, tval]
  | var v =>
    simp only [evalTerm]
    split
    · rename_i x hx
      simp [cells, h, tval, lookup_agrees h hx]
    · simp only [cells, tval, List.filter_map, List.map_map]
      have : ((w.dom v).filter ((fun p : Env × Int => agrees σ p.1) ∘ fun x => ((v, x) :: env, x)))
           = (w.dom v).filter (fun x => x == σ v) := by
        apply List.filter_congr
        intro x _
        have h' := agrees_iff.mp h
        simp only [Function.comp]
        rw [Bool.eq_iff_iff, agrees_iff]
        simp only [List.mem_cons, beq_iff_eq]
        constructor
        · intro hh; exact (hh (v, x) (Or.inl rfl)).symm
        · intro hh p hp
          rcases hp with rfl | hp
          · exact hh.symm
          · exact h' p hp
      rw [this]
      have hc := hσ v
      rw [List.count_eq_length_filter] at hc
      generalize hf : (w.dom v).filter (fun x => x == σ v) = l at hc
      have hall : ∀ x ∈ l, x = σ v := by
        intro x hx; rw [← hf] at hx; simpa using (List.mem_filter.mp hx).2
      match l, hc, hall with
      | [a], _, hall => simp [hall a (by simp)]

theorem eval_ext (w : World) (e : Expr) : ∀ env, ∀ p ∈ eval w e env, Ext env p.1 := by
  induction e with
  | cmp op l r =>
    intro env p hp
    simp only [eval, List.mem_flatMap, List.mem_map] at hp
    obtain ⟨a, ha, b, hb, rfl⟩ := hp
    obtain ⟨p1, h1⟩ := evalTerm_ext w l env a ha
    obtain ⟨p2, h2⟩ := evalTerm_ext w r a.1 b hb
    exact ⟨p2 ++ p1, by simp [h2, h1]⟩
  | and l r ihl ihr =>
    intro env p hp
    simp only [eval, List.mem_flatMap] at hp
    obtain ⟨a, ha, hp⟩ := hp
    obtain ⟨p1, h1⟩ := ihl env a ha
    split at hp
    · obtain ⟨p2, h2⟩ := ihr a.1 p hp
      exact ⟨p2 ++ p1, by simp [h2, h1]⟩
    · simp at hp; subst hp; exact ⟨p1, h1⟩
  | elseIf l r ihl ihr =>
    intro env p hp
    simp only [eval, List.mem_flatMap] at hp
    obtain ⟨a, ha, hp⟩ := hp
    obtain ⟨p1, h1⟩ := ihl env a ha
    split at hp
    · simp at hp; subst hp; exact ⟨p1, h1⟩
    · obtain ⟨p2, h2⟩ := ihr a.1 p hp
      exact ⟨p2 ++ p1, by simp [h2, h1]⟩
  | not e ih =>
    intro env p hp
    simp only [eval, List.mem_map] at hp
    obtain ⟨a, ha, rfl⟩ := hp
    exact ih env a ha

/-- filtering a flatMap whose pieces only extend their seed: pieces seeded outside σ's cell vanish -/
theorem cells_flatMap {α β} (σ : Var → Int) (rs : List (Env × α)) (f : Env × α → List (Env × β))
    (hf : ∀ a ∈ rs, ∀ p ∈ f a, Ext a.1 p.1) :
    cells σ (rs.flatMap f) = (cells σ rs).flatMap fun a => cells σ (f a) := by
  induction rs with
  | nil => simp [cells]
  | cons a t ih =>
    have iht := ih (fun a ha => hf a (List.mem_cons_of_mem _ ha))
    simp only [cells, List.flatMap_cons, List.filter_append] at iht ⊢
    rw [iht]
    by_cases ha : agrees σ a.1 = true
    · simp [List.filter_cons, ha]
    · have : (f a).filter (fun p => agrees σ p.1) = [] := by
        rw [List.filter_eq_nil_iff]
        intro p hp hpa
        exact ha (agrees_of_ext (hf a (List.mem_cons_self) p hp) hpa)
      simp [List.filter_cons, ha, this]


theorem map_eq_single {α β} {f : α → β} {l : List α} {y : β} (h : l.map f = [y]) : ∃ a, l = [a] ∧ f a = y := by
  match l, h with
  | [a], h => exact ⟨a, rfl, by simpa using h⟩

theorem cells_single {α} {σ : Var → Int} {rs : List (Env × α)} {t : α}
    (h : (cells σ rs).map (·.2) = [t]) : ∃ a, cells σ rs = [a] ∧ a.2 = t ∧ agrees σ a.1 = true := by
  obtain ⟨a, ha, hat⟩ := map_eq_single h
  refine ⟨a, ha, hat, ?_⟩
  have : a ∈ cells σ rs := by rw [ha]; simp
  simpa [cells] using (List.mem_filter.mp this).2

theorem cells_map {α β} (σ : Var → Int) (rs : List (Env × α)) (g : α → β) :
    cells σ (rs.map fun p => (p.1, g p.2)) = (cells σ rs).map fun p => (p.1, g p.2) := by
  simp only [cells, List.filter_map]
  congr 1

/-- MAIN: exactly one result cell contains any total assignment σ, and its truth flag is `sat σ e` -/
theorem eval_cover (w : World) (σ : Var → Int) (hσ : ∀ v, (w.dom v).count (σ v) = 1) (e : Expr) :
    ∀ env, agrees σ env = true → (cells σ (eval w e env)).map (·.2) = [sat σ e] := by
  induction e with
  | cmp op l r =>
    intro env h
    simp only [eval]
    rw [cells_flatMap σ _ _ (by
      intro a _ p hp; simp only [List.mem_map] at hp; obtain ⟨b, hb, rfl⟩ := hp
      exact evalTerm_ext w r a.1 b hb)]
    obtain ⟨a, hca, hat, haa⟩ := cells_single (evalTerm_cover w σ hσ l env h)
    obtain ⟨b, hcb, hbt, _⟩ := cells_single (evalTerm_cover w σ hσ r a.1 haa)
    rw [hca]
    simp only [List.flatMap_cons, List.flatMap_nil, List.append_nil]
    rw [cells_map σ (evalTerm w r a.1) (fun x => op a.2 x), hcb]
    simp [sat, hat, hbt]
  | and l r ihl ihr =>
    intro env h
    simp only [eval]
    rw [cells_flatMap σ _ _ (by
      intro a _ p hp; split at hp
      · exact eval_ext w r a.1 p hp
      · simp at hp; subst hp; exact ⟨[], rfl⟩)]
    obtain ⟨a, hca, hat, haa⟩ := cells_single (ihl env h)
    rw [hca]
    simp only [List.flatMap_cons, List.flatMap_nil, List.append_nil]
    cases hb : a.2 with
    | true => simp [sat, ← hat, hb, ihr a.1 haa]
    | false => simp [sat, ← hat, hb, cells, haa]
  | elseIf l r ihl ihr =>
    intro env h
    simp only [eval]
    rw [cells_flatMap σ _ _ (by
      intro a _ p hp; split at hp
      · simp at hp; subst hp; exact ⟨[], rfl⟩
      · exact eval_ext w r a.1 p hp)]
    obtain ⟨a, hca, hat, haa⟩ := cells_single (ihl env h)
    rw [hca]
    simp only [List.flatMap_cons, List.flatMap_nil, List.append_nil]
    cases hb : a.2 with
    | true => simp [sat, ← hat, hb, cells, haa]
    | false => simp [sat, ← hat, hb, ihr a.1 haa]
  | not e ih =>
    intro env h
    obtain ⟨a, hca, hat, _⟩ := cells_single (ih env h)
    simp only [eval]
    rw [cells_map σ (eval w e env) (fun b => !b), hca]
    simp [sat, hat]

#print axioms eval_cover
end Spike
